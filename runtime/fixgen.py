"""Generates a throw-away fixture package + sqlite store in a temp directory (removed by the caller)."""
import importlib
import io
import os
import shutil
import sys
import tempfile
import textwrap

MOD = '''
import functools
from typing import List, Optional


class Widget:
    class Part:
        pass

    def method(self, n):
        return n

    @classmethod
    def make(cls, n):
        return cls()

    @staticmethod
    def unit():
        return 1

    @property
    def ro(self):
        return "p"

    @property
    def rw(self):
        return 1

    @rw.setter
    def rw(self, v):
        pass


class Gadget:
    pass


def f(a, b=None):
    return a


def g(w):
    return 1


def gen(n):
    for i in range(n):
        yield i


def deco(fn):
    @functools.wraps(fn)
    def wrapper(*a, **k):
        return fn(*a, **k)
    return wrapper


@deco
def wrapped(x):
    return x


def plain_deco(fn):
    """a decorator that does not use functools.wraps: the decorated name is bound to `plain_deco.<locals>.inner_wrapper`"""
    def inner_wrapper(*a, **k):
        return fn(*a, **k)
    return inner_wrapper


@plain_deco
def shadowed(x):
    return x


class Gauge:
    """descriptors stacked on a functools.wraps-style decorator: the tracer records the wrapped function"""

    @property
    @deco
    def level(self):
        return 2

    @classmethod
    @deco
    def build(cls, n=0):
        return cls()

    @staticmethod
    @deco
    def unit2():
        return 1


def annotated(a: int, b, c: Optional[str] = None) -> int:
    return a


def p1(d):
    return d


def p2(d):
    return d


@functools.lru_cache(maxsize=None)
def cached(x):
    return x


class _ClassDeco:
    def __init__(self, fn):
        functools.update_wrapper(self, fn)
        self.fn = fn

    def __call__(self, *a, **k):
        return self.fn(*a, **k)


@_ClassDeco
def class_wrapped(x):
    return x


class NoneType:
    """a user class that merely shares its name with a hidden builtin"""


class mappingproxy:
    pass


not_a_function = 3

# names that used to be functions and are now bound to things that merely look like one
import collections as _collections
import operator as _operator
from time import sleep          # a builtin under the old function's name
NT = _collections.namedtuple("NT", "a")          # generated methods: NT._replace has another __module__


class _Proxy:
    """answers every attribute (an RPC / mock style proxy): inspect.unwrap never ends on it"""
    def __getattr__(self, name):
        return _Proxy()


proxied = _Proxy()


class Holder2:
    po = property(_operator.attrgetter("x"))          # a read-only property whose getter is not a function


def _lazy_getattr_owner():
    class Settings:
        @property
        def debug(self):
            raise KeyError("debug")
    return Settings()


Settings = _lazy_getattr_owner()          # a class name rebound to an instance whose attribute raises something other than AttributeError


def Rebound():
    pass
'''

INNER = '''
class Deep:
    pass


def h(d):
    return d
'''

CFG = '''
from monkeytype.config import DefaultConfig
from monkeytype.db.sqlite import SQLiteStore


class Cfg(DefaultConfig):
    K = {k}

    def trace_store(self):
        return SQLiteStore.make_store({path!r})

    def max_typed_dict_size(self):
        return self.K


CONFIG = Cfg()
'''


class Fixture:
    def __init__(self, name="fxp", k=0):
        self.dir = tempfile.mkdtemp(prefix="verif_fx_")
        self.name = name
        self.k = k
        self.pkg = os.path.join(self.dir, name)
        os.makedirs(os.path.join(self.pkg, "sub"))
        self.write("__init__.py", "class Top:\n    pass\n")
        self.write("mod.py", MOD)
        self.write("sub/__init__.py", "class Gadget:\n    pass\n")
        self.write("sub/inner.py", INNER)
        # a half-removed module: importing it raises ImportError that is not ModuleNotFoundError
        self.write("broken.py", "from os import no_such_name_in_os\n\n\nclass K:\n    pass\n")
        self.db = os.path.join(self.dir, "traces.sqlite3")
        with open(os.path.join(self.dir, name + "_cfg.py"), "w") as f:
            f.write(CFG.format(path=self.db, k=k))
        sys.path.insert(0, self.dir)
        importlib.invalidate_caches()

    def write(self, rel, text):
        with open(os.path.join(self.pkg, rel), "w") as f:
            f.write(textwrap.dedent(text))

    def module(self, rel="mod"):
        importlib.invalidate_caches()
        return importlib.import_module("%s.%s" % (self.name, rel))

    def store(self):
        from monkeytype.db.sqlite import SQLiteStore
        return SQLiteStore.make_store(self.db)

    def reset_db(self):
        if os.path.exists(self.db):
            os.remove(self.db)

    def cli(self, argv):
        from monkeytype import cli
        out, err = io.StringIO(), io.StringIO()
        try:
            rc = cli.main(["-c", "%s_cfg:CONFIG" % self.name] + argv, out, err)
        except SystemExit as e:
            rc = "SystemExit(%s)" % (e.code,)
        except Exception as e:  # a crash of the command is an observation, not a harness failure
            rc = "raised %s: %s" % (type(e).__name__, e)
        return rc, out.getvalue(), err.getvalue()

    def close(self):
        try:
            sys.path.remove(self.dir)
        except ValueError:
            pass
        for m in [m for m in sys.modules if m == self.name or m.startswith(self.name + ".") or m == self.name + "_cfg"]:
            del sys.modules[m]
        shutil.rmtree(self.dir, ignore_errors=True)
