"""Run-time reading of the sidecar contracts on the real functions (bounded tier, replay)."""
import ast
import importlib
import traceback

from pyvc import registry as R
from . import spec_c


class _IsToEq(ast.NodeTransformer):
    """Clauses write `a is b` for object equality of modelled values; on real objects that is ==
    (typing objects are not interned), except against None / True / False."""

    def visit_Compare(self, node):
        self.generic_visit(node)
        ops = []
        for op, right in zip(node.ops, node.comparators):
            const_none = isinstance(right, ast.Constant) and right.value in (None, True, False)
            if isinstance(op, ast.Is) and not const_none:
                op = ast.Eq()
            elif isinstance(op, ast.IsNot) and not const_none:
                op = ast.NotEq()
            ops.append(op)
        node.ops = ops
        return node


_cache = {}


def compile_clause(clause):
    if clause not in _cache:
        tree = ast.parse(clause.strip(), mode="eval")
        tree = ast.fix_missing_locations(_IsToEq().visit(tree))
        _cache[clause] = compile(tree, "<clause>", "eval")
    return _cache[clause]


def ev(clause, env):
    g = dict(spec_c.ENV)
    g.update(env)
    return eval(compile_clause(clause), g)


def load_contracts():
    import os
    root = os.path.dirname(os.path.dirname(os.path.abspath(__file__)))
    for f in sorted(os.listdir(os.path.join(root, "contracts"))):
        if f.endswith(".py") and f != "__init__.py":
            importlib.import_module("contracts." + f[:-3])
    return R.CONTRACTS


def resolve(target):
    mod, qual = target.split(":")
    obj = importlib.import_module(mod)
    for part in qual.split("."):
        obj = getattr(obj, part)
    return obj


def check_call(contract, func, kwargs, only=None, skip=()):
    """Returns (status, detail): status in ok | skipped | fail. detail lists failed clause labels."""
    env = dict(kwargs)
    try:
        for label, clause in contract.requires.items():
            if not ev(clause, env):
                return "skipped", {"requires": label}
    except Exception as e:
        return "skipped", {"requires-error": repr(e)}
    try:
        result = func(**kwargs)
    except Exception as e:
        name = type(e).__name__
        allowed = any(name == k.rstrip("!") or any(b.__name__ == k.rstrip("!") for b in type(e).__mro__) for k in contract.raises)
        if allowed:
            return "ok", {"raised": name}
        return "fail", {"failed": ["safe:no-raise:" + name], "exception": repr(e), "traceback": traceback.format_exc()[-1500:]}
    env["result"] = result
    failed = []
    try:
        for nme, clause in contract.lets.items():
            env[nme] = ev(clause, env)
        for label, clause in contract.ensures.items():
            if only is not None and label not in only:
                continue
            if label in skip:
                continue
            if not ev(clause, env):
                failed.append(label)
    except Exception as e:
        return "error", {"clause-error": repr(e), "traceback": traceback.format_exc()[-1500:]}
    if failed:
        return "fail", {"failed": failed, "result": repr(result)[:500]}
    return "ok", {"result": repr(result)[:200]}
