"""Concrete twins of the spec vocabulary: the same clause text that pyvc reads as a z3 formula is
evaluated here on real objects (reference oracles: conformance `mem`, structural equality, observers)."""
import collections
import inspect
import types as _types
import typing
from typing import Any, Callable, DefaultDict, Dict, Generator, Iterator, List, Set, Tuple, Type, Union

from monkeytype.compat import is_typed_dict
from monkeytype.stubs import ExistingAnnotationStrategy, FunctionKind
from monkeytype.typing import NoneType, is_anonymous_typed_dict, field_annotations

ENV = {}


def spec(f):
    ENV[f.__name__] = f
    return f


class _Range:
    def __init__(self, a, b):
        self.a, self.b = a, b

    def __iter__(self):
        return iter(range(self.a, self.b))


ENV.update({
    "implies": lambda a, b: (not a) or bool(b), "iff": lambda a, b: bool(a) == bool(b),
    "ite": lambda c, a, b: a if c else b, "range_": _Range, "eq": lambda a, b: a == b,
    "forall": lambda dom, f: all(f(x) for x in dom), "exists": lambda dom, f: any(f(x) for x in dom),
    "nth": lambda s, i: list(s)[i], "has": lambda c, x: x in c, "lookup": lambda d, k: d[k] if k in d else None,
    "is_none": lambda x: x is None, "tup": lambda *a: tuple(a), "append": lambda s, x: list(s) + [x],
    "true": True, "false": False, "strlen": len, "prefixof": lambda p, s: s.startswith(p),
    "seq_prefix": lambda s, i: list(s)[:i],
})

# ---- T-SIG
P = inspect.Parameter
ENV.update({
    "EMPTY": inspect.Parameter.empty,
    "params_of": lambda s: list(s.parameters.values()), "ret_of": lambda s: s.return_annotation,
    "names_of": lambda s: list(s.parameters), "pname": lambda p: p.name, "pkind": lambda p: p.kind,
    "pdefault": lambda p: p.default, "panno": lambda p: p.annotation, "is_valid_sig": lambda s: isinstance(s, inspect.Signature),
    "is_param": lambda p: isinstance(p, inspect.Parameter),
    "kind_rank": lambda k: int(k),
    "POSITIONAL_ONLY": P.POSITIONAL_ONLY, "POSITIONAL_OR_KEYWORD": P.POSITIONAL_OR_KEYWORD, "VAR_POSITIONAL": P.VAR_POSITIONAL,
    "KEYWORD_ONLY": P.KEYWORD_ONLY, "VAR_KEYWORD": P.VAR_KEYWORD,
    "REPLICATE": ExistingAnnotationStrategy.REPLICATE, "IGNORE": ExistingAnnotationStrategy.IGNORE, "OMIT": ExistingAnnotationStrategy.OMIT,
})
for _m in FunctionKind:
    ENV["FK_" + _m.name] = _m

# ---- T-TYPES
_GA = typing._GenericAlias
_SGA = typing._SpecialGenericAlias
_ORIGIN_KIND = {list: "List", set: "Set", dict: "Dict", collections.defaultdict: "DefaultDict", type: "Type",
                collections.abc.Iterator: "Iterator", collections.abc.Generator: "Generator"}


@spec
def kind(t):
    if t is Any:
        return "Any"
    if is_typed_dict(t):
        return "TD" if is_anonymous_typed_dict(t) else "NamedTD"
    if isinstance(t, _GA):
        o = t.__origin__
        if o is Union:
            return "Union"
        if o is tuple:
            return "TupleVar" if len(t.__args__) == 2 and t.__args__[1] is Ellipsis else "Tuple"
        if o is collections.abc.Callable:
            return "Other"
        return _ORIGIN_KIND.get(o, "Other")
    if t is Callable:
        return "Callable"
    if isinstance(t, typing.TypeVar):
        return "TypeVar"
    if isinstance(t, typing.ForwardRef):
        return "ForwardRef"
    if isinstance(t, type):
        return "Class"
    return "Other"


for _k in ["Any", "Class", "List", "Set", "Dict", "DefaultDict", "Tuple", "TupleVar", "Type", "Iterator", "Generator",
           "Callable", "Union", "TD", "NamedTD", "ForwardRef", "TypeVar", "Other"]:
    ENV["K_" + _k] = _k


@spec
def args(t):
    return tuple(getattr(t, "__args__", ()))


@spec
def umember(t, m):
    if kind(t) == "Union":
        return any(tyeq(m, a) for a in t.__args__)
    return tyeq(m, t)


def tyeq(a, b):
    """Structural equality of types: unions as sets, TypedDicts by fields (the `≅` oracle)."""
    ka, kb = kind(a), kind(b)
    if ka != kb:
        return False
    if ka == "Union":
        return all(any(tyeq(x, y) for y in b.__args__) for x in a.__args__) and all(any(tyeq(x, y) for y in a.__args__) for x in b.__args__)
    if ka == "TD":
        ra, oa = field_annotations(a)
        rb, ob = field_annotations(b)
        return (set(ra) == set(rb) and set(oa) == set(ob) and all(tyeq(ra[k], rb[k]) for k in ra) and all(tyeq(oa[k], ob[k]) for k in oa))
    if ka == "NamedTD":
        return a.__name__ == b.__name__ and set(a.__annotations__) == set(b.__annotations__) and \
            all(tyeq(a.__annotations__[k], b.__annotations__[k]) for k in a.__annotations__) and \
            getattr(a, "__total__", True) == getattr(b, "__total__", True)
    if ka in ("List", "Set", "Dict", "DefaultDict", "Tuple", "TupleVar", "Type", "Iterator", "Generator"):
        aa, ab = a.__args__, b.__args__
        return len(aa) == len(ab) and all((x is y) or tyeq(x, y) for x, y in zip(aa, ab))
    return a is b or a == b


ENV["tyeq"] = tyeq
ENV.update({
    "ANY": Any, "NONETYPE": NoneType, "NoneType": NoneType, "CALLABLE": Callable, "STR": str, "UNION_BARE": Union,
    "List_": lambda a: List[a], "Set_": lambda a: Set[a], "Dict_": lambda a, b: Dict[a, b], "DefaultDict_": lambda a, b: DefaultDict[a, b],
    "Iterator_": lambda a: Iterator[a], "Generator_": lambda a, b, c: Generator[a, b, c], "Type_": lambda a: Type[a],
    "Tuple_": lambda sq: Tuple[tuple(sq)] if len(tuple(sq)) else Tuple[()], "TupleVar_": lambda a: Tuple[a, ...],
    "Union_": lambda sq: Union[tuple(sq)],
    "is_galias": lambda t: isinstance(t, _GA), "is_special": lambda t: isinstance(t, _SGA),
    "is_tdmeta": is_typed_dict, "is_class": lambda t: isinstance(t, type), "is_typevar": lambda t: isinstance(t, typing.TypeVar),
    "origin": lambda t: getattr(t, "__origin__", None),
    "td_req": lambda t: field_annotations(t)[0], "td_opt": lambda t: field_annotations(t)[1],
})


# ---- conformance oracle mem(v, t) on real values / typing objects (reference, independent of the repo's inference)
import types as _pytypes

_CALLABLE_TYPES = (_pytypes.FunctionType, _pytypes.LambdaType, _pytypes.MethodType, _pytypes.BuiltinMethodType, _pytypes.BuiltinFunctionType)


@spec
def mem(v, t):
    k = kind(t)
    if k == "Any":
        return True
    if k == "Class":
        return isinstance(v, t) if t is not NoneType else v is None
    if k == "Union":
        return any(mem(v, a) for a in t.__args__)
    if k == "List":
        return isinstance(v, list) and all(mem(e, t.__args__[0]) for e in v)
    if k == "Set":
        return isinstance(v, set) and all(mem(e, t.__args__[0]) for e in v)
    if k == "Tuple":
        return isinstance(v, tuple) and len(v) == len(t.__args__) and all(mem(e, a) for e, a in zip(v, t.__args__))
    if k == "TupleVar":
        return isinstance(v, tuple) and all(mem(e, t.__args__[0]) for e in v)
    if k == "Dict":
        return isinstance(v, dict) and all(mem(kk, t.__args__[0]) and mem(vv, t.__args__[1]) for kk, vv in v.items())
    if k == "DefaultDict":
        return isinstance(v, collections.defaultdict) and all(mem(kk, t.__args__[0]) and mem(vv, t.__args__[1]) for kk, vv in v.items())
    if k == "Type":
        return isinstance(v, type) and issubclass(v, t.__args__[0])
    if k == "Callable":
        return callable(v)
    if k == "Iterator":
        return isinstance(v, _pytypes.GeneratorType) or hasattr(v, "__next__")
    if k == "Generator":
        return isinstance(v, _pytypes.GeneratorType)
    if k == "TD":
        req, opt = field_annotations(t)
        if not isinstance(v, dict):
            return False
        if not all(isinstance(kk, str) for kk in v):
            return False
        if not all(kk in v and mem(v[kk], req[kk]) for kk in req):
            return False
        return all((kk in req) or (kk in opt and mem(v[kk], opt[kk])) for kk in v)
    if k == "NamedTD":
        ann = t.__annotations__
        return isinstance(v, dict) and all((kk in ann and mem(vv, ann[kk])) for kk, vv in v.items()) and \
            (not getattr(t, "__total__", True) or all(kk in v for kk in ann))
    raise ValueError("mem: unsupported type %r" % (t,))


def td_nodes(t, _acc=None):
    """All anonymous-TypedDict nodes inside t."""
    acc = [] if _acc is None else _acc
    k = kind(t)
    if k == "TD":
        acc.append(t)
        req, opt = field_annotations(t)
        for x in list(req.values()) + list(opt.values()):
            td_nodes(x, acc)
    elif k in ("Union", "List", "Set", "Dict", "DefaultDict", "Tuple", "TupleVar", "Type", "Iterator", "Generator"):
        for a in t.__args__:
            if a is not Ellipsis:
                td_nodes(a, acc)
    return acc


ENV["td_nodes"] = td_nodes


@spec
def td_ok(t, k):
    for n in td_nodes(t):
        req, opt = field_annotations(n)
        size = len(req) + len(opt)
        if size == 0 or (k is not None and size > k) or set(req) & set(opt) or not all(isinstance(x, str) for x in list(req) + list(opt)):
            return False
    return True
