"""Shared L2 machinery for inference properties (C04, C05, C06, C07, C08, C01)."""
import itertools
import random
from monkeytype.typing import get_type, shrink_types
from . import corpus, spec_c


def short(x, n=120):
    r = repr(x)
    return r if len(r) <= n else r[:n] + "..."


def value_multisets(tier, rnd, max_size=3):
    vs = corpus.vals(2, 2, limit=260 if tier == "quick" else 1200, rnd=rnd)
    singles = [(v,) for v in vs]
    core = [0, "s", None, [], [0], ["s"], {}, {"a": 0}, {"a": "s"}, {"a": 0, "b": "s"}, {"b": 0}, {1: 0}, (0,), (), set(), {0},
            [{"a": 0}], [{"b": "s"}], [[]], [[0]], {"a": {"x": 0}}, {"a": {"y": "s"}}, corpus.FX.Left(), corpus.FX.Right(), corpus.FX.Base]
    class StrKey(str):
        pass
    core += [{StrKey("a"): 1}, {StrKey("a"): 1, StrKey("b"): 2, StrKey("c"): 3}, {"k%d" % i: i for i in range(4)},
             [[{"a": 1}, {"b": 2}], [{"c": 3}, {"d": 4}]], [{"a": 1}, {"b": 2}], [{"c": 3}, {"d": 4}], [{"id": 1}, {"id": 2, "name": "x"}], [{"a": 1}, {}],
             [int, str], [str, int], [corpus.FX.Base, corpus.FX.Left], [len, corpus.FX.a_function],
             # dict lists whose element dicts differ in keys: merging gives TypedDicts with optional fields, merged again below
             [{"a": 1, "b": "x"}, {"a": 2}], [{"a": 3, "c": 2.5}, {"a": 4}], [{"a": 1}, {"b": "s"}], {"p": {"a": 1, "b": "x"}}, {"p": {"a": 2}}, {"p": {"c": 1.5}}]
    import collections
    # instances of a class that evaluates false, as dict keys / tuple elements
    core += [{corpus.FX.Falsy(): 1}, (corpus.FX.Falsy(),), [corpus.FX.Falsy]]
    # an empty container next to a populated container of a *related* kind (subclass origin), both orders
    core += [collections.defaultdict(int, {"a": 1}), collections.defaultdict(list), collections.defaultdict(int, {1: 2})]
    pairs = list(itertools.combinations_with_replacement(core, 2))
    triples = list(itertools.combinations(core[:14], 3)) if tier == "thorough" else rnd.sample(list(itertools.combinations(core[:14], 3)), 60)
    extra = []
    for _ in range(40 if tier == "quick" else 400):
        extra.append(tuple(rnd.choice(vs) for _ in range(rnd.randint(2, 4))))
    # groups large enough for RewriteLargeUnion, all tuples, the empty tuple first / in the middle / last; all lists of distinct element types
    tup = [(), (1,), (1, 2), (1, 2, 3), (1, 2, 3, 4), (1, 2, 3, 4, 5), (1, 2, 3, 4, 5, 6)]
    groups = [tuple(tup), tuple(tup[1:] + tup[:1]), tuple(tup[1:4] + tup[:1] + tup[4:]), tuple([x] for x in (1, "s", 1.5, b"b", None, True, corpus.FX.Left())),
              tuple(tup[:3]), (0, "s", 1.5, b"b", None, True, corpus.FX.Left()), tuple({"k": x} for x in (1, "s", 1.5, b"b", None, True, corpus.FX.Left()))]
    fz = corpus.FX.Falsy
    groups += [((fz(),), (fz(), fz()), ("a",), ("a", "b"), ("a", "b", "c"), ("a", "b", "c", "d")), ({fz(): 1}, {"a": "x"}), ({"a": "x"}, {fz(): 1})]
    groups += [tuple([g]) for g in (list(tup), list(tup[1:] + tup[:1]))]     # the same unions one level down (List[Union[...]])
    return singles + pairs + triples + extra + groups


def infer(values, k):
    return shrink_types([get_type(v, k) for v in values], k)
