"""C17 bounded companion: default_code_filter against the concrete twin of its path specification over the code objects
of the installed interpreter and of generated modules; custom filters; __main__."""
import importlib
import os
import pathlib
import random
import shutil
import sys
import sysconfig
import tempfile
import types

from monkeytype import config as mconfig
from monkeytype.db.base import CallTraceStoreLogger, CallTraceStore
from monkeytype.tracing import CallTrace, trace_calls
from runtime.fixpkg import progs
from runtime.props.c02 import Collector
from runtime.harness import Harness


def spec_filter(filename, allow):
    if not filename or filename[0] == "<":
        return False
    f = pathlib.Path(filename).resolve()
    libs = [pathlib.Path(p).resolve() for p in {sysconfig.get_path(n) for n in ("stdlib", "purelib", "platlib")} if p]
    if allow is None:
        return not any(f == l or l in f.parents for l in libs)
    rel = f
    for l in mconfig.LIB_PATHS:     # "first root that contains it" follows the order the module computed
        if f == l or l in f.parents:
            rel = f.relative_to(l)
            break
    return any(m == rel.stem or m in rel.parts for m in allow)


def code_objects(mod):
    out = []
    for v in list(vars(mod).values()):
        c = getattr(v, "__code__", None)
        if isinstance(c, types.CodeType):
            out.append(c)
        if isinstance(v, type):
            for w in list(vars(v).values()):
                c = getattr(getattr(w, "__func__", w), "__code__", None)
                if isinstance(c, types.CodeType):
                    out.append(c)
    return out


class MemStore(CallTraceStore):
    def __init__(self):
        self.added = []

    def add(self, traces):
        self.added.extend(traces)

    def filter(self, module, qualname_prefix=None, limit=2000):
        return []


def run(ctx):
    H = Harness(ctx)
    rnd = random.Random(ctx["seed"])
    names = sorted(sys.stdlib_module_names)[: (60 if ctx["tier"] == "quick" else 400)] + ["libcst", "pytest", "monkeytype.typing", "monkeytype.stubs", "runtime.fixpkg.progs"]
    codes = []
    for n in names:
        try:
            codes += code_objects(importlib.import_module(n))
        except Exception:
            pass
    # generated modules in a temporary directory, reached directly and through a symlink, plus synthetic file names
    tmp = tempfile.mkdtemp(prefix="c17_")
    try:
        os.makedirs(os.path.join(tmp, "pkg"))
        src = "def f():\n    return 1\n"
        for rel in ("usermod.py", "pkg/__init__.py", "pkg/inner.py"):
            with open(os.path.join(tmp, rel), "w") as fh:
                fh.write(src)
        os.symlink(os.path.join(tmp, "pkg"), os.path.join(tmp, "linked"))
        # code objects compare by value (name, line, bytecode, constants - not file name): keep the generated ones pairwise different,
        # the conflation of *equal* code objects by the filter's lru_cache is exercised separately below (recorded known finding)
        for n_, rel in enumerate(("usermod.py", "pkg/inner.py", "linked/inner.py")):
            codes.append(compile("def f():\n    return %d\n" % (100 + n_), os.path.join(tmp, rel), "exec").co_consts[0])
        for n_, fake in enumerate(("<string>", "<frozen importlib._bootstrap>", "")):
            codes.append(compile("def f():\n    return %d\n" % (200 + n_), fake or "<x>", "exec").co_consts[0].replace(co_filename=fake))
        H.section("default_code_filter vs path spec", "every function code object of %d importable stdlib / site-packages / repo modules + generated modules (temp dir, symlink, synthetic names) x allow-lists" % len(names),
                  "%d code objects x 4 allow-lists" % len(codes))
        for allow in (None, ["usermod"], ["pkg", "json"], ["libcst", "inner", "nonexistent"]):
            if allow is None:
                os.environ.pop("MONKEYTYPE_TRACE_MODULES", None)
            else:
                os.environ["MONKEYTYPE_TRACE_MODULES"] = ",".join(allow)
            mconfig.default_code_filter.cache_clear()
            for c in codes:
                got = mconfig.default_code_filter(c)
                want = spec_filter(c.co_filename, allow)
                key = "%s|%s" % (c.co_filename, allow)
                if got != want:
                    H.violation("monkeytype.config:default_code_filter", "filter:%s:%s:got=%s" % (c.co_filename, allow, got), "default_code_filter disagrees with the path specification",
                                {"co_filename": c.co_filename, "allow_list": allow}, got, want)
                else:
                    H.ok(key, nontrivial=True, sample={"co_filename": c.co_filename, "allow_list": allow, "traced": got})
        os.environ.pop("MONKEYTYPE_TRACE_MODULES", None)
        mconfig.default_code_filter.cache_clear()
    finally:
        shutil.rmtree(tmp, ignore_errors=True)
    # ---- the allow-list names modules / packages, not directories: a module reached through a directory that merely *is named* like a listed name
    H.section("allow-list vs directory names", "a user module imported as `mod17` from <tmp>/<dir>/ with the allow-list naming <dir> (neither the module nor a package of it), and the same with the allow-list naming the module",
              "2 allow-lists")
    tmp2 = tempfile.mkdtemp(prefix="c17d_")
    try:
        d_ = os.path.join(tmp2, "vendor17")
        os.makedirs(d_)
        code17 = compile("def g17():\n    return 317\n", os.path.join(d_, "mod17.py"), "exec").co_consts[0]
        for allow, want in ((["mod17"], True), (["vendor17"], False)):
            os.environ["MONKEYTYPE_TRACE_MODULES"] = ",".join(allow)
            mconfig.default_code_filter.cache_clear()
            got = mconfig.default_code_filter(code17)
            if got == want:
                H.ok("dir-vs-module|%s" % allow, sample={"allow_list": allow, "traced": got})
            else:
                H.violation("monkeytype.config:default_code_filter", "C17-allow-list-matches-directory|%s" % allow, "the module allow-list admits a file because a *directory* on its path is named like a listed name",
                            {"co_filename": "<tmp>/vendor17/mod17.py", "module": "mod17", "allow_list": allow}, got, want)
    finally:
        os.environ.pop("MONKEYTYPE_TRACE_MODULES", None)
        mconfig.default_code_filter.cache_clear()
        shutil.rmtree(tmp2, ignore_errors=True)
    H.section("equal code objects in different files", "the same function text at the same line in a library file and in a user file (code objects compare equal)", "1 pair, both orders")
    std = sysconfig.get_path("stdlib")
    a = compile(src, os.path.join(std, "zz_c17.py"), "exec").co_consts[0]
    b = compile(src, "/home/user/proj/zz_c17.py", "exec").co_consts[0]
    mconfig.default_code_filter.cache_clear()
    r1 = (mconfig.default_code_filter(a), mconfig.default_code_filter(b))
    mconfig.default_code_filter.cache_clear()
    r2 = (mconfig.default_code_filter(b), mconfig.default_code_filter(a))
    mconfig.default_code_filter.cache_clear()
    if r1 == (False, True) and r2 == (True, False):
        H.ok("equal-code", sample={"library-first": r1, "user-first": r2})
    else:
        H.violation("monkeytype.config:default_code_filter", "C17-lru-cache-equal-code|%s|%s" % (r1, r2),
                    "default_code_filter's lru_cache is keyed on code-object equality, which ignores the file name: the verdict for a user function equal to a library function depends on which was seen first",
                    {"library_file": a.co_filename, "user_file": b.co_filename}, {"library-first": r1, "user-first": r2}, {"library-first": (False, True), "user-first": (True, False)})
    # custom filters over random subsets of the program's functions: rejected never logged, accepted always logged
    H.section("custom filters", "random subsets of the functions of a generated program as the filter: logged functions == accepted functions that ran", "16 subsets")
    funcs = ["ret_const", "ret_implicit", "ret_value", "try_finally", "trace_types"]
    for trial in range(16):
        accept = {f for f in funcs if rnd.random() < 0.5}
        col = Collector()
        flt = lambda code: code.co_filename == progs.__file__ and code.co_name in accept
        with trace_calls(col, 0, flt, None):
            progs.scn_returns()
            progs.trace_types(1)
        logged = {t.func.__name__ for t in col.traces}
        want = set(accept)
        if logged == want:
            H.ok("subset:%s" % sorted(accept), sample={"accepted": sorted(accept), "logged": sorted(logged)})
        elif want - logged == {"trace_types"} and not (logged - want):
            H.violation("monkeytype.tracing:CallTracer.__call__", "C17-trace_types|accepted-but-not-logged",
                        "a function named trace_types that the filter accepts never reaches the logger", {"accepted": sorted(accept)}, sorted(logged), sorted(want))
        else:
            H.violation("monkeytype.tracing:CallTracer.__call__", "custom-filter:%s:%s" % (sorted(accept), sorted(logged)), "logged functions differ from the functions the filter accepts",
                        {"accepted": sorted(accept)}, sorted(logged), sorted(want))
    # twin functions (equal code objects) in two files, custom filter admitting only one of them, both call orders
    H.section("custom filter on twin functions", "the same function text at the same line in two files; the filter admits one file only; both orders of calling them", "2 orders")
    tdir = tempfile.mkdtemp(prefix="c17_twin_")
    try:
        for sub in ("alpha", "beta"):
            os.makedirs(os.path.join(tdir, sub))
            with open(os.path.join(tdir, sub, "handler.py"), "w") as fh:
                fh.write("def handle(x):\n    return x\n")
        def load(sub):
            g = {}
            p_ = os.path.join(tdir, sub, "handler.py")
            exec(compile(open(p_).read(), p_, "exec"), g)
            return g["handle"]
        for order in (("alpha", "beta"), ("beta", "alpha")):
            fa, fb = load("alpha"), load("beta")
            fns = {"alpha": fa, "beta": fb}
            col = Collector()
            with trace_calls(col, 0, lambda code: os.sep + "alpha" + os.sep in code.co_filename, None):
                for name in order:
                    fns[name](1)
            files = sorted(t.func.__code__.co_filename.split(os.sep)[-2] for t in col.traces)
            if files == ["alpha"]:
                H.ok("twins:%s" % (order,), sample={"order": order, "logged": files})
            else:
                H.violation("monkeytype.tracing:CallTracer.__call__", "twin-filter:%s:%s" % (order, files), "a custom filter's verdict is not applied per call: equal code objects in different files are conflated",
                            {"order": list(order)}, files, ["alpha"])
    finally:
        shutil.rmtree(tdir, ignore_errors=True)
    # __main__ is never stored
    H.section("__main__", "traces of functions whose module is __main__ never reach the store", "2 functions")
    st = MemStore()
    lg = CallTraceStoreLogger(st)
    def main_fn():
        pass
    main_fn.__module__ = "__main__"
    lg.log(CallTrace(main_fn, {}))
    lg.log(CallTrace(progs.ret_const, {}))
    lg.flush()
    if [t.func for t in st.added] == [progs.ret_const]:
        H.ok("__main__", sample={"stored": [t.func.__name__ for t in st.added]})
    else:
        H.violation("monkeytype.db.base:CallTraceStoreLogger.log", "main-stored:%s" % [t.func.__name__ for t in st.added], "__main__ function stored / other dropped", {}, [t.func.__name__ for t in st.added])
    return H.result()


def replay(rp, ctx):
    return {"note": "re-run ./check C17", "replay": rp}
