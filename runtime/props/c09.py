"""C09 bounded companion: real SQLite stores against a set model: operation sequences over an alphabet chosen to collide under
case folding and SQL / GLOB wildcards, unserialisable traces inside batches, interrupted batch inserts, reopen, concurrent writers."""
import itertools
import multiprocessing as mp
import os
import random
import shutil
import sqlite3
import tempfile

from monkeytype.db.base import CallTraceStoreLogger
from monkeytype.db.sqlite import SQLiteStore
from monkeytype.encoding import CallTraceRow
from monkeytype.tracing import CallTrace
from runtime.harness import Harness

MODULES = ["m1", "M1", "m_1", "mX1"]
QUALS = ["my_func", "myXfunc", "MY_FUNC", "Foo.bar", "foo", "a%b", "aXb", "q[1]", "q1", "m?z", "mxz", "s*r", "star"]
PREFIXES = [None, "my_", "MY", "foo", "Foo", "a%", "q[1]", "m?", "s*", "*", "%", "_", "", "Foo.bar", "my_funcX"]


def make_func(module, qualname):
    def fn():
        pass
    fn.__module__, fn.__qualname__, fn.__name__ = module, qualname, qualname.split(".")[-1]
    return fn


FUNCS = {(m, q): make_func(m, q) for m in MODULES for q in QUALS}
TYPES = [int, str, type(None)]


def trace(m, q, a=0, r=0, y=None):
    return CallTrace(FUNCS[(m, q)], {"x": TYPES[a]}, TYPES[r], TYPES[y] if y is not None else None)


def row_key(t):
    r = CallTraceRow.from_trace(t)
    return (r.module, r.qualname, r.arg_types, r.return_type, r.yield_type)


def check_store(H, store, model, label, limits=(1, 3, 2000)):
    ok = True
    for m in MODULES:
        for p in PREFIXES:
            want = {k for k in model if k[0] == m and (p is None or k[1].startswith(p))}
            for n in limits:
                got = store.filter(m, p, n)
                keys = [(r.module, r.qualname, r.arg_types, r.return_type, r.yield_type) for r in got]
                if len(keys) != len(set(keys)) or not set(keys) <= want or len(keys) != min(n, len(want)):
                    ok = False
                    H.violation("monkeytype.db.sqlite:SQLiteStore.filter", "filter:%s:%s:%s:%d:%d" % (label, m, p, n, len(keys)), "filter(m, p, n) does not return min(n, d) distinct rows with module == m and qualname starting with p",
                                {"sequence": label, "module": m, "prefix": p, "limit": n}, sorted(set(k[:2] for k in keys)), sorted(set(k[:2] for k in want)))
    mods = set(store.list_modules())
    if mods != {k[0] for k in model}:
        ok = False
        H.violation("monkeytype.db.sqlite:SQLiteStore.list_modules", "list_modules:%s:%s" % (label, sorted(mods)), "list_modules is not the set of modules that have rows", {"sequence": label}, sorted(mods), sorted({k[0] for k in model}))
    return ok


def _writer(args):
    path, seed, nb = args
    rnd = random.Random(seed)
    store = SQLiteStore.make_store(path)
    for b in range(nb):
        batch = [trace(rnd.choice(MODULES), rnd.choice(QUALS), rnd.randrange(3), rnd.randrange(3)) for _ in range(5)]
        for attempt in range(50):
            try:
                store.add(batch)
                break
            except sqlite3.OperationalError:
                pass
    return True


def run(ctx):
    H = Harness(ctx)
    rnd = random.Random(ctx["seed"])
    tmp = tempfile.mkdtemp(prefix="verif_c09_")
    thorough = ctx["tier"] == "thorough"
    try:
        H.section("operation sequences vs set model", "random sequences of add(batch) / reopen over 4 modules x 13 qualified names (case / LIKE / GLOB collisions), batches with duplicates and an unserialisable trace, "
                  "through one or two connections and the store logger; after each sequence every filter(m, p, n) for 4 modules x 15 prefixes x 3 limits and list_modules", "%d sequences, length <= 5" % (6 if not thorough else 60))
        for si in range(6 if not thorough else 60):
            path = os.path.join(tmp, "s%d.sqlite3" % si)
            stores = [SQLiteStore.make_store(path), SQLiteStore.make_store(path)]
            model = set()
            steps = []
            for step in range(rnd.randint(1, 5)):
                op = rnd.choice(["add", "add", "add_logger", "reopen"])
                if op == "reopen":
                    stores[0].conn.close()
                    stores[0] = SQLiteStore.make_store(path)
                    steps.append("reopen")
                    continue
                batch = [trace(rnd.choice(MODULES), rnd.choice(QUALS), rnd.randrange(3), rnd.randrange(3), rnd.choice([None, 0, 1])) for _ in range(rnd.randint(0, 6))]
                if batch and rnd.random() < 0.5:
                    batch.append(batch[0])                                # duplicate inside the batch
                if rnd.random() < 0.4:
                    batch.insert(rnd.randrange(len(batch) + 1), CallTrace(FUNCS[("m1", "foo")], {"x": 3}))   # not serialisable: skipped, rest stored
                good = [t for t in batch if all(isinstance(v, type) for v in t.arg_types.values())]
                if op == "add":
                    stores[rnd.randrange(2)].add(batch)
                else:
                    lg = CallTraceStoreLogger(stores[rnd.randrange(2)])
                    for t in batch:
                        lg.log(t)
                    lg.flush()
                model |= {row_key(t) for t in good}
                steps.append("%s(%d)" % (op, len(batch)))
            fresh = SQLiteStore.make_store(path)
            label = "%d:%s" % (si, ",".join(steps))
            if check_store(H, fresh, model, label):
                H.ok(label, sample={"sequence": steps, "distinct_rows": len(model)})
            for s in stores + [fresh]:
                s.conn.close()
        H.section("interrupted batch insert", "a batch insert aborted by sqlite3's progress handler after every n-th VM step: afterwards (same connection and after reopen) the batch is entirely present or entirely absent",
                  "%d abort points" % (40 if not thorough else 400))
        batch = [trace("m1", q, a, r) for q in QUALS for a in range(2) for r in range(1)]
        want = {row_key(t) for t in batch}
        for n in range(1, (40 if not thorough else 400) + 1):
            path = os.path.join(tmp, "f%d.sqlite3" % n)
            st = SQLiteStore.make_store(path)
            st.add([trace("M1", "foo")])
            st.conn.set_progress_handler(lambda: 1, n)
            try:
                st.add(batch)
                outcome = "committed"
            except sqlite3.OperationalError:
                outcome = "aborted"
            st.conn.set_progress_handler(None, 0)
            got_same = {(r.module, r.qualname, r.arg_types, r.return_type, r.yield_type) for r in st.filter("m1")}
            st.conn.close()
            re = SQLiteStore.make_store(path)
            got = {(r.module, r.qualname, r.arg_types, r.return_type, r.yield_type) for r in re.filter("m1")}
            kept = {(r.module, r.qualname) for r in re.filter("M1")}
            re.conn.close()
            if got in (set(), want) and got_same == got and kept == {("M1", "foo")} and (outcome == "committed") == (got == want):
                H.ok("abort@%d:%s" % (n, outcome), nontrivial=True, sample={"abort_every": n, "outcome": outcome, "rows": len(got)})
            else:
                H.violation("monkeytype.db.sqlite:SQLiteStore.add", "partial-batch:abort@%d:%d-of-%d" % (n, len(got), len(want)), "an interrupted batch insert left a partial batch",
                            {"abort_every_vm_steps": n, "outcome": outcome}, {"rows_after_reopen": len(got), "rows_same_connection": len(got_same)}, "0 or %d" % len(want))
        # the same with a *step budget*: the handler is consulted after every VM step and keeps answering "abort" once n steps are used up,
        # so the ROLLBACK that follows the failed insert is interrupted as well; the store is then used again (query, another batch) before looking
        H.section("interrupted batch insert, abort persisting through the rollback", "progress handler consulted every VM step that aborts everything after n steps (insert and the rollback after it); then the budget is lifted, "
                  "the same store runs a query and a further batch: the interrupted batch is entirely present or entirely absent, the later batch is present", "%d budgets" % (60 if not thorough else 300))

        class Budget:
            left = None

            def __call__(self):
                if self.left is None:
                    return 0
                self.left -= 1
                return 1 if self.left < 0 else 0
        for n in range(0, (60 if not thorough else 300)):
            path = os.path.join(tmp, "g%d.sqlite3" % n)
            st = SQLiteStore.make_store(path)
            b = Budget()
            st.conn.set_progress_handler(b, 1)
            b.left = n
            try:
                st.add(batch)
                outcome = "committed"
            except sqlite3.OperationalError:
                outcome = "aborted"
            b.left = None
            later_ok = True
            try:
                st.filter("m1", "zz")
                st.add([trace("mX1", "star")])
            except sqlite3.Error:
                later_ok = False
            st.conn.close()
            re = SQLiteStore.make_store(path)
            got = {(r.module, r.qualname, r.arg_types, r.return_type, r.yield_type) for r in re.filter("m1")}
            later = {(r.module, r.qualname) for r in re.filter("mX1")}
            re.conn.close()
            if got in (set(), want) and (outcome == "committed") == (got == want) and later_ok and later == {("mX1", "star")}:
                H.ok("budget@%d:%s" % (n, outcome), nontrivial=True, sample={"budget": n, "outcome": outcome, "rows": len(got)})
            else:
                H.violation("monkeytype.db.sqlite:SQLiteStore.add", "partial-batch:budget@%d:%d-of-%d:later=%s" % (n, len(got), len(want), later_ok and bool(later)),
                            "a batch insert interrupted together with its rollback is later committed in part (or blocks the store)",
                            {"abort_after_vm_steps": n, "outcome": outcome}, {"rows_after_reopen": len(got), "later_batch_present": bool(later), "later_ops_ok": later_ok}, "0 or %d rows; the later batch present" % len(want))
        H.section("interrupted large batch", "batches of 600 / 1800 distinct rows whose last row is rejected by a BEFORE INSERT trigger (RAISE(ABORT)), and the same batches aborted by the progress handler "
                  "late in the insert: afterwards (same connection, second connection, after reopen) none of the batch is present", "2 sizes x (trigger + 6 late abort points)")
        for size in (600, 1800):
            big = [CallTrace(make_func("big", "f%04d" % i), {"x": int}, int) for i in range(size - 1)] + [CallTrace(make_func("big", "zz_last"), {"x": int}, int)]
            for mode in ["trigger"] + [("progress", size * k) for k in (2, 4, 6, 8, 10, 12)]:
                path = os.path.join(tmp, "big%d_%s.sqlite3" % (size, mode if isinstance(mode, str) else mode[1]))
                st = SQLiteStore.make_store(path)
                st.add([trace("M1", "foo")])
                if mode == "trigger":
                    st.conn.execute("CREATE TRIGGER boom BEFORE INSERT ON monkeytype_call_traces WHEN NEW.qualname = 'zz_last' BEGIN SELECT RAISE(ABORT, 'boom'); END")
                    st.conn.commit()
                else:
                    st.conn.set_progress_handler(lambda: 1, mode[1])
                try:
                    st.add(big)
                    outcome = "committed"
                except sqlite3.Error:
                    outcome = "aborted"
                st.conn.set_progress_handler(None, 0)
                other = SQLiteStore.make_store(path)
                n_same, n_other = len(st.filter("big", None, 5000)), len(other.filter("big", None, 5000))
                st.conn.close()
                other.conn.close()
                re = SQLiteStore.make_store(path)
                n_re = len(re.filter("big", None, 5000))
                re.conn.close()
                want_n = size if outcome == "committed" else 0
                key = "big:%d:%s:%s" % (size, mode if isinstance(mode, str) else "progress@%d" % mode[1], outcome)
                if n_same == n_other == n_re == want_n and (mode != "trigger" or outcome == "aborted"):
                    H.ok(key, nontrivial=True, sample={"batch": size, "mode": str(mode), "outcome": outcome, "rows": n_re})
                else:
                    H.violation("monkeytype.db.sqlite:SQLiteStore.add", "partial-large-batch:%s:%d/%d/%d" % (key, n_same, n_other, n_re), "an interrupted batch insert left part of the batch committed",
                                {"batch_size": size, "mode": str(mode), "outcome": outcome}, {"same_connection": n_same, "other_connection": n_other, "after_reopen": n_re}, "0 or %d" % size)
        H.section("concurrent writers", "N processes adding batches to one database file concurrently: afterwards every row is one some process added, integrity_check is ok", "N in %s" % ([2, 4] if not thorough else [2, 4, 8, 16]))
        for nproc in ([2, 4] if not thorough else [2, 4, 8, 16]):
            path = os.path.join(tmp, "c%d.sqlite3" % nproc)
            SQLiteStore.make_store(path).conn.close()
            with mp.get_context("fork").Pool(nproc) as pool:
                pool.map(_writer, [(path, ctx["seed"] * 100 + i, 4) for i in range(nproc)])
            want = set()
            for i in range(nproc):
                r2 = random.Random(ctx["seed"] * 100 + i)
                for b in range(4):
                    want |= {row_key(trace(r2.choice(MODULES), r2.choice(QUALS), r2.randrange(3), r2.randrange(3))) for _ in range(5)}
            st = SQLiteStore.make_store(path)
            integ = st.conn.execute("PRAGMA integrity_check").fetchall()
            got = set()
            for m in MODULES:
                got |= {(r.module, r.qualname, r.arg_types, r.return_type, r.yield_type) for r in st.filter(m)}
            st.conn.close()
            if got == want and integ == [("ok",)]:
                H.ok("writers=%d" % nproc, sample={"processes": nproc, "distinct_rows": len(got)})
            else:
                H.violation("monkeytype.db.sqlite:SQLiteStore.add", "concurrent:%d:%d:%d" % (nproc, len(got), len(want)), "concurrent writers lost or invented rows", {"processes": nproc}, len(got), len(want))
    finally:
        shutil.rmtree(tmp, ignore_errors=True)
    H.assumptions.append("SQLite's ACID behaviour (atomic commit, durability after close, isolation between connections and processes) is assumed; the fault injection above is bounded evidence, not proof")
    return H.result()


def replay(rp, ctx):
    return {"note": "re-run ./check C09 with the same VERIF_SEED", "replay": rp}
