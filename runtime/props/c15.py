"""C15 bounded stand-in (libcst's ApplyTypeAnnotationsVisitor is outside any VC generator): applying a generated stub only adds
annotations / imports / generated TypedDict classes; existing annotations unchanged unless overwrite; every stub annotation for an
unannotated position is present; applying twice changes nothing."""
import ast
import importlib
import itertools
import os
import random
import shutil
import sys
import tempfile

from monkeytype.cli import apply_stub_using_libcst
from monkeytype.stubs import ExistingAnnotationStrategy, build_module_stubs_from_traces
from monkeytype.tracing import CallTrace
from monkeytype.typing import get_type
from runtime.harness import Harness

SOURCES = {
    "basic": '''"""Doc."""
import os
from typing import List
from collections import OrderedDict as OD   # the stub may newly import the same object under its own name

X = 1  # module level code
Y = OD()


def deco(f):
    return f


@deco
def f(a, b=None, *args, c: int = 3, **kw):
    """docstring"""
    # a comment
    def nested(z):
        return z
    return nested(a)


def partly(a: int, b) -> "str":
    return str(a)


class K:
    attr = [1, 2]

    def m(self, x, y: str = "q"):
        return x

    @classmethod
    def cm(cls, n):
        return n

    @staticmethod
    def sm(n=None):
        return n

    @property
    def p(self):
        return 1


async def co(a):
    return a


def gen(n):
    yield n


if X:
    Y = f(1)
''',
    "posonly-local-import": '''import os


def clamp(value, lo, hi, /):
    return value


def lazy(n):
    from collections import OrderedDict  # needed at run time
    return OrderedDict(a=n)


class K:
    def m(self, x, /):
        return x

    def add(self, n, /, *, k=0):
        return n
''',
    "late-import": '''import os
import sys

sys.path.insert(0, os.getcwd())  # must run before the next import
import json

LATE = json.dumps([1])


def f(a, b=2):
    return a


class K:
    def m(self, x):
        return x
''',
    "future": '''from __future__ import annotations
import sys


def f(a, b=2):
    return a


class K:
    def m(self, x):
        return x
''',
}


def erase(tree):
    """AST with parameter / return annotations removed, newly added imports and generated TypedDict classes dropped."""
    class E(ast.NodeTransformer):
        def visit_arg(self, node):
            node.annotation = None
            return node

        def visit_FunctionDef(self, node):
            self.generic_visit(node)
            node.returns = None
            return node
        visit_AsyncFunctionDef = visit_FunctionDef
    return E().visit(tree)


def strip_added(tree, original):
    orig_imports = {ast.unparse(s) for s in original.body if isinstance(s, (ast.Import, ast.ImportFrom))}
    orig_names = {a.name for s in ast.walk(original) if isinstance(s, ast.ImportFrom) for a in s.names}
    body = []
    for st in tree.body:
        if isinstance(st, (ast.Import, ast.ImportFrom)):
            if ast.unparse(st) in orig_imports:
                body.append(st)
            elif isinstance(st, ast.ImportFrom):
                # an existing `from typing import List` may have gained names: keep only the original ones
                keep = [a for a in st.names if any(ast.unparse(o).startswith("from %s import" % st.module) and (a.name, a.asname) in [(x.name, x.asname) for x in o.names]
                                                   for o in original.body if isinstance(o, ast.ImportFrom))]
                if keep:
                    st.names = keep
                    body.append(st)
            continue
        if isinstance(st, ast.ClassDef) and st.name.endswith(("TypedDict__RENAME_ME__", "TypedDict__RENAME_ME__NonTotal")):
            continue
        if isinstance(st, ast.If) and "TYPE_CHECKING" in ast.unparse(st.test):
            continue
        body.append(st)
    tree.body = body
    return tree


def _imports(tree):
    top, confined = set(), set()
    for st in tree.body:
        if isinstance(st, (ast.Import, ast.ImportFrom)):
            top |= {(getattr(st, "module", None), a.name, a.asname) for a in st.names}
        elif isinstance(st, ast.If) and "TYPE_CHECKING" in ast.unparse(st.test):
            for s2 in st.body:
                if isinstance(s2, (ast.Import, ast.ImportFrom)):
                    confined |= {(getattr(s2, "module", None), a.name, a.asname) for a in s2.names}
    return top, confined


def readds_confined_imports_only(first, second):
    """The recorded finding: the second application differs from the first only by module-level imports (new statements, or names merged into an
    existing statement) of names that the first application had confined under TYPE_CHECKING."""
    t1, t2 = ast.parse(first), ast.parse(second)
    top1, conf1 = _imports(t1)
    top2, conf2 = _imports(t2)
    rest = lambda t: ast.dump(ast.Module(body=[st for st in t.body if not isinstance(st, (ast.Import, ast.ImportFrom))], type_ignores=[]))
    return top1 <= top2 and bool(top2 - top1) and (top2 - top1) <= conf1 and rest(t1) == rest(t2)


def annotations_of(tree):
    out = {}

    def walk(body, prefix):
        for st in body:
            if isinstance(st, (ast.FunctionDef, ast.AsyncFunctionDef)):
                a = st.args
                for p in a.posonlyargs + a.args + a.kwonlyargs + ([a.vararg] if a.vararg else []) + ([a.kwarg] if a.kwarg else []):
                    out[(prefix + st.name, p.arg)] = ast.unparse(p.annotation) if p.annotation else None
                out[(prefix + st.name, "return")] = ast.unparse(st.returns) if st.returns else None
            elif isinstance(st, ast.ClassDef):
                walk(st.body, prefix + st.name + ".")
    walk(tree.body, "")
    return out


def run(ctx):
    H = Harness(ctx)
    rnd = random.Random(ctx["seed"])
    tmp = tempfile.mkdtemp(prefix="verif_c15_")
    sys.path.insert(0, tmp)
    H.section("apply only adds annotations and imports", "generated sources (comments, decorators, nested defs, partial annotations, typing imports, __future__, docstrings, class / module level code) x stubs from random traced subsets "
              "x overwrite x k in {0,3} x confinement: erased ASTs equal, existing annotations kept unless overwrite, stub annotations present, second application is a no-op", "2 sources x 6 subsets x 2 x 2 x 2")
    try:
        for sn, src in SOURCES.items():
            name = "c15src_%s_%d" % (sn, ctx["seed"])
            with open(os.path.join(tmp, name + ".py"), "w") as f:
                f.write(src)
            importlib.invalidate_caches()
            mod = importlib.import_module(name)
            funcs = [getattr(mod, n) for n in ("f", "partly", "co", "gen", "clamp", "lazy") if hasattr(mod, n)]
            K = getattr(mod, "K")
            funcs += [K.m] + ([K.cm.__func__, K.sm, K.p.fget] if hasattr(K, "cm") else []) + ([K.add] if hasattr(K, "add") else [])
            import inspect
            for trial in range(6 if ctx["tier"] == "quick" else 40):
                subset = [fn for fn in funcs if rnd.random() < 0.6] or funcs[:1]
                for k in (0, 3):
                    import collections as _c
                    vals = [1, "s", None, [1], {"a": 1}, {"a": 1, "b": "x"}, mod.K(), _c.OrderedDict(a=1)]
                    traces = []
                    for fn in subset:
                        sig = inspect.signature(fn)
                        at = {n: get_type(rnd.choice(vals), k) for n in sig.parameters if n not in ("self", "cls", "args", "kw")}
                        is_gen = fn.__name__ == "gen"
                        traces.append(CallTrace(fn, at, None if is_gen else get_type(rnd.choice(vals), k), int if is_gen else None))
                    for (overwrite, strat), confine in itertools.product(((False, ExistingAnnotationStrategy.OMIT), (False, ExistingAnnotationStrategy.IGNORE),
                                                                            (True, ExistingAnnotationStrategy.IGNORE)), (False, True)):
                        stub = build_module_stubs_from_traces(traces, k, existing_annotation_strategy=strat)[name].render()
                        key = "%s|%d|%s|k=%d|ow=%s|%s|cf=%s" % (sn, trial, sorted(f_.__qualname__ for f_ in subset), k, overwrite, strat.name, confine)
                        try:
                            out = apply_stub_using_libcst(stub, src, overwrite, confine)
                            tree = ast.parse(out)
                        except Exception as e:
                            H.violation("monkeytype.cli:apply_stub_using_libcst", "apply-fails:%s:%s" % (key, type(e).__name__), "apply fails or produces invalid Python", {"stub": stub[:600]}, repr(e)[:400])
                            continue
                        problems = []
                        known_second = False
                        orig = ast.parse(src)
                        if ast.dump(erase(strip_added(ast.parse(out), orig))) != ast.dump(erase(ast.parse(src))):
                            if not (confine and sn != "future" and ast.dump(erase(strip_added(ast.parse(out.replace("from __future__ import annotations\n", "", 1)), orig))) == ast.dump(erase(ast.parse(src)))):
                                problems.append("program text changed beyond annotations / imports / generated classes")
                        before, after = annotations_of(orig), annotations_of(tree)
                        stub_ann = annotations_of(ast.parse(stub))
                        for pos, an in before.items():
                            if an is not None and not overwrite and after.get(pos) != an:
                                problems.append("existing annotation of %s changed: %s -> %s" % (pos, an, after.get(pos)))
                        for pos, an in stub_ann.items():
                            if an is not None and before.get(pos) is None and pos[1] not in ("self", "cls") and after.get(pos) is None:
                                problems.append("stub annotation for unannotated %s is missing" % (pos,))
                        try:
                            again = apply_stub_using_libcst(stub, out, overwrite, confine)
                            if again != out:
                                import difflib
                                added = [l[1:] for l in difflib.unified_diff(out.splitlines(), again.splitlines(), lineterm="", n=0) if l.startswith("+") and not l.startswith("+++")]
                                removed = [l[1:] for l in difflib.unified_diff(out.splitlines(), again.splitlines(), lineterm="", n=0) if l.startswith("-") and not l.startswith("---")]
                                if confine and overwrite and readds_confined_imports_only(out, again):
                                    known_second = True
                                else:
                                    problems.append("second application changes the source: +%s -%s" % (added[:3], removed[:3]))
                        except Exception as e:
                            problems.append("second application fails: %r" % e)
                        if known_second and not problems:
                            H.violation("monkeytype.cli:apply_stub_using_libcst", "C15-second-apply-readds-confined-import",
                                        "with --pep_563 and overwriting, a second application re-adds at module level an import that the first application confined under TYPE_CHECKING",
                                        {"source": sn, "overwrite": overwrite, "confine": confine}, {"result_head": out[:300]})
                        elif problems:
                            H.violation("monkeytype.cli:apply_stub_using_libcst", "apply:%s:%s" % (key, problems[0][:100]), "apply: " + "; ".join(problems[:3]), {"source": sn, "stub": stub[:700]}, {"result": out[:900], "problems": problems})
                        else:
                            H.ok(key, sample={"source": sn, "traced": [f_.__qualname__ for f_ in subset][:4], "k": k, "overwrite": overwrite, "confine": confine})
        # ---- two source shapes on which the stub's names and libcst's reading of them part ways
        H.section("names libcst reads differently", "a method with a private (name-mangled) parameter `__x`; a function whose argument is an instance of a nested class `Outer.Inner`: after apply the stub's "
                  "annotations are present and the module still imports", "2 sources x confinement")
        extra = {
            "mangled-parameter": ("class C:\n    def f(self, __x, y=None):\n        return str(__x)\n\n\nRESULT = C().f(1)\n",
                                  lambda m: [CallTrace(m.C.f, {"_C__x": int, "y": int}, str)], ("C.f", "y")),
            "nested-class-annotation": ("class Outer:\n    class Inner:\n        pass\n\n\ndef use(inner, n):\n    return n\n\n\nRESULT = use(Outer.Inner(), 1)\n",
                                        lambda m: [CallTrace(m.use, {"inner": m.Outer.Inner, "n": int}, int)], ("use", "n")),
        }
        for en, (src, mk, (fq, pname)) in extra.items():
            name = "c15x_%s_%d" % (en.replace("-", "_"), ctx["seed"])
            with open(os.path.join(tmp, name + ".py"), "w") as f:
                f.write(src)
            importlib.invalidate_caches()
            mod = importlib.import_module(name)
            stub = build_module_stubs_from_traces(mk(mod), 0)[name].render()
            for confine in (False, True):
                key = "%s|cf=%s" % (en, confine)
                problems = []
                try:
                    out = apply_stub_using_libcst(stub, src, False, confine)
                    after = annotations_of(ast.parse(out))
                    if after.get((fq, pname)) is None:
                        problems.append("stub annotation for %s.%s is missing" % (fq, pname))
                    try:
                        exec(compile(out, "<c15 %s>" % key, "exec"), {"__name__": name})
                    except Exception as e:
                        problems.append("result does not import: %r" % (e,))
                except Exception as e:
                    out = ""
                    problems.append("apply fails: %r" % (e,))
                if not problems:
                    H.ok(key, sample={"source": en, "confine": confine, "result_head": out[:160]})
                elif en == "mangled-parameter" and problems == ["stub annotation for C.f.y is missing"]:
                    H.violation("monkeytype.stubs:FunctionDefinition.from_callable", "C15-mangled-parameter-not-annotated",
                                "a method parameter written `__x` is reported by inspect as `_C__x`; the stub uses that name, libcst matches parameters by name and rejects the whole function: none of its annotations is applied (exit status 0)",
                                {"source": en, "confine": confine, "stub": stub[:300]}, {"result": out[:400]})
                elif en == "nested-class-annotation" and len(problems) == 1 and "does not import" in problems[0] and "Outer" in problems[0]:
                    H.violation("monkeytype.cli:apply_stub_using_libcst", "C15-nested-class-annotation-bogus-import",
                                "an annotation naming a nested class (`Outer.Inner`) is read by libcst as module.attribute: it adds `from Outer import Inner` and the module no longer imports",
                                {"source": en, "confine": confine, "stub": stub[:300]}, {"result": out[:400], "problem": problems[0]})
                else:
                    H.violation("monkeytype.cli:apply_stub_using_libcst", "apply-x:%s:%s" % (key, problems[0][:100]), "apply: " + "; ".join(problems[:3]), {"source": en, "stub": stub[:500]}, {"result": out[:700], "problems": problems})
        # ---- through the CLI: a module inside a package with relative / local imports, `apply` with and without --pep_563
        import subprocess
        import monkeytype
        from runtime.fixgen import Fixture
        H.section("apply through the CLI on a package module", "module inside a package using `from .models import User` and a function-local import; traced with monkeytype.trace, `monkeytype apply [--pep_563]`; "
                  "the rewritten file keeps its erased AST and still imports in a fresh interpreter", "2 flag sets")
        APP = "from .models import User\n\n\ndef get(u, n=1):\n    return u\n\n\ndef lazy(n):\n    from .models import Extra  # run-time use\n    return Extra()\n\n\nRESULT = get(User()).__class__.__name__\n"
        LONG = "Optional[Union[Dict[str, List[int]], Tuple[int, ...], List[Dict[str, Tuple[int, int, int]]]]]"
        APP_LONG = ("from typing import Dict, List, Optional, Tuple, Union\n" + APP).replace("def get(u, n=1):", "def get(u: %s, n: %s = 1) -> %s:" % (LONG, LONG, LONG))
        for flags in ([], ["--pep_563"], ["--ignore-existing-annotations"]):
            fx = Fixture("fxc15_%d_%d" % (ctx["seed"], len(flags) + 2 * ("--ignore-existing-annotations" in flags)))
            APP_ = APP_LONG if "--ignore-existing-annotations" in flags else APP
            try:
                fx.write("models.py", "class User:\n    pass\n\n\nclass Extra:\n    pass\n")
                fx.write("app.py", APP_)
                app = fx.module("app")
                cfg = importlib.import_module(fx.name + "_cfg").CONFIG
                with monkeytype.trace(cfg):
                    app.get(app.User(), 2)
                    app.lazy(1)
                rc, out, err = fx.cli(["apply"] + flags + [fx.name + ".app"])
                new_src = open(os.path.join(fx.pkg, "app.py")).read()
                problems = []
                if rc != 0:
                    problems.append("apply exits with %r: %s" % (rc, err[-300:]))
                else:
                    orig = ast.parse(APP_)
                    got = new_src.replace("from __future__ import annotations\n", "", 1) if "--pep_563" in flags else new_src
                    try:
                        if ast.dump(erase(strip_added(ast.parse(got), orig))) != ast.dump(erase(ast.parse(APP_))):
                            problems.append("program text changed beyond annotations / imports")
                    except SyntaxError as e:
                        problems.append("the rewritten file is not valid Python: %r" % (e,))
                    if new_src.strip() != out.strip():
                        problems.append("the file on disk differs from the source `apply` printed")
                    env = dict(os.environ, PYTHONPATH=os.pathsep.join([fx.dir] + [p_ for p_ in sys.path if p_]))
                    pr = subprocess.run([sys.executable, "-c", "import %s.app as a; assert a.RESULT == 'User'; assert a.lazy(1).__class__.__name__ == 'Extra'" % fx.name], env=env, capture_output=True, text=True, cwd=fx.dir, timeout=120)
                    if pr.returncode != 0:
                        problems.append("rewritten module does not import / behave: %s" % pr.stderr[-300:])
                    if "def get(u:" not in new_src:
                        problems.append("annotation for get(u) is missing")
                key = "cli-apply|%s" % flags
                if problems:
                    H.violation("monkeytype.cli:apply_stub_handler", "cli-apply:%s:%s" % (flags, problems[0][:100]), "apply through the CLI: " + "; ".join(problems[:3]), {"flags": flags}, {"result": new_src[:900], "problems": problems})
                else:
                    H.ok(key, sample={"flags": flags, "result_head": new_src[:200]})
            finally:
                fx.close()
    finally:
        sys.path.remove(tmp)
        shutil.rmtree(tmp, ignore_errors=True)
    H.assumptions.append("libcst.codemod.visitors.ApplyTypeAnnotationsVisitor is a dependency outside the VC generator: this property is decided by a bounded run-time contract only")
    return H.result()


def replay(rp, ctx):
    return {"note": "re-run ./check C15 with the same VERIF_SEED", "replay": rp}
