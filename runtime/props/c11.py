"""C11 bounded companion: the annotation text of a stub, evaluated with only the names the stub's own import block and class
definitions provide (plus builtins and the target module's own classes), is structurally equal to the rendered type."""
import ast
import importlib
import io
import os
import random
import shutil
import sys
import tempfile
import typing
from typing import Any, Callable, DefaultDict, Dict, Generator, Iterator, List, Optional, Set, Tuple, Type, Union

from monkeytype.stubs import build_module_stubs_from_traces
from monkeytype.tracing import CallTrace
from monkeytype.typing import field_annotations, make_typed_dict
from runtime import spec_c, infer
from runtime.harness import Harness

NoneType = type(None)
FILES = {
    "zz11.py": "class B:\n    class Nested:\n        pass\n\nclass zz11:\n    pass\n",
    "pkg11/__init__.py": "class Root:\n    pass\n",
    "pkg11/zz11.py": "class B:\n    pass\n\nclass C:\n    pass\n",
    "foo11.py": "class Baz:\n    pass\n\nclass foo11:\n    class Inner:\n        pass\n",
    "barfoo11.py": "class Baz:\n    pass\n",
    # a module whose name ends in "typing", a class whose name contains "NoneType"
    "mytyping11.py": "class Foo:\n    pass\n\nclass NoneTypeish:\n    pass\n",
    # a class nested in a class that is named like another imported module: stripping the prefix `ab11.` exposes `ba11.X`
    "ab11.py": "class ba11:\n    class X:\n        pass\n",
    "ba11.py": "class Y:\n    pass\n",
    "target11.py": "class Own:\n    class Deep:\n        pass\n\ndef f(x):\n    return x\n\ndef g(d):\n    return d\n\ndef h(x, y):\n    return x\n\nclass K:\n    def m(self, x):\n        return x\n",
}


def td_equiv(got, want, classes):
    """Structural equality where `got` may use generated TypedDict classes (ForwardRef / class objects) for anonymous TypedDicts of `want`."""
    if isinstance(got, typing.ForwardRef):
        got = classes.get(got.__forward_arg__, got)
    if isinstance(got, str):
        got = classes.get(got, got)
    kw = spec_c.kind(want)
    if kw == "TD":
        req, opt = field_annotations(want)
        if not (isinstance(got, type) and hasattr(got, "__annotations__")):
            return False
        ann = typing.get_type_hints(got, localns=classes) if False else dict(got.__annotations__)
        # NonTotal subclass: merged annotations
        for base in getattr(got, "__mro__", ())[1:]:
            ann = {**getattr(base, "__annotations__", {}), **ann}
        if set(ann) != set(req) | set(opt):
            return False
        return all(td_equiv(ann[k], v, classes) for k, v in list(req.items()) + list(opt.items()))
    kg = spec_c.kind(got)
    if kg != kw:
        return False
    if kw == "Union":
        return len(got.__args__) == len(want.__args__) and all(any(td_equiv(a, b, classes) for a in got.__args__) for b in want.__args__)
    if kw in ("List", "Set", "Dict", "DefaultDict", "Tuple", "TupleVar", "Type", "Iterator", "Generator"):
        return len(got.__args__) == len(want.__args__) and all((a is b) or td_equiv(a, b, classes) for a, b in zip(got.__args__, want.__args__))
    return got is want or got == want


def evaluate_stub(text, target_mod):
    """Returns {function qualname: {param: evaluated annotation, 'return': ...}}, raising if anything cannot be resolved."""
    tree = ast.parse(text)
    ns = {}
    for n, v in vars(target_mod).items():
        if isinstance(v, type) and v.__module__ == target_mod.__name__:
            ns[n] = v
    classes = {}
    # 1. the import block, executed for real
    for st in tree.body:
        if isinstance(st, (ast.Import, ast.ImportFrom)):
            exec(compile(ast.Module(body=[st], type_ignores=[]), "<stub-imports>", "exec"), ns)
    # 2. generated TypedDict classes, in order
    for st in tree.body:
        if isinstance(st, ast.ClassDef) and st.bases:
            exec(compile(ast.Module(body=[st], type_ignores=[]), "<stub-classes>", "exec"), ns)
            classes[st.name] = ns[st.name]
    out = {}

    def visit(body, prefix):
        for st in body:
            if isinstance(st, (ast.FunctionDef, ast.AsyncFunctionDef)):
                anns = {}
                for a in st.args.posonlyargs + st.args.args + st.args.kwonlyargs:
                    if a.annotation is not None:
                        anns[a.arg] = eval(compile(ast.Expression(a.annotation), "<anno>", "eval"), ns)
                if st.returns is not None:
                    anns["return"] = eval(compile(ast.Expression(st.returns), "<anno>", "eval"), ns)
                out[prefix + st.name] = anns
            elif isinstance(st, ast.ClassDef) and not st.bases:
                visit(st.body, prefix + st.name + ".")
    visit(tree.body, "")
    return out, classes


GENERIC_NAME = {"List": "List", "Set": "Set", "Dict": "Dict", "DefaultDict": "DefaultDict", "Tuple": "Tuple", "TupleVar": "Tuple", "Type": "Type",
                "Iterator": "Iterator", "Generator": "Generator", "Callable": "Callable", "Union": "Union"}


def uses_c(t):
    """Concrete twin of T-IMPORTS uses(t, m, n): the set of (module, name) pairs the rendered annotation needs."""
    k = spec_c.kind(t)
    if t is type(NotImplemented):
        return {("types", "NotImplementedType")}
    if t is type(type.__dict__):
        return {("types", "MappingProxyType")}
    if not (isinstance(t, type) or t is Any or k in GENERIC_NAME) or getattr(t, "__module__", None) == "builtins":
        return set()
    if t is Any:
        return {("typing", "Any")}
    if k == "Union":
        out = set()
        if NoneType in t.__args__:
            out.add(("typing", "Optional"))
            if len(t.__args__) >= 3:
                out.add(("typing", "Union"))
        else:
            out.add(("typing", "Union"))
        for a in t.__args__:
            if a is not NoneType:
                out |= uses_c(a)
        return out
    if k in GENERIC_NAME:
        out = {(t.__module__, GENERIC_NAME[k].split(".")[0])}
        for a in getattr(t, "__args__", ()) or ():
            out |= uses_c(a)
        return out
    return {(t.__module__, t.__qualname__.split(".")[0])}


def has_td(t):
    k = spec_c.kind(t)
    if k in ("TD", "NamedTD"):
        return True
    return any(a is not Ellipsis and has_td(a) for a in getattr(t, "__args__", ()) or ()) if k in GENERIC_NAME else False


def eval_with_uses(text, fn, which, t, target_mod):
    """Evaluate one annotation of the stub in a namespace that provides only what uses_c(t) says (plus builtins and the target module's own classes)."""
    ns = {n: v for n, v in vars(target_mod).items() if isinstance(v, type) and v.__module__ == target_mod.__name__}
    for m, n in uses_c(t):
        if m != target_mod.__name__:
            ns[n] = getattr(importlib.import_module(m), n)
    tree = ast.parse(text)
    for st in ast.walk(tree):
        if isinstance(st, (ast.FunctionDef, ast.AsyncFunctionDef)) and st.name == fn.split(".")[-1]:
            node = st.returns if which == "return" else next(a.annotation for a in st.args.args if a.arg == which)
            return eval(compile(ast.Expression(node), "<anno>", "eval"), ns)
    raise LookupError(fn)


def run(ctx):
    H = Harness(ctx)
    rnd = random.Random(ctx["seed"])
    tmp = tempfile.mkdtemp(prefix="verif_c11_")
    sys.path.insert(0, tmp)
    try:
        for rel, src in FILES.items():
            p = os.path.join(tmp, rel)
            os.makedirs(os.path.dirname(p), exist_ok=True)
            with open(p, "w") as f:
                f.write(src)
        importlib.invalidate_caches()
        zz, pzz, foo, barfoo, target = (importlib.import_module(n) for n in ("zz11", "pkg11.zz11", "foo11", "barfoo11", "target11"))
        myt = importlib.import_module("mytyping11")
        ab, ba = importlib.import_module("ab11"), importlib.import_module("ba11")
        leaves = [ab.ba11.X, ba.Y, type(NotImplemented), type(type.__dict__), myt.Foo, myt.NoneTypeish, int, str, NoneType, Any, zz.B, zz.B.Nested, zz.zz11, pzz.B, pzz.C, foo.Baz, foo.foo11, foo.foo11.Inner, barfoo.Baz, target.Own, target.Own.Deep, io.StringIO]
        types = list(leaves)
        for a in leaves:
            types += [List[a], Optional[a] if a not in (NoneType, Any) else List[a], Dict[str, a], Tuple[a, int], Type[a] if isinstance(a, type) and a is not NoneType else Set[a], Iterator[a]]
        types += [Tuple[()], Callable, Tuple[int, ...], DefaultDict[str, pzz.B], Generator[zz.B, NoneType, pzz.B], Union[zz.B, pzz.B], Union[foo.Baz, barfoo.Baz], Dict[str, Union[pzz.C, foo.foo11.Inner]],
                  List[Optional[barfoo.Baz]], Union[int, str, None]]
        td1 = make_typed_dict(required_fields={"a": int, "b": pzz.B})
        td2 = make_typed_dict(required_fields={"a": int}, optional_fields={"c": barfoo.Baz})
        td_nested = make_typed_dict(required_fields={"inner": make_typed_dict(required_fields={"x": zz.B})})
        tds = [td1, td2, td_nested, List[td1], Dict[str, td1], Tuple[td1, td2], Optional[td2], Set[int], DefaultDict[str, td1], Union[td1, int]]
        H.section("annotation text denotes the type", "types over classes spread across modules whose names are dotted / textual suffixes of one another (zz11 / pkg11.zz11, foo11 / barfoo11), a class named like its module, nested classes, "
                  "_io types, the target module's own classes, at argument / return / yield positions; anonymous TypedDicts at every container position (incl. DefaultDict); "
                  "import block executed in an empty namespace, generated classes registered, each annotation eval-ed and compared structurally", "%d types x 3 positions" % (len(types) + len(tds)))
        for t in types + tds:
            for pos in ("arg", "return", "yield"):
                if pos == "arg":
                    tr = CallTrace(target.f, {"x": t}, int)
                elif pos == "return":
                    tr = CallTrace(target.K.m, {"x": int}, t)
                else:
                    tr = CallTrace(target.g, {"d": int}, None, t)
                key = "%s|%s" % (infer.short(t), pos)
                try:
                    text = build_module_stubs_from_traces([tr], 10)["target11"].render()
                except Exception as e:
                    H.violation("monkeytype.stubs:build_module_stubs_from_traces", "render-raises:%s:%s" % (key, type(e).__name__), "stub generation raises", {"type": repr(t), "position": pos}, repr(e))
                    continue
                try:
                    anns, classes = evaluate_stub(text, target)
                except Exception as e:
                    in_class_stub = any(ln.startswith("    ") and ":" in ln and "." in ln.split(":", 1)[1] and "def " not in ln for ln in text.splitlines())
                    if "DUMMY_NAME" in text:
                        kind = "typeddict-not-replaced|%s" % key
                    elif in_class_stub and isinstance(e, NameError):
                        kind = "C11-class-stub-field-imports"
                    else:
                        kind = "eval|%s" % key
                    H.violation("monkeytype.stubs:FunctionStub.render", "%s|%s" % (kind, type(e).__name__), "a name used in the stub is not provided by its imports / classes, or the stub does not evaluate: %r" % (e,),
                                {"type": repr(t), "position": pos}, {"stub": text[-700:], "error": repr(e)})
                    continue
                fn = {"arg": "f", "return": "K.m", "yield": "g"}[pos]
                anns = {q: {n: (NoneType if a is None else a) for n, a in d.items()} for q, d in anns.items()}
                got = anns.get(fn, {}).get("x" if pos == "arg" else "return")
                want = t if pos != "yield" else Iterator[t]
                if got is None or not td_equiv(got, want, classes):
                    names = [c.__name__ for c in leaves if isinstance(c, type) and ((c.__module__ + "." + c.__qualname__) in repr(want))]
                    clash = len(names) != len(set(names))
                    kind = "C11-same-name-two-modules" if clash else "denotes|%s|%s" % (key, infer.short(got))
                    H.violation("monkeytype.stubs:FunctionStub.render", kind, "annotation text evaluates to a different type", {"type": repr(want), "position": pos},
                                {"evaluated": repr(got), "stub": text[-600:]})
                else:
                    H.ok(key, sample={"type": infer.short(t), "position": pos, "stub_tail": text[-160:]})
                    # T-IMPORTS validation: the names uses(t, ., .) lists are all the rendered annotation needs
                    if not has_td(want):
                        try:
                            got2 = eval_with_uses(text, fn, "x" if pos == "arg" else "return", want, target)
                            got2 = NoneType if got2 is None else got2
                            if not td_equiv(got2, want, {}):
                                H.theory_failure("uses-def", "annotation evaluated with only the names uses() lists denotes another type", {"type": repr(want), "got": repr(got2)})
                        except NameError as e:
                            H.theory_failure("uses-def", "the rendered annotation needs a name that uses() does not list: %r" % (e,), {"type": repr(want), "uses": sorted(uses_c(want)), "stub": text[-300:]})
        pk = importlib.import_module("pkg11")
        cls_leaves = [c for c in leaves if isinstance(c, type) and c.__module__ not in ("builtins",)] + [pk.Root]
        H.section("two annotations in one signature", "ordered pairs of classes from modules whose names overlap (a package and its submodule, zz11 / pkg11.zz11, foo11 / barfoo11) as the two parameter types of "
                  "one function: each annotation eval-ed in the stub's own namespace denotes its class", "%d ordered pairs" % (len(cls_leaves) * (len(cls_leaves) - 1)))
        for a in cls_leaves:
            for b in cls_leaves:
                if a is b:
                    continue
                key = "pair|%s|%s" % (infer.short(a), infer.short(b))
                try:
                    text = build_module_stubs_from_traces([CallTrace(target.h, {"x": a, "y": List[b]}, int)], 10)["target11"].render()
                    anns, classes = evaluate_stub(text, target)
                    got = anns.get("h", {})
                    okp = got.get("x") is a and spec_c.tyeq(got.get("y"), List[b])
                    err = None
                except Exception as e:      # noqa
                    okp, err, got = False, e, {}
                    text = locals().get("text", "")
                if okp:
                    H.ok(key, sample={"pair": key, "stub_tail": text[-120:]})
                else:
                    names = [a.__qualname__.split(".")[0], b.__qualname__.split(".")[0]]      # the names the import block binds
                    kind = "C11-same-name-two-modules" if (names[0] == names[1] and a.__module__ != b.__module__) else "pair-denotes|%s|%s" % (key, type(err).__name__ if err else infer.short(got))
                    H.violation("monkeytype.stubs:FunctionStub.render", kind, "with two classes from textually overlapping modules in one signature an annotation does not evaluate to its class",
                                {"x": repr(a), "y": repr(List[b])}, {"error": repr(err), "evaluated": repr(got), "stub": text[-500:]})
        # ---- generated class names: two functions of one module whose parameters share a name but receive dicts of different shapes
        H.section("generated TypedDict classes of several functions", "two functions with a parameter of the same name traced with dicts of different shapes (and the same shape): every annotation, evaluated in the stub's "
                  "own namespace, denotes the TypedDict inferred for *that* function; no class is defined twice", "2 pairs x 2 orders")
        td3, td4 = make_typed_dict(required_fields={"mode": bytes}), make_typed_dict(required_fields={"path": str, "depth": int})
        for label, ta, tb in (("different-shapes", td4, td3), ("same-shape", td4, td4)):
            for order in (0, 1):
                trs = [CallTrace(target.f, {"x": ta}, int), CallTrace(target.h, {"x": tb, "y": int}, int)]
                if order:
                    trs.reverse()
                key = "td-classes|%s|order=%d" % (label, order)
                try:
                    text = build_module_stubs_from_traces(trs, 10)["target11"].render()
                    anns, classes = evaluate_stub(text, target)
                    defs = [n.name for n in ast.walk(ast.parse(text)) if isinstance(n, ast.ClassDef)]
                    okc = td_equiv(anns.get("f", {}).get("x"), ta, classes) and td_equiv(anns.get("h", {}).get("x"), tb, classes)
                    dup = sorted({d for d in defs if defs.count(d) > 1})
                    err = None
                except Exception as e:   # noqa
                    okc, dup, err = False, [], e
                    text = locals().get("text", "")
                if okc and not (dup and label == "different-shapes"):
                    H.ok(key, sample={"case": label, "order": order, "stub_tail": text[-160:]})
                else:
                    H.violation("monkeytype.stubs:FunctionDefinition.from_callable_and_traced_types", "C11-typeddict-class-name-collision|%s" % label if (dup and err is None) else "td-classes|%s|%s" % (key, type(err).__name__ if err else "denotes"),
                                "generated TypedDict classes of two functions get the same name: the class is defined twice and both annotations denote the last definition",
                                {"case": label, "order": order, "f.x": repr(ta), "h.x": repr(tb)}, {"duplicate_classes": dup, "error": repr(err), "stub": text[-700:]})
        # ---- a TypedDict at the yield position: Iterator[...] is not a container the TypedDict replacement / the renderer walks
        H.section("TypedDict yielded by a generator", "a function whose yield type is an anonymous TypedDict (alone, and with a return type next to it, which gives Generator[...]): the return annotation, evaluated in the stub's own namespace, "
                  "denotes Iterator / Generator of the generated class", "2 shapes")
        for label, ret in (("iterator", None), ("generator", int)):
            key = "td-yield|%s" % label
            try:
                text = build_module_stubs_from_traces([CallTrace(target.f, {"x": int}, ret, td4)], 10)["target11"].render()
                anns, classes = evaluate_stub(text, target)
                got = anns.get("f", {}).get("return")
                okc = got is not None and td_equiv(got.__args__[0], td4, classes)
                err = None
            except Exception as e:   # noqa
                okc, err = False, e
                text = locals().get("text", "")
            if okc:
                H.ok(key, sample={"case": label, "stub_tail": text[-160:]})
            else:
                H.violation("monkeytype.stubs:RenderAnnotation.generic_rewrite", "C11-yield-typeddict-forwardref-repr|%s" % label if "ForwardRef(" in text else "td-yield|%s|%s" % (label, type(err).__name__ if err else "denotes"),
                            "a generator yielding a dict (k > 0) is annotated `Iterator[ForwardRef('...')]`: GenericTypeRewriter has no rewrite_Iterator, so the forward reference inside Iterator is rendered by repr() and the stub does not evaluate",
                            {"case": label, "yield": repr(td4)}, {"error": repr(err), "stub": text[-500:]})
    finally:
        sys.path.remove(tmp)
        for n in ("zz11", "pkg11.zz11", "pkg11", "foo11", "barfoo11", "target11", "mytyping11", "ab11", "ba11"):
            sys.modules.pop(n, None)
        shutil.rmtree(tmp, ignore_errors=True)
    return H.result()


def replay(rp, ctx):
    return {"note": "re-run ./check C11", "replay": rp}
