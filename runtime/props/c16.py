"""C16 bounded companion: --pep_563 confinement on real libcst: the result starts with the __future__ import, newly
introduced annotation-only imports sit under `if TYPE_CHECKING:`, imports the source already had stay where they were, and the
resulting module still imports and behaves (whatever generated code needs at import time is imported at runtime)."""
import ast
import itertools
import os
import random
import shutil
import sys
import tempfile

from monkeytype.cli import apply_stub_using_libcst
from runtime.harness import Harness

SHAPES = "class Circle:\n    pass\n\nclass Square:\n    pass\n\nSIDE = 4\n"
OTHER = "class Thing:\n    pass\n\n\nclass Circle:\n    pass\n"
TYPINGISH = "class Helper:\n    pass\n"      # a user module whose *name* starts with `typing`: not the typing module
BODY = "\n\ndef area(c, k=1):\n    return k\n\n\ndef make():\n    return None\n\n\nRESULT = area(None)\n"
VERBATIM = {"parenthesised-with-comments"}
SOURCES = {
    "plain": "" + BODY,
    "docstring": '"""Module docstring."""\n' + BODY,
    # layout and comments inside a source import statement from which nothing moves must survive (the statement "stays where it was", as written)
    "parenthesised-with-comments": "from os.path import (\n    join,  # noqa: F401\n    split,  # type: ignore\n)\nimport os, sys  # both needed\nimport shapes16\n" + BODY + "\nSIDE2 = shapes16.SIDE\n",
    # the name the stub imports is already bound in the source, to a class of another module
    "name-bound-to-other-module": "from other16 import Circle\n" + BODY + "\nKEEP = Circle\n",
    "imports-top": "import os\nimport shapes16\n" + BODY + "\nSIDE2 = shapes16.SIDE\n",
    "from-import": "from shapes16 import Square\n" + BODY + "\nSQ = Square\n",
    "alias": "from shapes16 import Circle as C\n" + BODY + "\nALIASED = C\n",
    "alias-module": "import shapes16 as sh\n" + BODY + "\nSIDE2 = sh.SIDE\n",
    "dotted": "import os.path\n" + BODY + "\nP = os.path.sep\n",
    "future": "from __future__ import annotations\nimport os\n" + BODY,
    "star": "from shapes16 import *\n" + BODY + "\nSIDE2 = SIDE\n",
    "in-function": BODY + "\n\ndef late():\n    import shapes16\n    return shapes16.SIDE\n\n\nLATE = late()\n",
    "type-checking-block": "from typing import TYPE_CHECKING\nif TYPE_CHECKING:\n    from other16 import Thing\n" + BODY,
    "typing-import": "from typing import List\n" + BODY + "\nL = List\n",
    "try-type-checking": "import os\n" + BODY + "\ntry:\n    from typing import TYPE_CHECKING\nexcept ImportError:\n    TYPE_CHECKING = False\n",
    "same-name-alias": "from shapes16 import Circle as Circle\n" + BODY + "\nKEEP = Circle\n",
    "local-import-of-stub-name": BODY + "\n\ndef lazy():\n    from shapes16 import Circle  # needed at run time\n    return Circle()\n\n\nLAZY = lazy()\n",
    "future-import-mentioned-in-docstring": '"""Notes: a later version might add `from __future__ import annotations` here."""\nimport os\n' + BODY,
    "future-import-mentioned-in-comment": "# TODO: from __future__ import annotations\nimport os\n" + BODY,
    # the name bound by a top-level import is bound again later (function-local import, except-branch fallback): the top-level import is still the source's own
    "name-rebound-in-function": "from shapes16 import Circle\n" + BODY + "\nKEEP = Circle\n\n\ndef lazy():\n    from other16 import Thing as Circle\n    return Circle()\n\n\nLAZY = lazy()\n",
    "try-fallback-import": "try:\n    from shapes16 import Circle\nexcept ImportError:\n    from other16 import Thing as Circle\n" + BODY + "\nKEEP = Circle\n",
    # an explicit import next to a star import of the same module (libcst's gatherer stops recording explicit names of a star-imported module)
    "star-then-explicit": "from shapes16 import *\nfrom shapes16 import Circle\n" + BODY + "\nKEEP = Circle\n",
    "explicit-then-star": "from shapes16 import Circle\nfrom shapes16 import *\n" + BODY + "\nKEEP = Circle\n",
    "module-alias-rebound": "import shapes16 as sh\n" + BODY + "\nSIDE2 = sh.SIDE\n\n\ndef lazy():\n    import other16 as sh\n    return sh.Thing()\n\n\nLAZY = lazy()\n",
    # nothing left to annotate (libcst's applier then returns the tree untouched)
    "already-annotated": "import os\n\n\ndef area(c: object, k: int = 1) -> int:\n    return k\n\n\ndef make() -> None:\n    return None\n\n\nRESULT = area(None)\n",
    "self-reference": "from typing import Optional\n\n\nclass Node:\n    def link(self, other):\n        return other\n" + BODY,
}
STUBS = {
    "new-user-class": "from shapes16 import Circle\ndef area(c: Circle, k: int = ...) -> int: ...\n",
    "two-modules": "from other16 import Thing\nfrom shapes16 import Circle\ndef area(c: Circle, k: int = ...) -> int: ...\ndef make() -> Thing: ...\n",
    "module-named-like-typing": "from typing16_helpers import Helper\ndef area(c: Helper, k: int = ...) -> int: ...\n",
    "typing-names": "from typing import List, Optional\ndef area(c: Optional[int], k: int = ...) -> int: ...\ndef make() -> List[int]: ...\n",
    "already-imported": "from shapes16 import Square\ndef area(c: Square, k: int = ...) -> int: ...\n",
    "only-existing-imports": "from typing import Optional\nclass Node:\n    def link(self, other: Optional[Node]) -> Optional[Node]: ...\ndef area(c: Optional[int], k: int = ...) -> int: ...\n",
    "typed-dict": "from mypy_extensions import TypedDict\nfrom shapes16 import Circle\n\n\nclass CTypedDict__RENAME_ME__(TypedDict):\n    a: int\n\n\ndef area(c: 'CTypedDict__RENAME_ME__', k: int = ...) -> Circle: ...\n",
}


def import_facts(tree):
    """[(statement text, inside_type_checking, depth)] for every import in the module."""
    out = []

    def walk(body, in_tc, depth):
        for st in body:
            if isinstance(st, (ast.Import, ast.ImportFrom)):
                for a in st.names:
                    one = ast.Import(names=[a]) if isinstance(st, ast.Import) else ast.ImportFrom(module=st.module, names=[a], level=st.level)
                    out.append((ast.unparse(one), in_tc, depth))
            elif isinstance(st, ast.If):
                tc = in_tc or "TYPE_CHECKING" in ast.unparse(st.test)
                walk(st.body, tc, depth + 1)
                walk(st.orelse, in_tc, depth + 1)
            elif isinstance(st, (ast.FunctionDef, ast.ClassDef, ast.With, ast.Try)):
                walk(st.body, in_tc, depth + 1)
    walk(tree.body, False, 0)
    return out


def run(ctx):
    H = Harness(ctx)
    tmp = tempfile.mkdtemp(prefix="verif_c16_")
    sys.path.insert(0, tmp)
    try:
        for n, src in (("shapes16", SHAPES), ("other16", OTHER), ("typing16_helpers", TYPINGISH)):
            with open(os.path.join(tmp, n + ".py"), "w") as f:
                f.write(src)
        H.section("confinement on real libcst", "%d source shapes (imports at top / after docstring / after __future__ / in functions / in an existing TYPE_CHECKING block, import a.b, aliases, star imports) x %d stubs "
                  "(new user modules, typing names, names the source already imports, mypy_extensions.TypedDict): placement of every import, first statement, and the result executed in a fresh namespace" % (len(SOURCES), len(STUBS)),
                  "%d pairs" % (len(SOURCES) * len(STUBS)))
        for (sn, src), (tn, stub) in itertools.product(SOURCES.items(), STUBS.items()):
            key = "%s|%s" % (sn, tn)
            try:
                out = apply_stub_using_libcst(stub, src, False, True)
                tree = ast.parse(out)
            except Exception as e:
                H.violation("monkeytype.cli:apply_stub_using_libcst", "apply-fails:%s:%s" % (key, type(e).__name__), "confined application fails / result does not parse", {"source": sn, "stub": tn}, repr(e)[:400])
                continue
            problems = []
            body = [s for s in tree.body if not (isinstance(s, ast.Expr) and isinstance(s.value, ast.Constant))]
            if not (body and isinstance(body[0], ast.ImportFrom) and body[0].module == "__future__" and any(a.name == "annotations" for a in body[0].names)):
                problems.append("does not begin with `from __future__ import annotations`")
            before = import_facts(ast.parse(src))
            after = import_facts(tree)
            for stmt, tc, depth in before:
                if (stmt, tc, depth) not in after and not stmt.startswith("from __future__"):
                    problems.append("source import `%s` is gone / moved" % stmt)
            if sn in VERBATIM:
                for node in ast.parse(src).body:
                    if isinstance(node, (ast.Import, ast.ImportFrom)) and getattr(node, "module", None) not in ("typing", "__future__"):
                        seg = "\n".join(src.splitlines()[node.lineno - 1:node.end_lineno])
                        if seg not in out:
                            problems.append("source import statement rewritten (layout / comments lost): %r" % seg[:80])
            stub_imports = [s for s, _, _ in import_facts(ast.parse(stub))]
            src_imports = {s for s, _, _ in before}
            readded = []
            for stmt in stub_imports:
                if stmt in src_imports and not stmt.startswith(("from typing import", "from mypy_extensions")):
                    # the source makes this import, but only inside a function / under an existing guard: a module-level run-time copy must not appear
                    if not any(s_ == stmt and d_ == 0 and not tc_ for s_, tc_, d_ in before) and any(s_ == stmt and d_ == 0 and not tc_ for s_, tc_, d_ in after):
                        readded.append(stmt)
                if stmt in src_imports or stmt.startswith("from typing import") or stmt.startswith("from mypy_extensions"):
                    continue
                places = [(tc, d) for s, tc, d in after if s == stmt]
                if not places:
                    problems.append("newly needed import `%s` is missing" % stmt)
                elif not all(tc for tc, _ in places):
                    problems.append("new annotation-only import `%s` is not under TYPE_CHECKING" % stmt)
            # nothing else appears at module level at run time: an import neither the source made nor typing / mypy_extensions / __future__ provide
            new_runtime = [s_ for s_, tc_, d_ in after if d_ == 0 and not tc_ and s_ not in src_imports and not s_.startswith(("from typing import", "import typing", "from mypy_extensions", "from __future__"))]
            if new_runtime:
                problems.append("new run-time import at module level: %s" % new_runtime)
            # the module still imports and behaves
            ns = {"__name__": "c16_result"}
            try:
                exec(compile(out, "<c16 %s>" % key, "exec"), ns)
                if ns.get("RESULT") != 1:
                    problems.append("module behaves differently (RESULT=%r)" % ns.get("RESULT"))
            except Exception as e:
                problems.append("result does not import: %r" % (e,))
            if readded and not problems:
                H.violation("monkeytype.cli:get_newly_imported_items", "C16-local-or-guarded-import-readded-unconfined|%s" % sn,
                            "an import the source makes only inside a function / under an existing TYPE_CHECKING guard is added once more at module level, at run time, by libcst - and is not confined (not new for MonkeyType)",
                            {"source": sn, "stub": tn}, {"readded": readded, "result_head": out[:400]})
                continue
            if len(problems) == 1 and new_runtime and all(s_.startswith("import ") and any(si.startswith("from %s import" % s_[7:]) for si in stub_imports) for s_ in new_runtime):
                H.violation("monkeytype.cli:get_newly_imported_items", "C16-ambiguous-name-module-import-unconfined|%s" % sn,
                            "the name the stub imports is bound more than once in the source (to another module's class, in a function, in an except branch): libcst annotates with the qualified name and adds `import <module>`; "
                            "MonkeyType looks for the stub's `from <module> import <name>` instead and leaves the new `import <module>` at module level, at run time",
                            {"source": sn, "stub": tn}, {"new_runtime_imports": new_runtime, "result_head": out[:400]})
                continue
            if problems:
                if any("TypedDict" in p_ for p_ in problems) and tn == "typed-dict":
                    kind = "C16-typeddict-import-confined"
                elif any("is gone / moved" in p_ for p_ in problems):
                    kind = "C16-source-import-removed|%s" % sn
                else:
                    kind = "confine:%s:%s" % (key, problems[0][:80])
                H.violation("monkeytype.type_checking_imports_transformer:MoveImportsToTypeCheckingBlockVisitor", kind, "confinement: " + "; ".join(problems[:3]), {"source": sn, "stub": tn}, {"result": out[:900], "problems": problems})
            else:
                H.ok(key, sample={"source": sn, "stub": tn, "result_head": out[:200]})
        # ---- T-CST validation: the shapes the gatherer theory assumes, on the real GatherImportsVisitor / ImportItem
        import libcst
        from libcst.codemod import CodemodContext
        from libcst.codemod.visitors import GatherImportsVisitor, ImportItem
        for sn, src in list(SOURCES.items()) + [("stub:" + k_, v_) for k_, v_ in STUBS.items()]:
            views = []
            for _ in range(2):
                g = GatherImportsVisitor(CodemodContext())
                libcst.parse_module(src).visit(g)
                views.append((dict(g.symbol_mapping), set(g.module_imports), dict(g.module_aliases), {k_: set(v_) for k_, v_ in g.object_mapping.items()}, {k_: list(v_) for k_, v_ in g.alias_mapping.items()}))
            sym, mods, mal, objs, als = views[0]
            if views[0] != views[1]:
                H.theory_failure("gatherer-deterministic", "two gatherers visiting the same module hold different views", {"source": sn})
            if not (all(isinstance(k_, str) and isinstance(v_, ImportItem) for k_, v_ in sym.items()) and all(isinstance(m_, str) for m_ in mods)
                    and all(isinstance(k_, str) and isinstance(v_, str) for k_, v_ in mal.items()) and all(isinstance(k_, str) and all(isinstance(o_, str) for o_ in v_) for k_, v_ in objs.items())):
                H.theory_failure("gatherer-views", "a view of GatherImportsVisitor has another shape than the theory assumes", {"source": sn})
            if not all(isinstance(pr, tuple) and len(pr) == 2 for v_ in als.values() for pr in v_):
                H.theory_failure("alias-pairs", "alias_mapping holds something else than (name, alias) pairs", {"source": sn})
        a_, b_ = ImportItem("m", obj_name="o", alias="a"), ImportItem("m", obj_name="o", alias="a")
        if not (a_ == b_ and hash(a_) == hash(b_) and a_ != ImportItem("m", obj_name="o") and a_ != ImportItem("m", alias="a") and a_ != ImportItem("n", obj_name="o", alias="a")
                and (a_.module_name, a_.obj_name, a_.alias) == ("m", "o", "a") and ImportItem("m").obj_name is None and ImportItem("m").alias is None):
            H.theory_failure("mk-item-fields", "ImportItem is not a value determined by (module_name, obj_name, alias)", {})
    finally:
        sys.path.remove(tmp)
        for n in ("shapes16", "other16", "typing16_helpers"):
            sys.modules.pop(n, None)
        shutil.rmtree(tmp, ignore_errors=True)
    return H.result()


def replay(rp, ctx):
    return {"note": "re-run ./check C16", "replay": rp}
