"""C12 bounded companion: the module stub parses as Python and mirrors the real signatures (names, kinds, order, presence of
defaults, decorators by kind, async, placement by class, receiver never annotated, nothing untraced)."""
import ast
import importlib
import inspect
import itertools
import os
import random
import sys
import tempfile
import shutil

from monkeytype.stubs import build_module_stubs_from_traces
from monkeytype.tracing import CallTrace
from runtime import corpus
from runtime.harness import Harness

P = inspect.Parameter


def param_src(p):
    s = {P.VAR_POSITIONAL: "*", P.VAR_KEYWORD: "**"}.get(p.kind, "") + p.name
    if p.default is not P.empty:
        s += "=" + repr(p.default)
    return s


def sig_src(params):
    out, seen_po, star = [], False, False
    for i, p in enumerate(params):
        if p.kind != P.POSITIONAL_ONLY and seen_po and "/" not in out:
            out.append("/")
        if p.kind == P.POSITIONAL_ONLY:
            seen_po = True
        if p.kind == P.VAR_POSITIONAL:
            star = True
        if p.kind == P.KEYWORD_ONLY and not star:
            out.append("*")
            star = True
        out.append(param_src(p))
    if seen_po and "/" not in out:
        out.append("/")
    return ", ".join(out)


def gen_module(rnd, n_funcs, long_names=False):
    sigs = corpus.sigs(3, annos=(P.empty,), defaults=(P.empty, None, 0), long_names=long_names)
    def valid(ps):
        try:
            inspect.Signature(ps)
            return True
        except ValueError:
            return False
    sigs = [ps for ps in sigs if valid(ps)]
    rnd.shuffle(sigs)
    lines = ["import functools", ""]
    expected = {}

    def add(qual, body_prefix, params, kind, indent, is_async=False, is_gen=False):
        name = qual.split(".")[-1]
        deco = {"class": "@classmethod", "static": "@staticmethod", "property": "@property"}.get(kind)
        if deco:
            lines.append(indent + deco)
        recv = {"instance": "self", "class": "cls", "property": "self", "new": "cls"}.get(kind)
        ps = sig_src(params)
        if recv:
            ps = recv + (", " + ps if ps else "")
        lines.append("%s%sdef %s(%s):" % (indent, "async " if is_async else "", name, ps))
        lines.append(indent + ("    yield 1" if is_gen else ("    return object.__new__(cls)" if kind == "new" else "    return None")))
        lines.append("")
        expected[qual] = (kind, is_async)

    k = 0
    for i in range(n_funcs):
        add("f%d" % i, "", sigs[k % len(sigs)], "module", "", is_async=(i % 5 == 3), is_gen=(i % 5 == 4)); k += 1
    lines.append("class K:")
    for i, kind in enumerate(("instance", "class", "static", "property", "instance")):
        ps = [] if kind == "property" else sigs[k % len(sigs)]; k += 1
        add("K.m%d" % i, "", ps, kind, "    ", is_async=(kind == "instance" and i == 4))
    # a plain `def __new__(cls, ...)`: implicitly static, no decorator in the source, `cls` is the receiver
    add("K.__new__", "", sigs[k % len(sigs)], "new", "    "); k += 1
    lines.append("class Outer:")
    lines.append("    class Inner:")
    add("Outer.Inner.deep", "", sigs[k % len(sigs)], "instance", "        ")
    add("Outer.top", "", sigs[(k + 1) % len(sigs)], "instance", "    ")
    return "\n".join(lines) + "\n", expected


def stub_functions(tree):
    """{qualname: (FunctionDef node, decorators)} from the parsed stub."""
    out = {}

    def walk(body, prefix):
        for st in body:
            if isinstance(st, (ast.FunctionDef, ast.AsyncFunctionDef)):
                out.setdefault(prefix + st.name, []).append(st)
            elif isinstance(st, ast.ClassDef):
                walk(st.body, prefix + st.name + ".")
    walk(tree.body, "")
    return out


def stub_params(node):
    a = node.args
    out = []
    nd = len(a.defaults)
    pos = a.posonlyargs + a.args
    for i, p in enumerate(pos):
        kind = P.POSITIONAL_ONLY if i < len(a.posonlyargs) else P.POSITIONAL_OR_KEYWORD
        out.append((p.arg, kind, i >= len(pos) - nd, p.annotation is not None))
    if a.vararg:
        out.append((a.vararg.arg, P.VAR_POSITIONAL, False, a.vararg.annotation is not None))
    for p, d in zip(a.kwonlyargs, a.kw_defaults):
        out.append((p.arg, P.KEYWORD_ONLY, d is not None, p.annotation is not None))
    if a.kwarg:
        out.append((a.kwarg.arg, P.VAR_KEYWORD, False, a.kwarg.annotation is not None))
    return out


def mirror_problems(tree, mod, qs, expected):
    """Compare the parsed stub of one module with the traced functions of that module (placement, decorators, async, parameter lists, receiver)."""
    got = stub_functions(tree)
    problems = []
    if sorted(got) != sorted(qs):
        problems.append("functions in stub %s != traced %s" % (sorted(got), sorted(qs)))
    for q in qs:
        nodes = got.get(q, [])
        if len(nodes) != 1:
            problems.append("%s appears %d times" % (q, len(nodes)))
            continue
        node = nodes[0]
        kind, is_async = expected[q]
        decos = sorted(ast.unparse(d) for d in node.decorator_list)
        want_deco = {"class": ["classmethod"], "static": ["staticmethod"], "property": ["property"]}.get(kind, [])
        if decos != want_deco:
            problems.append("%s decorators %s != %s" % (q, decos, want_deco))
        if isinstance(node, ast.AsyncFunctionDef) != is_async:
            problems.append("%s async mismatch" % q)
        obj = mod
        for part in q.split("."):
            obj = inspect.getattr_static(obj, part)
        fn = obj.__func__ if isinstance(obj, (classmethod, staticmethod)) else (obj.fget if isinstance(obj, property) else obj)
        real = [(p.name, p.kind, p.default is not P.empty) for p in inspect.signature(fn).parameters.values()]
        sp = stub_params(node)
        if [(n, k, d) for n, k, d, _ in sp] != real:
            problems.append("%s parameters %s != real %s" % (q, [(n, int(k), d) for n, k, d, _ in sp], [(n, int(k), d) for n, k, d in real]))
        if kind in ("instance", "class", "property", "new") and sp and sp[0][3]:
            problems.append("%s receiver is annotated" % q)
    return problems


def run(ctx):
    H = Harness(ctx)
    rnd = random.Random(ctx["seed"])
    tmp = tempfile.mkdtemp(prefix="verif_c12_")
    sys.path.insert(0, tmp)
    n_mod = 4 if ctx["tier"] == "quick" else 30
    H.section("stub mirrors signatures", "generated modules (module functions over all parameter-kind combinations <= 3 params incl. defaults None / other, coroutine functions, generators, "
              "methods of every kind, classes one and two levels deep, long names forcing wrapping) x traced subsets: parse, placement, decorators, async, parameter lists, receiver",
              "%d modules x 3 traced subsets" % n_mod)
    generated = []
    try:
        for mi in range(n_mod):
            src, expected = gen_module(rnd, 12, long_names=(mi % 2 == 1))
            name = "c12mod%d_%d" % (ctx["seed"], mi)
            with open(os.path.join(tmp, name + ".py"), "w") as f:
                f.write(src)
            importlib.invalidate_caches()
            mod = importlib.import_module(name)
            generated.append((name, mod, expected))
            quals = sorted(expected)
            for subset_i in range(3):
                traced = [q for q in quals if rnd.random() < (0.5 + 0.25 * subset_i)] or quals[:1]
                nested = [q for q in traced if q.count(".") >= 2]
                flat = [q for q in traced if q.count(".") < 2]
                for label, qs in (("flat", flat), ("nested", nested)):
                    if not qs:
                        continue
                    traces = []
                    for q in qs:
                        obj = mod
                        for part in q.split("."):
                            obj = inspect.getattr_static(obj, part)
                        fn = obj.__func__ if isinstance(obj, (classmethod, staticmethod)) else (obj.fget if isinstance(obj, property) else obj)
                        sig = inspect.signature(fn)
                        at = {n: int for n in sig.parameters}
                        traces.append(CallTrace(fn, at, int))
                    key = "%s|%s|%s" % (name, label, ",".join(qs))
                    try:
                        text = build_module_stubs_from_traces(traces, 0)[name].render()
                        tree = ast.parse(text)
                    except SyntaxError as e:
                        if label == "nested":
                            H.violation("monkeytype.stubs:build_module_stubs", "C12-nested-class|SyntaxError", "methods of a nested class are rendered under `class Outer.Inner:`, which does not parse",
                                        {"traced": qs}, repr(e))
                        else:
                            H.violation("monkeytype.stubs:ModuleStub.render", "syntax:%s:%s" % (key, e), "module stub does not parse", {"traced": qs, "source": src[-600:]}, repr(e))
                        continue
                    except Exception as e:
                        H.violation("monkeytype.stubs:build_module_stubs_from_traces", "raises:%s:%s" % (key, type(e).__name__), "stub generation raises", {"traced": qs}, repr(e))
                        continue
                    problems = mirror_problems(tree, mod, qs, expected)
                    if problems:
                        H.violation("monkeytype.stubs:build_module_stubs", "mirror:%s:%s" % (key, problems[:2]), "stub does not mirror the module: " + "; ".join(problems[:3]),
                                    {"traced": qs}, {"stub": text[-800:]})
                    else:
                        H.ok(key, sample={"module": name, "traced": qs[:4], "stub_head": text[:160]})
        H.section("two modules in one run", "traces of two generated modules (which define classes and functions of the same names with different kinds / signatures) passed to one "
                  "build_module_stubs_from_traces call, in both orders and interleaved: each module's stub mirrors that module alone", "%d module pairs x 3 orders" % (len(generated) // 2))
        for pi in range(0, len(generated) - 1, 2):
            per = []
            for name, mod, expected in generated[pi:pi + 2]:
                qs = [q for q in sorted(expected) if q.count(".") < 2]
                trs = []
                for q in qs:
                    obj = mod
                    for part in q.split("."):
                        obj = inspect.getattr_static(obj, part)
                    fn = obj.__func__ if isinstance(obj, (classmethod, staticmethod)) else (obj.fget if isinstance(obj, property) else obj)
                    trs.append(CallTrace(fn, {n: int for n in inspect.signature(fn).parameters}, int))
                per.append((name, mod, expected, qs, trs))
            orders = {"ab": per[0][4] + per[1][4], "ba": per[1][4] + per[0][4], "interleaved": [t for pair in itertools.zip_longest(per[0][4], per[1][4]) for t in pair if t is not None]}
            for oname, traces in orders.items():
                key = "%s+%s|%s" % (per[0][0], per[1][0], oname)
                try:
                    stubs = build_module_stubs_from_traces(traces, 0)
                    problems = []
                    for name, mod, expected, qs, _ in per:
                        problems += ["[%s] %s" % (name, p_) for p_ in mirror_problems(ast.parse(stubs[name].render()), mod, qs, expected)]
                except Exception as e:      # noqa
                    problems = ["raises %r" % (e,)]
                if problems:
                    H.violation("monkeytype.stubs:build_module_stubs", "two-modules:%s:%s" % (key, problems[:2]), "with two modules in one run a module stub does not mirror its module: " + "; ".join(problems[:3]),
                                {"modules": [per[0][0], per[1][0]], "order": oname}, problems[:6])
                else:
                    H.ok(key, sample={"modules": [per[0][0], per[1][0]], "order": oname})
        # source-annotated functions under every annotation strategy (alone in their module stub, so nothing else contributes imports)
        from monkeytype.stubs import ExistingAnnotationStrategy
        H.section("annotated sources x strategies", "functions with source annotations (class, Optional, generic; defaults None / other) traced alone, stub generated with REPLICATE / OMIT / IGNORE: parses, one def, same parameter list",
                  "6 functions x 3 strategies")
        asrc = ("from typing import Optional, List\n"
                "def a0(x: int = None):\n    return x\n"
                "def a1(x: int = None, y: str = 'q'):\n    return x\n"
                "def a2(x: Optional[int] = None, *, k: List[int] = None) -> int:\n    return 1\n"
                "def a3(x: int, y=None):\n    return x\n"
                "def a4(x: 'int' = None):\n    return x\n"
                "class C:\n    def m(self, x: int = None) -> None:\n        return None\n")
        name = "c12ann%d" % ctx["seed"]
        with open(os.path.join(tmp, name + ".py"), "w") as f:
            f.write(asrc)
        importlib.invalidate_caches()
        mod = importlib.import_module(name)
        for fn in (mod.a0, mod.a1, mod.a2, mod.a3, mod.a4, mod.C.m):
            for strat in ExistingAnnotationStrategy:
                for at in ({}, {n: int for n in inspect.signature(fn).parameters}):
                    key = "%s|%s|%s" % (fn.__qualname__, strat.name, bool(at))
                    try:
                        text = build_module_stubs_from_traces([CallTrace(fn, at, int if at else None)], 0, existing_annotation_strategy=strat)[name].render()
                        tree = ast.parse(text)
                        got = stub_functions(tree)
                        real = [(p.name, p.kind, p.default is not P.empty) for p in inspect.signature(fn).parameters.values()]
                        sp = [(n, k, d) for n, k, d, _ in stub_params(got[fn.__qualname__][0])]
                        if sp != real:
                            raise AssertionError("parameters %s != %s" % (sp, real))
                        H.ok(key, sample={"function": fn.__qualname__, "strategy": strat.name, "stub": text[:200]})
                    except Exception as e:
                        H.violation("monkeytype.stubs:ModuleStub.render", "annotated:%s:%s" % (key, type(e).__name__), "stub of an annotated function does not parse / mirror it under %s" % strat.name,
                                    {"function": fn.__qualname__, "strategy": strat.name, "traced": bool(at)}, repr(e))
        # dict arguments whose keys / whose parameter names cannot be written as class fields / class names (TypedDict generation on)
        from monkeytype.typing import get_type
        H.section("generated TypedDict classes are valid Python", "dict arguments with keys that are not identifiers / are keywords, parameters whose PascalCase form starts with a digit; max_typed_dict_size 3: the stub parses, one def per function",
                  "4 values x 2 parameter names")
        dsrc = "def send(headers, _1=None):\n    return 1\n\ndef _2fa(x):\n    return {'a': 1}\n"
        name = "c12dict%d" % ctx["seed"]
        with open(os.path.join(tmp, name + ".py"), "w") as f:
            f.write(dsrc)
        importlib.invalidate_caches()
        mod = importlib.import_module(name)
        for vi, value in enumerate(({"content-type": "x", "n": 1}, {"from": 1, "to": 2}, {"ok": 1, "also_ok": "s"}, {"1st": 1})):
            for pname in ("headers", "_1"):
                key = "td-names|%d|%s" % (vi, pname)
                try:
                    trs = [CallTrace(mod.send, {pname: get_type(value, 3)}, int), CallTrace(getattr(mod, "_2fa"), {"x": int}, get_type({"a": 1}, 3))]
                    text = build_module_stubs_from_traces(trs, 3)[name].render()
                    got = stub_functions(ast.parse(text))
                    if sorted(got) != ["_2fa", "send"]:
                        raise AssertionError("functions %s" % sorted(got))
                    H.ok(key, sample={"value": repr(value), "parameter": pname, "stub_head": text[:160]})
                except Exception as e:      # noqa
                    H.violation("monkeytype.stubs:ModuleStub.render", "td-names:%s:%s" % (key, type(e).__name__), "the stub with generated TypedDict classes does not parse / is not produced",
                                {"value": repr(value), "parameter": pname}, repr(e)[:300])
    finally:
        sys.path.remove(tmp)
        shutil.rmtree(tmp, ignore_errors=True)
    return H.result()


def replay(rp, ctx):
    return {"note": "re-run ./check C12 with the same VERIF_SEED", "replay": rp}
