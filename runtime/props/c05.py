"""C05 bounded companion: inferred types are tight - every union alternative / class / Any / TypedDict key is witnessed by
an observed value at that position (lock-step walk of the type against the multiset of values it was inferred from)."""
import collections
import random
import types as pytypes

from monkeytype.typing import field_annotations
from runtime import corpus, infer, spec_c
from runtime.harness import Harness

CALLABLES = (pytypes.FunctionType, pytypes.LambdaType, pytypes.MethodType, pytypes.BuiltinMethodType, pytypes.BuiltinFunctionType,
             pytypes.MethodDescriptorType, pytypes.WrapperDescriptorType, pytypes.MethodWrapperType, pytypes.ClassMethodDescriptorType)


# keys of a dict that went through the TypedDict representation (k > 0) are plain field names: their str subclass is not kept
LENIENT_STR_KEYS = False


def tight(vals, t, path="$", had_empty=False):
    """Problems (list of strings) with type t as a description of exactly the observed values vals at one position."""
    k = spec_c.kind(t)
    if k == "Union":
        out = []
        for m in t.__args__:
            if m is spec_c.ENV["ANY"]:
                # `Any` as an alternative is the element type of an observed *empty* container one level up
                if not had_empty:
                    out.append("%s: alternative Any although no empty container was observed here" % path)
                continue
            members = [v for v in vals if spec_c.mem(v, m)]
            exclusive = [v for v in members if not any(o is not m and o is not spec_c.ENV["ANY"] and spec_c.mem(v, o) for o in t.__args__)]
            if not members:
                out.append("%s: alternative %r is not witnessed by any observed value" % (path, m))
            elif tight(members, m, path, had_empty) and (not exclusive or tight(exclusive, m, path, had_empty)) \
                    and not [v for v in members if tight([v], m, path, had_empty) == []]:
                out.append("%s: alternative %r is wider than the values it stands for: %s" % (path, m, (tight(exclusive or members, m, path, had_empty) or [""])[0][:160]))
        if any(not any(o is not spec_c.ENV["ANY"] and spec_c.mem(v, o) for o in t.__args__) for v in vals):
            out.append("%s: some observed value fits no alternative" % path)
        return out
    if not vals:
        return [] if k == "Any" else ["%s: %r without any observed value" % (path, t)]
    if k == "Any":
        return ["%s: Any although values were observed: %s" % (path, infer.short(vals))]
    if k == "Class":
        bad = [v for v in vals if type(v) is not t and not (t is str and LENIENT_STR_KEYS and path.endswith(".keys") and isinstance(v, str))]
        return ["%s: class %s is not the exact runtime class of %s" % (path, t.__name__, infer.short(bad))] if bad else []
    if k == "Type":
        return [] if all(isinstance(v, type) and any(v is a for a in [t.__args__[0]]) for v in vals) else ["%s: Type[...] not exact" % path]
    if k == "Callable":
        return [] if all(isinstance(v, CALLABLES) for v in vals) else ["%s: Callable for non-callables" % path]
    if k == "Iterator":
        return [] if all(isinstance(v, pytypes.GeneratorType) for v in vals) and t.__args__[0] is spec_c.ENV["ANY"] else ["%s: Iterator" % path]
    if k in ("List", "Set"):
        cls = list if k == "List" else set
        if not all(type(v) is cls for v in vals):
            return ["%s: %s for non-%s values" % (path, k, cls.__name__)]
        return tight([e for v in vals for e in v], t.__args__[0], path + "[*]", any(len(v) == 0 for v in vals))
    if k == "Tuple":
        if not all(type(v) is tuple and len(v) == len(t.__args__) for v in vals):
            return ["%s: Tuple shape" % path]
        out = []
        for i, a in enumerate(t.__args__):
            out += tight([v[i] for v in vals], a, path + "[%d]" % i)
        return out
    if k in ("Dict", "DefaultDict"):
        cls = dict if k == "Dict" else collections.defaultdict
        if not all(type(v) is cls for v in vals):
            return ["%s: %s for other values" % (path, k)]
        he = any(len(v) == 0 for v in vals)
        return tight([kk for v in vals for kk in v], t.__args__[0], path + ".keys", he) + tight([vv for v in vals for vv in v.values()], t.__args__[1], path + ".values", he)
    if k == "TD":
        req, opt = field_annotations(t)
        if not all(type(v) is dict for v in vals):
            return ["%s: TypedDict for non-dicts" % path]
        out = []
        for kk in req:
            if not all(kk in v for v in vals):
                out.append("%s: key %r required but some observed dict lacks it" % (path, kk))
        for kk in opt:
            if all(kk in v for v in vals):
                out.append("%s: key %r optional but every observed dict has it" % (path, kk))
        for kk, ft in list(req.items()) + list(opt.items()):
            out += tight([v[kk] for v in vals if kk in v], ft, path + "[%r]" % kk)
        return out
    return ["%s: unexpected kind %s" % (path, k)]


def run(ctx):
    H = Harness(ctx)
    rnd = random.Random(ctx["seed"])
    tier = ctx["tier"]
    ks = corpus.K_LIMITS if tier == "thorough" else [0, 2, 10]
    H.section("tightness walk", "multisets of grammar values x k: the inferred (merged) type is walked in lock step with the values; every alternative, class, Any, required / optional key must be witnessed", "size<=4, k in %s" % ks)
    for vals in infer.value_multisets(tier, rnd):
        for k in ks:
            t = infer.infer(vals, k)
            global LENIENT_STR_KEYS
            LENIENT_STR_KEYS = k != 0
            problems = tight(list(vals), t)
            key = "%s|%s" % (infer.short(vals), k)
            if problems:
                H.violation("monkeytype.typing:shrink_types", "not-tight:%s:%s" % (key, problems[0][:120]), "inferred type is not tight: " + problems[0], {"values": infer.short(vals, 400), "k": k}, {"type": repr(t), "problems": problems[:4]})
            else:
                H.ok(key, nontrivial=spec_c.kind(t) not in ("Class",), sample={"values": infer.short(vals), "k": k, "type": infer.short(t)})
    return H.result()


def replay(rp, ctx):
    return {"note": "re-run ./check C05", "replay": rp}
