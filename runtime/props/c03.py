"""C03 bounded companion: the traced program behaves as the untraced one and no user-defined code runs on its objects
(journaling tripwires); failures inside type collection / lookup / logger are contained; profiler restored, one flush."""
import sys

from monkeytype.tracing import CallTraceLogger, trace_calls
from runtime.harness import Harness

JOURNAL = []


class Spy:
    """Journals every hook the interpreter may dispatch to on an instance."""

    def __init__(self, tag):
        object.__setattr__(self, "tag", tag)

    def __getattribute__(self, name):
        if name not in ("tag",):
            JOURNAL.append(("getattribute", object.__getattribute__(self, "tag"), name))
        return object.__getattribute__(self, name)

    def __getattr__(self, name):
        JOURNAL.append(("getattr", name))
        raise AttributeError(name)

    def __hash__(self):
        JOURNAL.append(("hash",))
        return 1

    def __eq__(self, other):
        JOURNAL.append(("eq",))
        return self is other

    def __bool__(self):
        JOURNAL.append(("bool",))
        return True

    def __repr__(self):
        JOURNAL.append(("repr",))
        return "Spy"

    def __len__(self):
        JOURNAL.append(("len",))
        return 0

    def __iter__(self):
        JOURNAL.append(("iter",))
        return iter(())


class FakeClass:
    @property
    def __class__(self):
        JOURNAL.append(("__class__",))
        return int


class LazyProp:
    @property
    def expensive(self):
        JOURNAL.append(("property",))
        return 1


class SpyList(list):
    def __iter__(self):
        JOURNAL.append(("list.__iter__",))
        return super().__iter__()

    def __len__(self):
        JOURNAL.append(("list.__len__",))
        return super().__len__()


class SpyDict(dict):
    def keys(self):
        JOURNAL.append(("dict.keys",))
        return super().keys()

    def items(self):
        JOURNAL.append(("dict.items",))
        return super().items()

    def values(self):
        JOURNAL.append(("dict.values",))
        return super().values()

    def __iter__(self):
        JOURNAL.append(("dict.__iter__",))
        return super().__iter__()

    def __len__(self):
        JOURNAL.append(("dict.__len__",))
        return super().__len__()

    def __contains__(self, k):
        JOURNAL.append(("dict.__contains__",))
        return super().__contains__(k)


class SpySet(set):
    def __iter__(self):
        JOURNAL.append(("set.__iter__",))
        return super().__iter__()


class SpyTuple(tuple):
    def __iter__(self):
        JOURNAL.append(("tuple.__iter__",))
        return super().__iter__()


class Meta(type):
    def __instancecheck__(cls, inst):
        JOURNAL.append(("__instancecheck__",))
        return super().__instancecheck__(inst)

    def __subclasscheck__(cls, sub):
        JOURNAL.append(("__subclasscheck__",))
        return super().__subclasscheck__(sub)


class WithMeta(metaclass=Meta):
    pass


def _caller():
    """Who compared / hashed the class: a MonkeyType function by name; callers in the standard library (typing's subscription cache, inspect.getattr_static)
    are lumped together, since whether typing re-checks an argument depends on the state of its caches."""
    f = sys._getframe(2)
    mod = f.f_globals.get("__name__", "?")
    return "%s:%s" % (mod, f.f_code.co_name) if mod.startswith("monkeytype") else "<stdlib>"


class EqMeta(type):
    """Structural class equality (ORM style): comparing or hashing the *class* of a traced value is user code; the journal names the caller."""
    def __eq__(cls, other):
        JOURNAL.append(("meta.__eq__@" + _caller(),))
        return cls is other

    def __hash__(cls):
        JOURNAL.append(("meta.__hash__@" + _caller(),))
        return id(cls) >> 4


class WithEqMeta(metaclass=EqMeta):
    pass


def take(x):
    return x


def take_two(a, b=None):
    return [a, b]


def gen(x):
    yield x


def raiser(x):
    raise KeyError("k")


class Holder:
    def method(self, x):
        return x


class CallableSpy(Spy):
    def __call__(self):
        return None


def closure_maker(x):
    def inner_fn(y):
        return y
    return inner_fn


class SpyStr(str):
    """A str subclass whose hashing / equality are user code (dict keys of this class pass the all-string-keys test of TypedDict inference)."""
    def __hash__(self):
        JOURNAL.append(("str.__hash__",))
        return str.__hash__(self)

    def __eq__(self, other):
        JOURNAL.append(("str.__eq__",))
        return str.__eq__(self, other)


def _spy_str_dict():
    d = {SpyStr("a"): 1, SpyStr("b"): "x"}
    del JOURNAL[:]          # building the workload itself hashes the keys: not the tracer's doing
    return d


WORKLOADS = {
    "spy-str-keys": _spy_str_dict, "spy-str-keys-nested": lambda: [_spy_str_dict()],
    "spy-dict-keys": lambda: {Spy("key"): 1, FakeClass(): 2},
    "spy": lambda: Spy("s"), "fake-class": FakeClass, "lazy-prop": LazyProp, "spy-list": lambda: SpyList([1, 2]), "spy-dict": lambda: SpyDict(a=1),
    "spy-set": lambda: SpySet({1}), "spy-tuple": lambda: SpyTuple((1, 2)), "with-meta": WithMeta, "eq-meta": WithEqMeta, "eq-meta-nested": lambda: [WithEqMeta(), {1: WithEqMeta()}, {WithEqMeta()}], "meta-class-object": lambda: WithMeta,
    "nested": lambda: [Spy("n"), {"k": SpyList([Spy("m")])}, (SpyDict(), LazyProp())],
}


def program(make):
    """Runs the workload; returns what the program itself observes (results, exceptions)."""
    out = []
    v = make()
    out.append(type(take(v)).__name__)
    out.append(type(take_two(v, b=v)).__name__)
    out.append(type(list(gen(v))[0]).__name__)
    out.append(type(Holder().method(v)).__name__)
    try:
        raiser(v)
    except KeyError as e:
        out.append("KeyError")
    return out


class Collector(CallTraceLogger):
    def __init__(self, fail_log=False, fail_flush=False):
        self.n, self.flushed, self.fail_log, self.fail_flush = 0, 0, fail_log, fail_flush

    def log(self, trace):
        self.n += 1
        if self.fail_log:
            raise RuntimeError("logger failure")

    def flush(self):
        self.flushed += 1
        if self.fail_flush:
            raise RuntimeError("flush failure")


def only_here(code):
    return code.co_filename == __file__ and code.co_name in ("take", "take_two", "gen", "raiser", "method")


def run(ctx):
    H = Harness(ctx)
    H.section("tripwire workloads traced vs untraced", "arguments / returns / yields that journal every hook (attribute hooks, __class__ override, lazy property, container-protocol overrides of list/dict/set/tuple subclasses, "
              "hash / eq / bool / repr / len / iter, metaclass __instancecheck__), each alone and nested: same program results and an identical journal with and without tracing", "%d workloads x k in {0, 3}" % len(WORKLOADS))
    for name, make in WORKLOADS.items():
        for k in (0, 3):
            del JOURNAL[:]
            base = program(make)
            j0 = list(JOURNAL)
            del JOURNAL[:]
            col = Collector()
            old = sys.getprofile()
            with trace_calls(col, k, only_here, None):
                traced = program(make)
            j1 = list(JOURNAL)
            restored = sys.getprofile() is old
            extra = [e for e in j1 if e not in j0] if len(j1) != len(j0) else ([] if j1 == j0 else j1)
            key = "%s|k=%d" % (name, k)
            if traced == base and j1 == j0 and restored and col.flushed == 1 and col.n == 5:
                H.ok(key, sample={"workload": name, "k": k, "journal_len": len(j0), "traces": col.n})
            elif traced == base and restored and col.flushed == 1 and j1 != j0:
                hooks = sorted({e[0] if e[0] != "getattribute" else "getattribute:" + e[2] for e in j1[len(j0):]} | {e[0] if e[0] != "getattribute" else "getattribute:" + e[2] for e in extra})
                H.violation("monkeytype.typing:get_type", "C03-user-code|%s|%s" % (name, [h for h in hooks if not h.endswith("@<stdlib>")]), "tracing runs user-defined code on a program object (%s)" % ", ".join(hooks),
                            {"workload": name, "k": k}, {"hooks": hooks, "untraced_journal": len(j0), "traced_journal": len(j1)})
            else:
                H.violation("monkeytype.tracing:trace_calls", "differential:%s:%s" % (key, (traced == base, restored, col.flushed, col.n)), "traced program differs from the untraced one",
                            {"workload": name, "k": k}, {"traced": traced, "untraced": base, "restored": restored, "flushed": col.flushed, "logged": col.n})
    # a profiler installed before tracing starts must be back in place afterwards, whatever fails
    def prior_profiler(frame, event, arg):
        return None
    sys.setprofile(prior_profiler)
    # a function that can only be resolved through the locals of the calling frames, while a callable tripwire sits in those locals
    H.section("function lookup through caller locals", "a nested function resolved via previous frames' locals while the caller holds a callable object with attribute hooks", "1 workload")
    del JOURNAL[:]
    spy = CallableSpy("callable")
    fn = closure_maker(1)
    fn(2)
    j0 = list(JOURNAL)
    del JOURNAL[:]
    col = Collector()
    with trace_calls(col, 0, lambda code: code.co_filename == __file__ and code.co_name == "inner_fn", None):
        fn(2)
    j1 = list(JOURNAL)
    if j1 == j0:
        H.ok("callable-in-caller-locals", sample={"journal": len(j1), "traces": col.n})
    else:
        hooks = sorted({e[0] + (":" + e[2] if e[0] == "getattribute" else "") for e in j1})
        H.violation("monkeytype.tracing:_has_code", "C03-has-code-getattr|%s" % hooks, "function lookup reads __code__ / __wrapped__ of a callable found in a caller's locals (runs its attribute hooks)",
                    {"workload": "callable tripwire in the locals of the calling frame"}, hooks)
    del spy
    H.section("faults", "logger.log raising on every call; get_type raising (object whose type lookup fails); flush raising: the program's results are unchanged, the profiler is restored, flush is called once", "3 fault kinds")
    old = sys.getprofile()
    col = Collector(fail_log=True)
    with trace_calls(col, 0, only_here, None):
        r = program(lambda: 1)
    if r == program(lambda: 1) and sys.getprofile() is old and col.flushed == 1:
        H.ok("log-raises", sample={"fault": "logger.log raises", "logged_attempts": col.n})
    else:
        H.violation("monkeytype.tracing:CallTracer.__call__", "fault:log-raises", "a failing logger reaches the program", {}, r)
    col = Collector(fail_flush=True)
    escaped = None
    try:
        with trace_calls(col, 0, only_here, None):
            r = program(lambda: 1)
    except RuntimeError as e:
        escaped = repr(e)
    if escaped is None and sys.getprofile() is old and col.flushed == 1:
        H.ok("flush-raises", sample={"fault": "logger.flush raises"})
    elif sys.getprofile() is old and col.flushed == 1:
        H.violation("monkeytype.tracing:trace_calls", "C03-flush-raises|propagates|restored", "an exception raised by logger.flush() propagates out of the tracing context (profiler restored, flush called once)",
                    {"fault": "logger.flush raises RuntimeError"}, escaped)
    else:
        H.violation("monkeytype.tracing:trace_calls", "fault:flush:%s:%s" % (sys.getprofile() is old, col.flushed), "flush failure: profiler not restored / flush count wrong", {}, escaped)
    sys.setprofile(None)
    return H.result()


def replay(rp, ctx):
    return {"note": "re-run ./check C03", "replay": rp}
