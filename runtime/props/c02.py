"""C02 bounded companion: program templates under the real tracer against expected traces (completion order,
attribution, argument / return / yield types, no residue)."""
import inspect
from typing import Dict, Type

from monkeytype.tracing import CallTraceLogger, CallTracer, trace_calls
from runtime.fixpkg import progs
from runtime import spec_c
from runtime.harness import Harness


class Collector(CallTraceLogger):
    def __init__(self):
        self.traces = []
        self.flushed = 0

    def log(self, trace):
        self.traces.append(trace)

    def flush(self):
        self.flushed += 1


def resolve(spec):
    if isinstance(spec, str) and spec != progs.ABSENT:
        ns = {"Dict": Dict, "Type": Type, "int": int, "str": str, "Shape": progs.Shape, "Square": progs.Square, "Point": progs.Point, "Label": progs.Label, "Pixel": progs.Pixel}
        return eval(spec.replace("Dict[str,int]", "Dict[str, int]"), ns)
    return spec


def only_progs(code):
    if code.co_filename == "<string>" and code.co_name == "__init__":
        return True      # dataclass-generated methods of the fixture classes
    return code.co_filename == progs.__file__ and not code.co_name.startswith("scn_") and code.co_name not in ("<lambda>", "<genexpr>", "<listcomp>")


def expected_function(qualname):
    """The function object whose code runs for this qualified name (None when it is not reachable by name)."""
    if "<locals>" in qualname:
        return None
    obj = progs
    for part in qualname.split("."):
        obj = inspect.getattr_static(obj, part)
    if isinstance(obj, (classmethod, staticmethod)):
        obj = obj.__func__
    if isinstance(obj, property):
        obj = obj.fget
    return inspect.unwrap(obj)


class FailingCollector(Collector):
    def log(self, trace):
        self.traces.append(trace)
        raise RuntimeError("logger failure")


def run_scenario(name, sample_rate=None, col=None):
    col = col or Collector()
    tracer_box = {}
    import sys
    fn = getattr(progs, name)
    with trace_calls(col, 0, only_progs, sample_rate):
        tracer_box["t"] = sys.getprofile()
        fn()
    return col, tracer_box["t"]


def describe(tr):
    return (tr.func.__qualname__, {k: repr(v) for k, v in tr.arg_types.items()}, repr(tr.return_type), repr(tr.yield_type))


def matches(tr, exp):
    q, args, ret, yld = exp
    want_f = expected_function(q)
    if want_f is not None:
        if tr.func is not want_f:       # attributed to the function whose code ran
            return False
    elif tr.func.__qualname__ != q or tr.func.__code__.co_filename != progs.__file__:
        return False
    if set(tr.arg_types) != set(args):
        return False
    for n, t in args.items():
        if not spec_c.tyeq(tr.arg_types[n], resolve(t)):
            return False
    for got, want in ((tr.return_type, ret), (tr.yield_type, yld)):
        if want == progs.ABSENT:
            if got is not None:
                return False
        elif got is None or not spec_c.tyeq(got, resolve(want)):
            return False
    return True


KNOWN = {"scn_trace_types_name": "C02-trace_types", "scn_gen_closed": "C02-unwind-at-yield", "scn_negative_cache": "C02-negative-cache"}


def run(ctx):
    H = Harness(ctx)
    H.section("program templates", "scenarios over function kinds x parameter kinds x exit kinds x generators (interleaved, returning) x coroutines that suspend: "
              "logged traces == expected traces in completion order, tracer.traces empty afterwards", "%d scenarios" % len(progs.EXPECT))
    for name, expected in progs.EXPECT.items():
        col, tracer = run_scenario(name)
        got = col.traces
        ok = len(got) == len(expected) and all(matches(t, e) for t, e in zip(got, expected))
        residue = len(tracer.traces)
        observed = {"logged": [describe(t) for t in got], "residue": residue, "flushed": col.flushed}
        if ok and residue == 0 and col.flushed == 1:
            H.ok(name, sample={"scenario": name, "logged": [describe(t) for t in got][:3]})
        else:
            key = KNOWN.get(name)
            if key:
                # recorded known finding: key includes the observed wrong output so that a different wrong answer is new
                H.violation("monkeytype.tracing:CallTracer.__call__", "%s|%s|logged=%d|residue=%d" % (key, name, len(got), residue),
                            "scenario %s: traces differ from the faithful ones" % name, {"scenario": name}, observed, [str(e) for e in expected])
            else:
                H.violation("monkeytype.tracing:CallTracer.__call__", "scenario:%s:%s" % (name, observed), "scenario %s: traces differ from the faithful ones" % name,
                            {"scenario": name}, observed, [str(e) for e in expected])
    # ---- a logger that fails on every trace: each finished call is still handed over exactly once and its per-call state is dropped
    H.section("failing logger", "the same scenarios with a logger whose log() raises after recording: one hand-over per finished call, tracer.traces empty afterwards", "%d scenarios" % (len(progs.EXPECT) - len(KNOWN)))
    for name, expected in progs.EXPECT.items():
        if name in KNOWN:
            continue
        col, tracer = run_scenario(name, col=FailingCollector())
        residue = len(tracer.traces)
        if len(col.traces) == len(expected) and residue == 0:
            H.ok("failing-logger:" + name, sample={"scenario": name, "handed_over": len(col.traces)})
        else:
            H.violation("monkeytype.tracing:CallTracer.handle_return", "failing-logger:%s:handed=%d:residue=%d" % (name, len(col.traces), residue),
                        "scenario %s with a failing logger: finished calls keep per-call state in the tracer / are handed over a wrong number of times" % name,
                        {"scenario": name, "logger": "log raises"}, {"handed_over": len(col.traces), "residue": residue}, {"handed_over": len(expected), "residue": 0})
    # ---- two functions published by the same functools.wraps decorator: their wrappers share one code object
    H.section("wrappers sharing a code object", "a module whose functions foo and bar are decorated by one functools.wraps decorator; only bar is called: nothing may be attributed to foo", "1 module")
    import types as _types
    src = ("import functools\n\ndef deco(f):\n    @functools.wraps(f)\n    def wrapper(*args, **kwargs):\n        return f(*args, **kwargs)\n    return wrapper\n\n"
           "@deco\ndef foo(a):\n    return 1\n\n@deco\ndef bar(b):\n    return 's'\n")
    m_ = _types.ModuleType("c02_shared_wrappers")
    exec(compile(src, "<c02-shared-wrappers>", "exec"), m_.__dict__)
    col = Collector()
    with trace_calls(col, 0, lambda code: code.co_filename == "<c02-shared-wrappers>"):
        # called from the module's own top-level code (as under `monkeytype run script.py`): the module namespace is among the callers' locals
        exec(compile("bar(2)\n", "<c02-shared-wrappers-main>", "exec"), m_.__dict__)
    to_foo = [describe(t) for t in col.traces if getattr(t.func, "__qualname__", "") == "foo"]
    if not to_foo:
        H.ok("shared-wrapper-code", sample={"logged": [describe(t) for t in col.traces]})
    else:
        H.violation("monkeytype.tracing:get_func", "C02-shared-wrapper-code|foo", "the call of bar's wrapper is attributed to foo's wrapper (the two closures share one code object; the lookup takes the first callable with that code)",
                    {"called": "bar(2)"}, {"attributed_to_foo": to_foo, "logged": [describe(t) for t in col.traces]}, "no trace for foo")
    # ---- short-lived code: unresolvable code objects that are freed, then new resolvable functions (address reuse must not confuse the tracer's cache)
    rounds = 150
    H.section("short-lived code", "rounds of: an anonymous lambda compiled, called in place and discarded (unresolvable: not logged), then a freshly exec'd module-level function called once: "
              "that call is logged exactly once, attributed to that round's function", "%d rounds" % rounds)
    col = Collector()
    bad = []
    snippet = lambda code: code.co_filename.startswith(("<c02-throwaway-", "<c02-plugin-"))
    with trace_calls(col, 0, snippet):
        for i in range(rounds):
            ns = {}
            exec(compile("result = (lambda v: v + %d)(%d)\n" % (i, i), "<c02-throwaway-%d>" % i, "exec"), ns)
            del ns
            ns2 = {}
            exec(compile("def handler(v):\n    return v * %d\n" % i, "<c02-plugin-%d>" % i, "exec"), ns2)
            handler = ns2["handler"]
            before = len(col.traces)
            handler(i)
            new = col.traces[before:]
            if not (len(new) == 1 and new[0].func is handler and new[0].arg_types == {"v": int} and new[0].return_type is int):
                bad.append((i, [describe(t) for t in new]))
            del handler, ns2
    if bad:
        H.violation("monkeytype.tracing:CallTracer._get_func", "short-lived-code:%d-of-%d" % (len(bad), rounds), "calls of freshly created resolvable functions are not logged exactly once after unresolvable code was freed",
                    {"rounds": rounds}, bad[:4])
    else:
        H.ok("short-lived-code", sample={"rounds": rounds, "logged": len(col.traces)})
    return H.result()


def replay(rp, ctx):
    name = rp.get("input", {}).get("scenario")
    if name:
        col, tracer = run_scenario(name)
        return {"scenario": name, "logged": [describe(t) for t in col.traces], "residue": len(tracer.traces), "expected": [str(e) for e in progs.EXPECT[name]]}
    return {"note": "no scenario in replay file"}
