"""C13 bounded companion: the decision-table contracts evaluated on the real functions."""
import inspect
import itertools
import random

from runtime import rc, corpus
from runtime.harness import Harness
from monkeytype import stubs
from monkeytype.stubs import ExistingAnnotationStrategy as S
from monkeytype.typing import NoneType
from typing import List, Optional


def run(ctx):
    H = Harness(ctx)
    C = rc.load_contracts()
    rnd = random.Random(ctx["seed"])
    thorough = ctx["tier"] == "thorough"
    # update_signature_args
    c = C["monkeytype.stubs:update_signature_args"]
    H.section("update_signature_args", "all valid signatures (<= n params over 5 kinds x defaults x annotated?) x traced subsets x strategies x has_self",
              "n=%d" % (3 if thorough else 2))
    from runtime import fixtures as FX
    tys = [int, List[str], None]
    # a traced type that evaluates false (class with a metaclass __len__): still a traced type
    c_ = C["monkeytype.stubs:update_signature_args"]
    H.section("update_signature_args with a falsy class as traced type", "one- and two-parameter signatures (annotated / unannotated) x strategies, the traced type of the first parameter is a class whose metaclass makes it evaluate false", "8 signatures x 3 strategies")
    P_ = inspect.Parameter
    for ann in (P_.empty, int):
        for extra in ((), (P_("b", P_.POSITIONAL_OR_KEYWORD),)):
            for kind_ in (P_.POSITIONAL_OR_KEYWORD, P_.KEYWORD_ONLY):
                try:
                    sig = inspect.Signature([P_("a", kind_, annotation=ann)] + list(extra)) if kind_ != P_.KEYWORD_ONLY else inspect.Signature(list(extra) + [P_("a", kind_, annotation=ann)])
                except ValueError:
                    continue
                for s in S:
                    kw = dict(sig=sig, arg_types={"a": FX.Falsy}, has_self=False, existing_annotation_strategy=s)
                    st, d = rc.check_call(c_, stubs.update_signature_args, kw)
                    key = "falsy|%s|%s" % (sig, s.name)
                    if st == "fail":
                        H.violation(c_.target, "update_signature_args:%s:%s" % (d["failed"], key), "update_signature_args violates %s (traced type is a falsy class)" % d["failed"], {"sig": str(sig), "strategy": s.name}, d)
                    elif st == "ok":
                        H.ok(key, sample={"sig": str(sig), "strategy": s.name, "result": d.get("result")})
                    elif st == "error":
                        raise RuntimeError(d)
    for sig in corpus.valid_signatures(3 if thorough else 2, ret=(inspect.Signature.empty,)):
        names = list(sig.parameters)
        subsets = list(itertools.chain.from_iterable(itertools.combinations(names, r) for r in range(len(names) + 1)))
        for sub in subsets:
            at = {n: tys[i % 2] for i, n in enumerate(sub)}
            at["not_a_param"] = int
            if sub and len(sub) == len(names):
                at[sub[0]] = None
            for s in S:
                for hs in (False, True):
                    kw = dict(sig=sig, arg_types=at, has_self=hs, existing_annotation_strategy=s)
                    st, d = rc.check_call(c, stubs.update_signature_args, kw)
                    key = "%s|%s|%s|%s" % (sig, sorted(map(str, at.items())), s.name, hs)
                    if st == "fail":
                        H.violation(c.target, "update_signature_args:%s:%s" % (d["failed"], key), "update_signature_args violates %s" % d["failed"],
                                    {"sig": str(sig), "arg_types": str(at), "strategy": s.name, "has_self": hs}, d)
                    elif st == "ok":
                        H.ok(key, nontrivial=len(names) > 0, sample={"sig": str(sig), "arg_types": str(at), "strategy": s.name, "has_self": hs, "result": d.get("result")})
                    elif st == "error":
                        raise RuntimeError(d)
    # update_signature_return
    c = C["monkeytype.stubs:update_signature_return"]
    H.section("update_signature_return", "return annotation in {empty,int,Optional[str]} x return in {absent,NoneType,int} x yield in {absent,NoneType,str} x strategies",
              "exhaustive")
    for ra in (inspect.Signature.empty, int, Optional[str]):
        sig = inspect.Signature([inspect.Parameter("a", inspect.Parameter.POSITIONAL_OR_KEYWORD)], return_annotation=ra)
        for rt in (None, NoneType, int):
            for yt in (None, NoneType, str):
                for s in S:
                    kw = dict(sig=sig, return_type=rt, yield_type=yt, existing_annotation_strategy=s)
                    st, d = rc.check_call(c, stubs.update_signature_return, kw)
                    key = "%s|%s|%s|%s" % (ra, rt, yt, s.name)
                    if st == "fail":
                        H.violation(c.target, "update_signature_return:%s:%s" % (d["failed"], key), "update_signature_return violates %s" % d["failed"],
                                    {"return_annotation": str(ra), "return_type": str(rt), "yield_type": str(yt), "strategy": s.name}, d)
                    elif st == "ok":
                        H.ok(key, sample={"return_annotation": str(ra), "return_type": str(rt), "yield_type": str(yt), "strategy": s.name, "result": d.get("result")})
                    elif st == "error":
                        raise RuntimeError(d)
    # ---- REPLICATE end to end: the stub text of an annotated position is its source annotation
    import ast, importlib, os, shutil, sys, tempfile
    from monkeytype.tracing import CallTrace
    H.section("replicated annotations with forward references", "source annotations with string / TypeVar arguments inside generics and Tuple[T, ...], REPLICATE: the stub's annotation text equals the source's",
              "5 annotated positions")
    tmp = tempfile.mkdtemp(prefix="verif_c13_")
    sys.path.insert(0, tmp)
    try:
        src = ("from typing import Iterator, List, Tuple, Type, TypeVar\nT = TypeVar('T')\nclass Node:\n    pass\n"
               "def walk(n) -> Iterator['Node']:\n    return iter(())\n"
               "def make(cls: Type[T]) -> T:\n    return cls()\n"
               "def tup(x: Tuple[int, ...], y: List['Node'] = None):\n    return x\n")
        name = "c13rep%d" % ctx["seed"]
        with open(os.path.join(tmp, name + ".py"), "w") as f:
            f.write(src)
        importlib.invalidate_caches()
        mod = importlib.import_module(name)
        text = stubs.build_module_stubs_from_traces([CallTrace(mod.walk, {"n": int}, None), CallTrace(mod.make, {"cls": type}, int), CallTrace(mod.tup, {"x": tuple}, int)], 0,
                                                    existing_annotation_strategy=S.REPLICATE)[name].render()
        want = {("walk", "return"): "Iterator['Node']", ("make", "cls"): "Type[T]", ("make", "return"): "T", ("tup", "x"): "Tuple[int, ...]", ("tup", "y"): "Optional[List['Node']]"}
        got = {}
        for fn in ast.walk(ast.parse(text)):
            if isinstance(fn, ast.FunctionDef):
                for a in fn.args.args:
                    got[(fn.name, a.arg)] = ast.unparse(a.annotation) if a.annotation else None
                got[(fn.name, "return")] = ast.unparse(fn.returns) if fn.returns else None
        bad = {"%s.%s" % k: (got.get(k), v) for k, v in want.items() if got.get(k) != v}
        if not bad:
            H.ok("replicate-text", sample={"stub_tail": text[-200:]})
        else:
            generic = sorted(k for k in bad if k in ("walk.return", "make.cls", "make.return", "tup.x", "tup.y"))
            H.violation("monkeytype.stubs:render_annotation", "C13-replicated-annotation-text|generic-args" if set(bad) <= {"walk.return", "make.cls", "make.return", "tup.x"} else "replicate-text:%s" % sorted(bad),
                        "an annotated position does not keep its source annotation under REPLICATE (re-rendered from the evaluated object)", {"positions": generic}, {"stub (got) vs source (want)": bad})
    except Exception as e:    # noqa
        H.violation("monkeytype.stubs:render_annotation", "replicate-text-raises:%s" % type(e).__name__, "stub generation under REPLICATE raises", {}, repr(e)[:300])
    finally:
        sys.path.remove(tmp)
        shutil.rmtree(tmp, ignore_errors=True)
    return H.result()


def replay(rp, ctx):
    return {"note": "re-run ./check C13: the bounded corpus is deterministic and re-observes the case", "replay": rp}
