"""C10 bounded companion: stores built from valid rows interleaved with every kind of stale row; `stub` must succeed,
equal the stub of the valid rows alone, report the number of skipped rows, and say 'No traces found' when nothing decodes."""
import itertools
import json
import random
import sqlite3
from typing import Dict, List, Optional

from monkeytype.encoding import CallTraceRow
from monkeytype.tracing import CallTrace
from runtime.fixgen import Fixture
from runtime.harness import Harness

NoneType = type(None)


def row(module, qualname, arg_types, return_type=None, yield_type=None):
    return (module, qualname, json.dumps(arg_types, sort_keys=True), json.dumps(return_type, sort_keys=True) if return_type else None,
            json.dumps(yield_type, sort_keys=True) if yield_type else None)


def td(module, qualname, elems=None):
    d = {"module": module, "qualname": qualname}
    if elems is not None:
        d["elem_types"] = elems
    return d


INT = td("builtins", "int")


def insert(db, rows):
    conn = sqlite3.connect(db)
    with conn:
        conn.executemany("INSERT INTO monkeytype_call_traces VALUES (datetime('now'), ?, ?, ?, ?, ?)", rows)
    conn.close()


def run(ctx):
    H = Harness(ctx)
    rnd = random.Random(ctx["seed"])
    fx = Fixture("fxc10")
    try:
        m = fx.module()
        M = "fxc10.mod"
        W = td(M, "Widget")
        valid = [
            row(M, "f", {"a": INT}, INT), row(M, "f", {"a": td("builtins", "str"), "b": INT}, td("builtins", "str")),
            row(M, "g", {"w": W}, INT), row(M, "Widget.method", {"self": W, "n": INT}, INT), row(M, "gen", {"n": INT}, None, INT),
            row(M, "wrapped", {"x": INT}, INT), row(M, "Widget.ro", {"self": W}, td("builtins", "str")),
        ]
        stale = {
            "module removed": row("fxc10.gone", "f", {"a": INT}, INT),
            "submodule removed": row("fxc10.sub.gone", "h", {"d": INT}, INT),
            "function removed": row(M, "vanished", {"a": INT}, INT),
            "method removed": row(M, "Widget.vanished", {"self": W}, INT),
            "function replaced by a non-function": row(M, "not_a_function", {"a": INT}, INT),
            "function replaced by a class": row(M, "Gadget", {"a": INT}, INT),
            "settable property": row(M, "Widget.rw", {"self": W}, INT),
            "argument class removed": row(M, "g", {"w": td(M, "RemovedClass")}, INT),
            "return class removed": row(M, "g", {"w": W}, td(M, "RemovedClass")),
            "yield class removed": row(M, "gen", {"n": INT}, None, td(M, "RemovedClass")),
            "nested class removed": row(M, "g", {"w": td(M, "Widget.RemovedPart")}, INT),
            "class name bound to a non-type": row(M, "g", {"w": td(M, "Rebound")}, INT),
            "class inside generic removed": row(M, "g", {"w": td("typing", "List", [td(M, "RemovedClass")])}, INT),
            "function in a local scope": row(M, "deco.<locals>.wrapper", {"a": INT}, INT),
            "name bound to the wrapper of a decorator without functools.wraps": row(M, "shadowed", {"x": INT}, INT),
            "function replaced by a builtin": row(M, "sleep", {"a": INT}, INT),
            "generated namedtuple method": row(M, "NT._replace", {"self": td(M, "NT")}, INT),
            "function replaced by a proxy answering every attribute": row(M, "proxied", {"a": INT}, INT),
            "property over a non-function getter": row(M, "Holder2.po", {"self": td(M, "Holder2")}, INT),
            "attribute lookup raising another exception": row(M, "Settings.debug", {"self": INT}, INT),
            "argument class in a module whose import fails (ImportError, not ModuleNotFoundError)": row(M, "g", {"w": td("fxc10.broken", "K")}, INT),
        }
        # rows that decode but mention parameters that no longer exist are NOT stale: they must be used and the extra name ignored
        extra_param = row(M, "f", {"a": INT, "gone_param": INT}, INT)

        def stub_of(rows, verbose=False):
            fx.reset_db()
            fx.store()
            insert(fx.db, rows)
            return fx.cli((["-v"] if verbose else []) + ["stub", M])

        ref_rc, ref_out, ref_err = stub_of(valid)
        H.section("stale rows interleaved", "7 valid rows of a fixture package + each of %d stale kinds at every position, pairs of stale kinds, the same stale row repeated (before / after a valid row of the same function); quiet and -v" % len(stale),
                  "positions x kinds; pairs; duplicates")
        if ref_rc != 0 or "def f" not in ref_out or ref_err:
            H.violation("monkeytype.cli:get_stub", "reference-run:%s" % (ref_rc,), "stub of valid rows alone fails", {}, {"rc": ref_rc, "out": ref_out[-400:], "err": ref_err[-400:]})
            return H.result()
        cases = []
        other_module = {k for k, r in stale.items() if r[0] != M}      # not returned by the query for M: neither used nor counted
        for kind, srow in stale.items():
            if kind in other_module:
                cases.append((kind + " (other module)", valid[:3] + [srow] + valid[3:], 0))
                continue
            for pos in (0, len(valid) // 2, len(valid)):
                cases.append((kind + "@%d" % pos, valid[:pos] + [srow] + valid[pos:], 1))
            cases.append((kind + " twice", [srow] + valid + [srow[:2] + (srow[2].replace('"a"', '"a"'),) + srow[3:]], None))
        kinds = [k for k in stale if k not in other_module]
        for a, b in itertools.combinations(kinds, 2) if ctx["tier"] == "thorough" else [tuple(rnd.sample(kinds, 2)) for _ in range(12)]:
            rows = list(valid)
            rows.insert(rnd.randrange(len(rows) + 1), stale[a])
            rows.insert(rnd.randrange(len(rows) + 1), stale[b])
            cases.append(("%s + %s" % (a, b), rows, 2))
        # stale and valid rows of the SAME function / the SAME missing name, in both orders
        cases.append(("class-removed row of g before valid g", [stale["argument class removed"]] + valid, 1))
        cases.append(("two rows naming the same non-type", [stale["class name bound to a non-type"], row(M, "f", {"a": td(M, "Rebound")}, INT)] + valid, 2))
        cases.append(("two rows naming the same non-type (valid first)", valid + [stale["class name bound to a non-type"], row(M, "f", {"a": td(M, "Rebound")}, INT)], 2))
        cases.append(("extra parameter name", valid + [extra_param], 0))
        for name, rows, nfail in cases:
            for verbose in (False, True):
                rc, out, err = stub_of(rows, verbose)
                distinct_stale = len({r for r in rows if r not in valid and r != extra_param})
                want_fail = nfail if nfail is not None else distinct_stale
                problems = []
                if rc != 0:
                    problems.append("exit status %r" % (rc,))
                if out != ref_out:
                    problems.append("stub differs from the stub of the decodable rows alone")
                if verbose:
                    if err.count("WARNING: Failed decoding trace") != want_fail:
                        problems.append("-v: %d warnings for %d undecodable rows" % (err.count("WARNING: Failed decoding trace"), want_fail))
                elif want_fail and ("%d traces failed to decode" % want_fail) not in err:
                    problems.append("quiet: stderr does not report %d skipped rows: %r" % (want_fail, err[-200:]))
                elif not want_fail and err:
                    problems.append("unexpected stderr %r" % err[-200:])
                key = "%s|v=%s" % (name, verbose)
                if problems:
                    H.violation("monkeytype.cli:get_stub", "stale:%s:%s" % (key, problems), "stale rows: " + "; ".join(problems),
                                {"case": name, "verbose": verbose, "rows": [r[:3] for r in rows if r not in valid]}, {"rc": rc, "stderr": err[-600:], "stdout_tail": out[-300:]})
                else:
                    H.ok(key, sample={"case": name, "verbose": verbose, "stderr": err.strip()[-120:]})
        H.section("nothing decodable", "stores holding only stale rows (module removed / everything stale), stub and apply: 'No traces found', exit 0, nothing on stdout", "4 stores x 2 commands")
        for name, rows, target in (("module removed", [stale["module removed"], row("fxc10.gone", "g", {"w": INT}, INT)], "fxc10.gone"),
                                   ("all stale", list(stale.values()), M), ("empty store", [], M), ("submodule removed", [stale["submodule removed"]], "fxc10.sub.gone")):
            fx.reset_db(); fx.store(); insert(fx.db, rows)
            for cmd in ("stub", "apply"):
                rc, out, err = fx.cli([cmd, target])
                if rc == 0 and "No traces found" in err and out == "":
                    H.ok("%s|%s" % (name, cmd), sample={"case": name, "cmd": cmd, "stderr": err.strip()[-160:]})
                else:
                    H.violation("monkeytype.cli:%s_stub_handler" % ("print" if cmd == "stub" else "apply"), "nothing-decodable:%s:%s:%s" % (name, cmd, rc),
                                "nothing decodable: the command must say 'No traces found' and succeed", {"case": name, "cmd": cmd}, {"rc": rc, "stderr": err[-400:], "stdout": out[-200:]})
    finally:
        fx.close()
    return H.result()


def replay(rp, ctx):
    return {"note": "re-run ./check C10 (deterministic fixture)", "replay": rp}
