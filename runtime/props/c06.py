"""C06 bounded companion: the TypedDict size limit end to end (inference, merging, store round trip, stub rendering)."""
import ast
import random

from monkeytype.encoding import type_from_json, type_to_json
from monkeytype.stubs import build_module_stubs_from_traces
from monkeytype.tracing import CallTrace
from monkeytype.typing import get_type, shrink_types
from monkeytype.config import Config, DefaultConfig
from runtime import corpus, infer, spec_c
from runtime.harness import Harness


from monkeytype.stubs import ReplaceTypedDictsWithStubs
from monkeytype.typing import field_annotations
import typing as _typing

_TRAVERSED = ("List", "Set", "Dict", "DefaultDict", "Tuple", "TupleVar", "Generator", "Union")


def tdpos_c(t):
    """Concrete twin of tdpos (theories/replace_th.py): TypedDict nodes only under containers the replacement traverses."""
    kd = spec_c.kind(t)
    if kd == "TD":
        req, opt = field_annotations(t)
        return all(tdpos_c(x) for x in list(req.values()) + list(opt.values()))
    if kd in _TRAVERSED:
        return all(a is Ellipsis or tdpos_c(a) for a in t.__args__)
    return not spec_c.td_nodes(t)


def wf_ann_c(t):
    """Concrete twin of wf_ann: the modelled type grammar with forward references as leaves, no TypedDict / TypeVar left."""
    kd = spec_c.kind(t)
    if kd in ("TD", "NamedTD", "TypeVar"):
        return False
    if kd == "ForwardRef" or t is Ellipsis:
        return True
    return all(wf_ann_c(a) for a in getattr(t, "__args__", ()) or () if not isinstance(a, (list, tuple)))


class StrProxy:
    """A transparent string proxy (lazy-translation string style): reports str as its class without being one."""
    def __init__(self, s):
        self._s = s

    @property
    def __class__(self):
        return str

    def __hash__(self):
        return hash(self._s)

    def __eq__(self, other):
        return isinstance(other, StrProxy) and other._s == self._s


def dict_values(rnd, n):
    out = [{StrProxy("a"): 1}, {StrProxy("a"): 1, StrProxy("b"): "x"}, [{StrProxy("a"): 1}], {"outer": {StrProxy("k"): 0}}]
    keysets = [[], ["a"], ["a", "b"], ["a", "b", "c"], ["k%d" % i for i in range(12)], [1], ["a", 1], [("t",)], ["a", "b", "c", "d"]]
    for ks in keysets:
        d = {k: rnd.choice([0, "s", None, [1], {"x": 1}, {"x": 1, "y": 2}, {}]) for k in ks}
        out += [d, [d], (d,), {"outer": d}, [d, dict(list(d.items())[:1])]]
        if len(ks) >= 2 and all(isinstance(k_, str) for k_ in ks):
            halves = [{k_: 1} for k_ in ks]
            out += [halves, [halves[:len(halves) // 2], halves[len(halves) // 2:]]]
        import collections
        dd = collections.defaultdict(int); dd.update(d); out.append(dd)
    return out


def func(x):
    return x


def load(config):
    return config


def save(config, n):
    return n


def run(ctx):
    H = Harness(ctx)
    rnd = random.Random(ctx["seed"])
    H.section("td_ok through inference, merge, store round trip, stub", "dict values with 0..12 keys (string / non-string / mixed), nested in list / tuple / dict / defaultdict; k in {0,1,2,3,10}; single values and merged pairs / triples; "
              "get_type, shrink_types, type_to_json/from_json, module stub: no TypedDict for k=0, at most k keys, all keys strings, never an empty dict", "k in {0,1,2,3,10}")
    vals = dict_values(rnd, 0)
    for k in (0, 1, 2, 3, 10):
        groups = [(v,) for v in vals] + [tuple(rnd.sample(vals, 2)) for _ in range(40)] + [tuple(rnd.sample(vals, 3)) for _ in range(20)]
        for g in groups:
            key = "%s|%d" % (infer.short(g, 100), k)
            try:
                t = infer.infer(g, k)
            except Exception as e:      # noqa
                H.violation("monkeytype.typing:get_type", "infer-raises:%s:%s" % (key, type(e).__name__), "inference raises", {"values": infer.short(g, 300), "k": k}, repr(e))
                continue
            problems = []
            if not spec_c.td_ok(t, k):
                problems.append("inferred type %r" % (t,))
            else:
                try:
                    back = type_from_json(type_to_json(t))
                    if not spec_c.td_ok(back, k):
                        problems.append("decoded type %r" % (back,))
                except Exception as e:
                    problems.append("round trip raises %r" % e)
                try:
                    stub = build_module_stubs_from_traces([CallTrace(func, {"x": t}, t)], k)[func.__module__]
                    text = stub.render()
                    tree = ast.parse(text)
                    classes = [n for n in ast.walk(tree) if isinstance(n, ast.ClassDef)]
                    if k == 0 and (classes or "TypedDict" in text):
                        problems.append("TypedDict class in stub with k=0")
                    for c in classes:
                        fields = [b for b in c.body if isinstance(b, ast.AnnAssign)]
                        if len(fields) > k or len(fields) == 0:
                            problems.append("stub class %s has %d fields (k=%d)" % (c.name, len(fields), k))
                except SyntaxError as e:
                    pass     # rendering problems are C11 / C12's business
                except Exception as e:
                    problems.append("stub generation raises %r" % e)
            # T-REPLACE validation on the real ReplaceTypedDictsWithStubs: the hypotheses the replacement clauses carry hold of every inferred type
            # (TypedDicts only where the traversal goes; none empty), and under them the clauses' reading is what the class does
            try:
                if not tdpos_c(t) or not all(len(fa[0]) + len(fa[1]) >= 1 for fa in map(field_annotations, spec_c.td_nodes(t))):
                    H.theory_failure("tdpos / td_ne", "an inferred type has a TypedDict outside the traversed containers, or an empty one", {"type": repr(t), "k": k})
                rt, stubs_ = ReplaceTypedDictsWithStubs.rewrite_and_get_stubs(t, "x")
                if spec_c.td_nodes(rt) or not wf_ann_c(rt):
                    H.theory_failure("post:replaced / wf_ann", "a TypedDict is left after replacement of a type satisfying tdpos, or the result is outside the annotation grammar", {"type": repr(t), "result": repr(rt)})
                if spec_c.td_ok(t, k) and not all(1 <= len(s_.attribute_stubs) <= max(k, 0) for s_ in stubs_):
                    problems.append("generated class stubs %r outside 1..%d fields" % ([len(s_.attribute_stubs) for s_ in stubs_], k))
                if len(stubs_) < len(spec_c.td_nodes(t)):
                    problems.append("%d class stubs for %d TypedDict nodes" % (len(stubs_), len(spec_c.td_nodes(t))))
            except Exception as e:     # noqa
                problems.append("replacement raises %r" % (e,))
            if problems:
                H.violation("monkeytype.typing:get_dict_type", "td_ok:%s:%s" % (key, problems[:1]), "TypedDict size limit not honoured: " + "; ".join(problems[:2]), {"values": infer.short(g, 300), "k": k}, problems)
            else:
                H.ok(key, nontrivial=bool(spec_c.td_nodes(t)) or k == 0, sample={"values": infer.short(g, 100), "k": k, "type": infer.short(t)})
    H.section("class stubs of several functions", "two functions of one module sharing a parameter name, each called with a differently keyed dict within the limit; the rendered TypedDict classes have at most k fields each",
              "k in {2, 3}")
    for k in (2, 3):
        t1, t2 = infer.infer(({"host": "h", "port": 1},), k), infer.infer(({"path": "p", "mode": "m"},), k)
        text = build_module_stubs_from_traces([CallTrace(load, {"config": t1}, int), CallTrace(save, {"config": t2, "n": int}, int)], k)[load.__module__].render()
        try:
            classes = [n for n in ast.walk(ast.parse(text)) if isinstance(n, ast.ClassDef)]
            worst = max([len([b for b in c.body if isinstance(b, ast.AnnAssign)]) for c in classes] or [0])
        except SyntaxError:
            worst = 0
        if worst <= k:
            H.ok("two-functions|k=%d" % k, sample={"k": k, "largest_class": worst})
        else:
            H.violation("monkeytype.stubs:build_module_stubs", "class-stub-too-large:k=%d:%d" % (k, worst), "a rendered TypedDict class has more than k fields", {"k": k}, {"stub": text[:900], "largest": worst})
    H.section("a field named like its parameter", "a dict argument with a TypedDict-valued field whose name is the parameter's own name (the nested and the outer generated class get the same name), within the limit: "
              "every rendered TypedDict class has at most k fields", "k in {2, 3}")
    for k in (2, 3):
        t = infer.infer(({"config": {"x": 1, "y": 2}, "n": 1},), k)
        text = build_module_stubs_from_traces([CallTrace(load, {"config": t}, int)], k)[load.__module__].render()
        try:
            classes = [n for n in ast.walk(ast.parse(text)) if isinstance(n, ast.ClassDef)]
            worst = max([len([b for b in c.body if isinstance(b, ast.AnnAssign)]) for c in classes] or [0])
        except SyntaxError:
            worst = 0
        if worst <= k and classes:
            H.ok("same-named-field|k=%d" % k, sample={"k": k, "largest_class": worst, "classes": len(classes)})
        else:
            H.violation("monkeytype.stubs:ReplaceTypedDictsWithStubs._add_typed_dict_class_stub", "class-stub-too-large:same-named-field:k=%d:%d" % (k, worst),
                        "a rendered TypedDict class has more than k fields (or none is rendered)", {"k": k, "value": "{'config': {'x': 1, 'y': 2}, 'n': 1}"}, {"stub": text[:900], "largest": worst})
    H.section("defaults", "Config.max_typed_dict_size() default is 0 for Config subclasses and DefaultConfig", "2 configs")
    class C(Config):
        def trace_store(self):
            return None
    for cfg in (C(), DefaultConfig()):
        if cfg.max_typed_dict_size() == 0:
            H.ok(type(cfg).__name__, sample={"config": type(cfg).__name__, "max_typed_dict_size": 0})
        else:
            H.violation("monkeytype.config:Config.max_typed_dict_size", "default:%s:%s" % (type(cfg).__name__, cfg.max_typed_dict_size()), "default limit is not zero", {}, cfg.max_typed_dict_size())
    return H.result()


def replay(rp, ctx):
    return {"note": "re-run ./check C06", "replay": rp}
