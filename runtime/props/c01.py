"""C01 bounded end-to-end companion: generated target module run under real monkeytype tracing, through a real sqlite store and
`monkeytype stub`; every annotation of the stub text, evaluated with the names the stub provides, admits every value observed
at that position."""
import importlib
import random
import sys

import monkeytype
from monkeytype.typing import (DEFAULT_REWRITER, NoOpRewriter, RemoveEmptyContainers, RewriteConfigDict, RewriteGenerator, RewriteLargeUnion,
                               RewriteMostSpecificCommonBase, RewriteAnonymousTypedDictToDict)
from runtime import spec_c, infer
from runtime.fixgen import Fixture
from runtime.harness import Harness
from runtime.props.c11 import evaluate_stub

TARGET = '''
import collections


class Animal:
    pass


class Dog(Animal):
    pass


class Cat(Animal):
    pass


def ident(a, b=None):
    return a


def pair(x, y):
    return (x, y)


def produce(n, item):
    for _ in range(n):
        yield item
    return n


class Box:
    def put(self, item):
        return [item]

    @classmethod
    def make(cls, item):
        return {"item": item}

    @staticmethod
    def count(items):
        return len(items)


async def co(x):
    return x


def shapes(t):
    return t


def registry(handlers):
    return handlers


def emit(flag):
    yield "A" if flag else 1


def walk(node):
    if isinstance(node, list):
        return [walk(c) for c in node]
    return str(node)
'''


def memv(v, t, classes):
    """mem with generated TypedDict classes (class objects / forward refs by name) read as their fields."""
    import typing
    if isinstance(t, typing.ForwardRef):
        t = classes[t.__forward_arg__]
    if isinstance(t, str):
        t = classes[t]
    if isinstance(t, type) and t.__name__.endswith(("__RENAME_ME__", "NonTotal")) and hasattr(t, "__annotations__"):
        ann = {}
        for base in reversed(t.__mro__):
            ann.update(getattr(base, "__annotations__", {}))
        required = set(getattr(t, "__required_keys__", ann))
        if not isinstance(v, dict) or not all(k in ann for k in v) or not all(k in v for k in required):
            return False
        return all(memv(v[k], ann[k], classes) for k in v)
    k = spec_c.kind(t)
    if k == "Union":
        return any(memv(v, a, classes) for a in t.__args__)
    if k in ("List", "Set"):
        return isinstance(v, list if k == "List" else set) and all(memv(e, t.__args__[0], classes) for e in v)
    if k == "Tuple":
        return isinstance(v, tuple) and len(v) == len(t.__args__) and all(memv(e, a, classes) for e, a in zip(v, t.__args__))
    if k == "TupleVar":
        return isinstance(v, tuple) and all(memv(e, t.__args__[0], classes) for e in v)
    if k in ("Dict", "DefaultDict"):
        import collections
        return isinstance(v, collections.defaultdict if k == "DefaultDict" else dict) and all(memv(a, t.__args__[0], classes) and memv(b, t.__args__[1], classes) for a, b in v.items())
    if k == "Iterator":
        return True
    if k == "Generator":
        return True
    return spec_c.mem(v, t)


def run(ctx):
    H = Harness(ctx)
    rnd = random.Random(ctx["seed"])
    configs = []
    rewriters = {"default": "DEFAULT_REWRITER", "none": "NoOpRewriter()", "RemoveEmptyContainers": "RemoveEmptyContainers()", "RewriteConfigDict": "RewriteConfigDict()",
                 "RewriteLargeUnion(2)": "RewriteLargeUnion(2)", "RewriteMostSpecificCommonBase": "RewriteMostSpecificCommonBase()", "RewriteGenerator": "RewriteGenerator()"}
    quick = ctx["tier"] == "quick"
    combos = [(0, "default", []), (3, "default", []), (2, "none", []), (3, "RemoveEmptyContainers", []), (0, "RewriteLargeUnion(2)", []), (3, "RewriteMostSpecificCommonBase", []),
              (3, "default", ["--disable-type-rewriting"]), (10, "RewriteConfigDict", [])]
    if not quick:
        combos = [(k, r, f) for k in (0, 1, 2, 3, 10) for r in rewriters for f in ([], ["--disable-type-rewriting"])]
    H.section("run -> store -> stub", "a generated module (functions, methods of every kind, a generator returning a value, a coroutine) called with grammar values (atoms, user classes and subclasses, class objects, "
              "callables, nested list / set / tuple / dict / defaultdict, empty containers, None) under real monkeytype.trace(), sqlite store, `monkeytype stub` with the flag sets; each annotation eval-ed "
              "in the stub's own namespace must admit every value observed at its position", "%d configurations x 3 call histories" % len(combos))
    for ci, (k, rwname, flags) in enumerate(combos):
        fx = Fixture("fxc01_%d_%d" % (ctx["seed"], ci), k=k)
        try:
            fx.write("target.py", TARGET)
            with open(fx.dir + "/%s_cfg.py" % fx.name, "a") as f:
                f.write("\nfrom monkeytype.typing import *\nclass Cfg2(Cfg):\n    def type_rewriter(self):\n        return %s\nCONFIG = Cfg2()\n" % rewriters[rwname])
            t = fx.module("target")
            cfg = importlib.import_module(fx.name + "_cfg").CONFIG
            import collections
            dd = collections.defaultdict(list); dd["k"].append(1)
            grammar = [0, "s", None, 1.5, True, t.Dog(), t.Cat(), t.Animal(), t.Dog, len, t.ident, [], [1], ["s", 1], [[]], [[1]], {}, {"a": 1}, {"a": 1, "b": "x"}, {"b": None}, {1: "x"}, {"a": {"z": 1}},
                       (), (1, "s"), set(), {1, 2}, dd, [t.Dog(), t.Cat()], [{"a": 1}, {"a": 2, "c": []}], {"a": []}, {"a": [1]}]
            for hist in range(3):
                fx.reset_db()
                observed = {}

                def see(fn, pos, v):
                    observed.setdefault((fn, pos), []).append(v)
                calls = [rnd.choice(grammar) for _ in range(6)]
                if hist == 0:
                    # crafted history: empty dict + non-empty defaultdict at one position, recursion with different types, one generator yielding different types
                    calls = [{}, dd, [], [1], None, (1, "s")]
                with monkeytype.trace(cfg):
                    if hist == 0:
                        r_ = t.walk([1, [2, 3]]); see("walk", "node", [1, [2, 3]]); see("walk", "node", 1); see("walk", "node", [2, 3]); see("walk", "node", 2); see("walk", "node", 3)
                        see("walk", "return", r_); see("walk", "return", "1"); see("walk", "return", ["2", "3"]); see("walk", "return", "2"); see("walk", "return", "3")
                        list(t.produce(1, "A")); list(t.produce(1, 1)); see("produce", "item", "A"); see("produce", "item", 1); see("produce", "n", 1)
                        see("produce", "yield", "A"); see("produce", "yield", 1)
                        list(t.emit(True)); list(t.emit(False)); see("emit", "flag", True); see("emit", "yield", "A"); see("emit", "yield", 1)
                        # one position seeing six tuple shapes, each homogeneous but of two element types (large-union rewriting); collections of different class objects
                        for tp in ((1,), (1, 2), (1, 2, 3), ("a",), ("a", "b"), ("a", "b", "c")):
                            t.shapes(tp); see("shapes", "t", tp); see("shapes", "return", tp)
                        for hs in ([t.Dog, t.Cat], [t.Dog, int], {t.Cat, t.Animal}):
                            t.registry(hs); see("registry", "handlers", hs); see("registry", "return", hs)
                    for v in calls:
                        w = rnd.choice(grammar)
                        t.ident(v, w); see("ident", "a", v); see("ident", "b", w); see("ident", "return", v)
                        t.pair(v, w); see("pair", "x", v); see("pair", "y", w); see("pair", "return", (v, w))
                        out = list(t.produce(2, v)); see("produce", "n", 2); see("produce", "item", v)
                        b = t.Box()
                        b.put(v); see("Box.put", "item", v); see("Box.put", "return", [v])
                        t.Box.make(v); see("Box.make", "item", v); see("Box.make", "return", {"item": v})
                        t.Box.count([v, w]); see("Box.count", "items", [v, w]); see("Box.count", "return", 2)
                rc, text, err = fx.cli(flags + ["stub", fx.name + ".target"])
                key = "k=%d|%s|%s|hist=%d" % (k, rwname, flags, hist)
                if rc != 0 or not text.strip():
                    H.violation("monkeytype.cli:main", "stub-fails:%s:%s" % (key, rc), "stub command fails after a traced run", {"k": k, "rewriter": rwname, "flags": flags}, {"rc": rc, "stderr": err[-600:]})
                    continue
                try:
                    anns, classes = evaluate_stub(text, t)
                except Exception as e:
                    known = "C11-class-stub-field-imports" if isinstance(e, NameError) and "class " in text else None
                    H.violation("monkeytype.stubs:ModuleStub.render", (known + "|e2e") if known else "stub-eval:%s:%s" % (key, type(e).__name__), "stub does not evaluate with the names it provides: %r" % (e,),
                                {"k": k, "rewriter": rwname, "flags": flags}, {"stub": text[-900:]})
                    continue
                bad = []
                for (fn, pos), vs in observed.items():
                    if pos == "yield":
                        ra = anns.get(fn, {}).get("return")
                        ya = getattr(ra, "__args__", [None])[0] if ra is not None and spec_c.kind(ra) in ("Iterator", "Generator") else None
                        if ya is None:
                            bad.append("%s: return annotation %r is not an Iterator / Generator of the yielded values" % (fn, ra))
                        else:
                            for v in vs:
                                if not memv(v, ya, classes):
                                    bad.append("%s yield: %s does not admit yielded %s" % (fn, infer.short(ya, 90), infer.short(v, 60)))
                                    break
                        continue
                    ann = anns.get(fn, {}).get(pos)
                    if ann is None:
                        if pos != "return" or fn != "produce":
                            bad.append("%s.%s has no annotation although traced" % (fn, pos))
                        continue
                    for v in vs:
                        try:
                            if not memv(v, type(None) if ann is None else ann, classes):
                                bad.append("%s.%s: %s does not admit observed %s" % (fn, pos, infer.short(ann, 90), infer.short(v, 60)))
                                break
                        except Exception as e:
                            bad.append("%s.%s: cannot decide membership in %r: %r" % (fn, pos, ann, e))
                            break
                if bad:
                    H.violation("monkeytype.cli:get_stub", "e2e:%s:%s" % (key, bad[0][:140]), "emitted annotation rejects an observed value: " + "; ".join(bad[:3]), {"k": k, "rewriter": rwname, "flags": flags, "calls": infer.short(calls, 300)},
                                {"stub": text[-1200:], "problems": bad[:6]})
                else:
                    H.ok(key, sample={"k": k, "rewriter": rwname, "flags": flags, "stub_tail": text[-200:]})
        finally:
            fx.close()
    return H.result()


def replay(rp, ctx):
    return {"note": "re-run ./check C01 with the same VERIF_SEED", "replay": rp}
