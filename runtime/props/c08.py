"""C08 bounded companion: inferred types (all k) and their rewritten forms encode to JSON and decode to a structurally
identical type; call traces round-trip (absent return / yield stays distinct from NoneType); encoding is a function of structure."""
import json
import random
import typing

from monkeytype.encoding import (CallTraceRow, arg_types_from_json, arg_types_to_json, maybe_decode_type, maybe_encode_type, type_from_json, type_to_json)
from monkeytype.tracing import CallTrace
from monkeytype.typing import get_type
from runtime import corpus, infer, spec_c
from runtime.fixgen import Fixture
from runtime.harness import Harness
from runtime.props.c07 import rewriters

NoneType = type(None)


def importable(t):
    """Types mentioning classes that cannot be looked up by name (locals, instances of dynamically created classes) are outside the property."""
    k = spec_c.kind(t)
    if k == "Class":
        return "<locals>" not in getattr(t, "__qualname__", "<locals>")
    if k == "TD":
        from monkeytype.typing import field_annotations
        r, o = field_annotations(t)
        return all(importable(x) for x in list(r.values()) + list(o.values()))
    if k in ("Union", "List", "Set", "Dict", "DefaultDict", "Tuple", "TupleVar", "Type", "Iterator", "Generator"):
        return all(a is Ellipsis or importable(a) for a in t.__args__)
    return True


def run(ctx):
    H = Harness(ctx)
    rnd = random.Random(ctx["seed"])
    tier = ctx["tier"]
    H.section("type round trip", "infer(multiset, k) over value multisets x k in K, plus TYPES corpus: type_from_json(type_to_json(t)) is structurally equal to t; a second, structurally equal but separately built type gives the same JSON",
              "multisets<=4 x k in %s" % (corpus.K_LIMITS if tier == "thorough" else [0, 2, 10]))
    seen = set()
    types = []
    for vals in infer.value_multisets(tier, rnd):
        for k in (corpus.K_LIMITS if tier == "thorough" else [0, 2, 10]):
            t = infer.infer(vals, k)
            t2 = infer.infer(list(vals), k)
            types.append((t, t2, "infer(%s, %s)" % (infer.short(vals, 80), k)))
    for t in corpus.types_corpus(2):
        if spec_c.kind(t) != "TupleVar" and not any(spec_c.kind(n) == "TupleVar" for n in getattr(t, "__args__", ()) if n is not Ellipsis):
            types.append((t, t, "corpus"))
    for t, t2, origin in types:
        if not importable(t):
            continue
        r = repr(t)
        try:
            j = type_to_json(t)
            back = type_from_json(j)
            j2 = type_to_json(t2)
        except Exception as e:
            if (r, "exc") not in seen:
                seen.add((r, "exc"))
                H.violation("monkeytype.encoding:type_to_json", "roundtrip-raises:%s:%s" % (infer.short(t), type(e).__name__), "encoding / decoding an inferable type raises", {"type": r, "origin": origin}, repr(e))
            continue
        if not spec_c.tyeq(back, t):
            H.violation("monkeytype.encoding:type_from_json", "roundtrip:%s:%s" % (infer.short(t), infer.short(back)), "decoded type differs structurally", {"type": r, "origin": origin}, repr(back))
        elif j != j2:
            H.violation("monkeytype.encoding:type_to_json", "not-structural:%s" % infer.short(t), "two structurally equal types encode differently", {"type": r}, {"a": j, "b": j2})
        else:
            H.ok(r, nontrivial=spec_c.kind(t) not in ("Class", "Any"), sample={"type": infer.short(t), "json": j[:120]})
    H.section("call trace round trip", "CallTraces over the fixture package's functions (module function, method, classmethod, staticmethod, read-only property, functools.wraps-decorated) with return / yield each absent, NoneType or a type",
              "6 functions x 3 x 3")
    fx = Fixture("fxc08")
    try:
        m = fx.module()
        funcs = [m.f, m.Widget.method, m.Widget.make.__func__, m.Widget.unit, m.Widget.ro.fget, m.wrapped.__wrapped__, m.gen, m.cached.__wrapped__, m.class_wrapped.__wrapped__]
        for fn in funcs:
            for ret in (None, NoneType, int, m.Widget, m.Widget.Part, m.NoneType, m.mappingproxy, typing.Optional[m.NoneType], typing.List[m.mappingproxy]):
                for yld in (None, NoneType, str):
                    tr = CallTrace(fn, {"a": int, "w": m.Widget}, ret, yld)
                    try:
                        row = CallTraceRow.from_trace(tr)
                        back = row.to_trace()
                    except Exception as e:
                        H.violation("monkeytype.encoding:CallTraceRow.to_trace", "trace-roundtrip-raises:%s:%s" % (fn.__qualname__, type(e).__name__), "trace round trip raises", {"func": fn.__qualname__, "return": repr(ret), "yield": repr(yld)}, repr(e))
                        continue
                    same = back.func is fn and back.arg_types == tr.arg_types and (back.return_type is ret or (ret is not None and back.return_type is not None and spec_c.tyeq(back.return_type, ret))) and back.yield_type is yld
                    key = "%s|%r|%r" % (fn.__qualname__, ret, yld)
                    if same:
                        H.ok(key, sample={"func": fn.__qualname__, "row": [row.arg_types[:60], row.return_type, row.yield_type]})
                    else:
                        H.violation("monkeytype.encoding:CallTraceRow.to_trace", "trace-roundtrip:%s:%s" % (key, (back.func.__qualname__, back.return_type, back.yield_type)), "decoded trace differs",
                                    {"func": fn.__qualname__, "return": repr(ret), "yield": repr(yld)}, {"func": getattr(back.func, "__qualname__", None), "return": repr(back.return_type), "yield": repr(back.yield_type)})
    finally:
        fx.close()
    return H.result()


def replay(rp, ctx):
    return {"note": "re-run ./check C08", "replay": rp}
