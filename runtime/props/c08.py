"""C08 bounded companion: inferred types (all k) and their rewritten forms encode to JSON and decode to a structurally
identical type; call traces round-trip (absent return / yield stays distinct from NoneType); encoding is a function of structure."""
import json
import random
import typing

from monkeytype.encoding import (CallTraceRow, arg_types_from_json, arg_types_to_json, maybe_decode_type, maybe_encode_type, type_from_json, type_to_json)
from monkeytype.compat import is_typed_dict
from monkeytype.tracing import CallTrace
from monkeytype.typing import get_type
from runtime import corpus, infer, spec_c
from runtime.fixgen import Fixture
from runtime.harness import Harness
from runtime.props.c07 import rewriters

NoneType = type(None)


def importable(t):
    """Types mentioning classes that cannot be looked up by name (locals, instances of dynamically created classes) are outside the property."""
    k = spec_c.kind(t)
    if k == "Class":
        return "<locals>" not in getattr(t, "__qualname__", "<locals>")
    if k == "TD":
        from monkeytype.typing import field_annotations
        r, o = field_annotations(t)
        return all(importable(x) for x in list(r.values()) + list(o.values()))
    if k in ("Union", "List", "Set", "Dict", "DefaultDict", "Tuple", "TupleVar", "Type", "Iterator", "Generator"):
        return all(a is Ellipsis or importable(a) for a in t.__args__)
    return True


def run(ctx):
    H = Harness(ctx)
    rnd = random.Random(ctx["seed"])
    tier = ctx["tier"]
    H.section("type round trip", "infer(multiset, k) over value multisets x k in K, plus TYPES corpus: type_from_json(type_to_json(t)) is structurally equal to t; a second, structurally equal but separately built type gives the same JSON",
              "multisets<=4 x k in %s" % (corpus.K_LIMITS if tier == "thorough" else [0, 2, 10]))
    seen = set()
    types = []
    for vals in infer.value_multisets(tier, rnd):
        for k in (corpus.K_LIMITS if tier == "thorough" else [0, 2, 10]):
            t = infer.infer(vals, k)
            t2 = infer.infer(list(vals), k)
            types.append((t, t2, "infer(%s, %s)" % (infer.short(vals, 80), k)))
    for t in corpus.types_corpus(2):
        types.append((t, t, "corpus"))          # incl. the rewritten forms Tuple[T, ...] (RewriteLargeUnion), whose `...` argument is encoded too
    for t, t2, origin in types:
        if not importable(t):
            continue
        r = repr(t)
        try:
            j = type_to_json(t)
            back = type_from_json(j)
            j2 = type_to_json(t2)
        except Exception as e:
            if (r, "exc") not in seen:
                seen.add((r, "exc"))
                H.violation("monkeytype.encoding:type_to_json", "roundtrip-raises:%s:%s" % (infer.short(t), type(e).__name__), "encoding / decoding an inferable type raises", {"type": r, "origin": origin}, repr(e))
            continue
        if not spec_c.tyeq(back, t):
            H.violation("monkeytype.encoding:type_from_json", "roundtrip:%s:%s" % (infer.short(t), infer.short(back)), "decoded type differs structurally", {"type": r, "origin": origin}, repr(back))
        elif j != j2:
            H.violation("monkeytype.encoding:type_to_json", "not-structural:%s" % infer.short(t), "two structurally equal types encode differently", {"type": r}, {"a": j, "b": j2})
        else:
            H.ok(r, nontrivial=spec_c.kind(t) not in ("Class", "Any"), sample={"type": infer.short(t), "json": j[:120]})
    # ---- short-lived types: encoding must not depend on what was encoded (and freed) before in the same process
    H.section("short-lived types", "rounds of: infer a fresh TypedDict-bearing type from fresh values, encode, decode, compare structurally, drop it (its address is reused by the next round's type of another shape)",
              "400 rounds x 7 shapes")
    import gc
    bad_rounds = []
    for i in range(400):
        shape = i % 7
        vals_ = [{("k%d" % j): (j if (i + j) % 2 else "s") for j in range(shape + 1)}, [{"id": i, ("f%d" % shape): 1.5}]]
        for v_ in vals_:
            t_ = get_type(v_, 10)
            try:
                ok_ = spec_c.tyeq(type_from_json(type_to_json(t_)), t_)
            except Exception as e:      # noqa
                ok_ = False
            if not ok_:
                bad_rounds.append((i, repr(v_)[:80]))
            del t_
        if i % 25 == 0:
            gc.collect()
    if bad_rounds:
        H.violation("monkeytype.encoding:type_to_json", "short-lived-types:%d-of-400" % len({b[0] for b in bad_rounds}), "a type encoded after other types were freed does not survive the round trip (encoding depends on process history)",
                    {"rounds": 400}, bad_rounds[:5])
    else:
        H.ok("short-lived-types", sample={"rounds": 400})
    validate_t_enc(H, [t for t, _, _ in types])
    H.section("call trace round trip", "CallTraces over the fixture package's functions (module function, method, classmethod, staticmethod, read-only property, functools.wraps-decorated) with return / yield each absent, NoneType or a type",
              "12 functions (incl. property / classmethod / staticmethod stacked on a wraps-style decorator) x 9 x 3")
    fx = Fixture("fxc08")
    try:
        m = fx.module()
        funcs = [m.f, m.Widget.method, m.Widget.make.__func__, m.Widget.unit, m.Widget.ro.fget, m.wrapped.__wrapped__, m.gen, m.cached.__wrapped__, m.class_wrapped.__wrapped__,
                 m.Gauge.level.fget.__wrapped__, m.Gauge.__dict__["build"].__func__.__wrapped__, m.Gauge.__dict__["unit2"].__func__.__wrapped__]
        for fn in funcs:
            for ret in (None, NoneType, int, m.Widget, m.Widget.Part, m.NoneType, m.mappingproxy, typing.Optional[m.NoneType], typing.List[m.mappingproxy]):
                for yld in (None, NoneType, str):
                    tr = CallTrace(fn, {"a": int, "w": m.Widget}, ret, yld)
                    try:
                        row = CallTraceRow.from_trace(tr)
                        back = row.to_trace()
                    except Exception as e:
                        H.violation("monkeytype.encoding:CallTraceRow.to_trace", "trace-roundtrip-raises:%s:%s" % (fn.__qualname__, type(e).__name__), "trace round trip raises", {"func": fn.__qualname__, "return": repr(ret), "yield": repr(yld)}, repr(e))
                        continue
                    same = back.func is fn and back.arg_types == tr.arg_types and (back.return_type is ret or (ret is not None and back.return_type is not None and spec_c.tyeq(back.return_type, ret))) and back.yield_type is yld
                    key = "%s|%r|%r" % (fn.__qualname__, ret, yld)
                    if same:
                        H.ok(key, sample={"func": fn.__qualname__, "row": [row.arg_types[:60], row.return_type, row.yield_type]})
                    else:
                        H.violation("monkeytype.encoding:CallTraceRow.to_trace", "trace-roundtrip:%s:%s" % (key, (back.func.__qualname__, back.return_type, back.yield_type)), "decoded trace differs",
                                    {"func": fn.__qualname__, "return": repr(ret), "yield": repr(yld)}, {"func": getattr(back.func, "__qualname__", None), "return": repr(back.return_type), "yield": repr(back.yield_type)})
    finally:
        fx.close()
    return H.result()


GENERIC_NAME = {"List": "List", "Set": "Set", "Dict": "Dict", "DefaultDict": "DefaultDict", "Tuple": "Tuple", "TupleVar": "Tuple", "Type": "Type",
                "Iterator": "Iterator", "Generator": "Generator", "Callable": "Callable", "Union": "Union"}
ENC_KINDS = {"Any", "Class", "List", "Set", "Dict", "DefaultDict", "Tuple", "Type", "Iterator", "Generator", "Callable", "Union", "TD", "NamedTD"}
HAS_ARGS = {"List", "Set", "Dict", "DefaultDict", "Tuple", "TupleVar", "Type", "Iterator", "Generator", "Union"}
HIDDEN = {"NoneType": type(None), "NotImplementedType": type(NotImplemented), "mappingproxy": type(type.__dict__)}


def has_variadic_tuple(t):
    if spec_c.kind(t) == "TupleVar":
        return True
    if is_typed_dict(t):
        return any(has_variadic_tuple(x) for x in t.__annotations__.values())
    return any(a is not Ellipsis and has_variadic_tuple(a) for a in getattr(t, "__args__", ()) or ()) if spec_c.kind(t) in HAS_ARGS else False


def wf_st(t):
    """Concrete twin of T-ENC wf_st: the structural precondition of the encoder (must cover everything MonkeyType can infer)."""
    from monkeytype.compat import is_typed_dict
    k = spec_c.kind(t)
    if k not in ENC_KINDS or t is None:
        return False
    if is_typed_dict(t):
        return all(isinstance(n, str) and wf_st(x) for n, x in t.__annotations__.items())
    if k in HAS_ARGS:
        return t.__args__ != ((),) and all(wf_st(a) for a in t.__args__)
    return True


def encq(t):
    from monkeytype.compat import is_typed_dict
    k = spec_c.kind(t)
    if is_typed_dict(t):
        return t.__name__
    if k == "Any":
        return "Any"
    if k in GENERIC_NAME:
        return GENERIC_NAME[k]
    return t.__qualname__


def encodes(d, t):
    """Concrete twin of T-ENC encodes(d, t): d is the wire form of t (written from the format description, not from the encoder)."""
    from monkeytype.compat import is_typed_dict
    if not (isinstance(d, dict) and d.get("module") == t.__module__ and d.get("qualname") == encq(t)):
        return False
    if is_typed_dict(t):
        e = d.get("elem_types")
        return bool(d.get("is_typed_dict")) and isinstance(e, dict) and set(e) == set(t.__annotations__) and all(encodes(e[k], t.__annotations__[k]) for k in e)
    if "is_typed_dict" in d:
        return False
    k = spec_c.kind(t)
    if ("elem_types" in d) != (k in HAS_ARGS):
        return False
    if k in HAS_ARGS:
        e = d["elem_types"]
        return e is not None and len(e) == len(t.__args__) and all(encodes(x, a) for x, a in zip(e, t.__args__))
    return True


def validate_t_enc(H, types):
    """The assumed axioms of theories/enc_th.py evaluated on the real libraries (a failure is a checker defect, not a violation),
    and the bounded twin of the proved encoder clause `encodes(type_to_dict(t), t)`."""
    import importlib
    import typing
    from monkeytype.compat import is_typed_dict
    from monkeytype.encoding import type_to_dict
    from monkeytype.typing import make_typed_dict, field_annotations, DUMMY_TYPED_DICT_NAME, DUMMY_REQUIRED_TYPED_DICT_NAME, DUMMY_OPTIONAL_TYPED_DICT_NAME
    H.section("T-ENC axioms vs the real typing / mypy_extensions / json",
              "tname (generics carry `_name`), sub-inv (ctor[args] is structurally t), typing-<N> lookups, hidden builtins, TD-raw shape of make_typed_dict, "
              "json round trip up to key order; wf_st covers every inferred type; encodes(type_to_dict(t), t) by the concrete twin of the relation",
              "all types of the round-trip corpus")
    for n in ("List", "Set", "Dict", "DefaultDict", "Tuple", "Type", "Iterator", "Generator", "Union", "Callable", "Any"):
        if not hasattr(typing, n):
            H.theory_failure("typing-" + n, "typing has no attribute", n)
        else:
            H.ok("typing-" + n, nontrivial=False)
    for h, c in HIDDEN.items():
        if c.__module__ != "builtins" or c.__qualname__ != h:
            H.theory_failure("hidden-" + h, "module/qualname differ", (c.__module__, c.__qualname__))
        else:
            H.ok("hidden-" + h, nontrivial=False)
    td = make_typed_dict(required_fields={"a": int}, optional_fields={"b": str})
    ann = td.__annotations__
    ok = (is_typed_dict(td) and td.__name__ == DUMMY_TYPED_DICT_NAME == td.__qualname__ and set(ann) == {"required_fields", "optional_fields"}
          and ann["required_fields"].__name__ == DUMMY_REQUIRED_TYPED_DICT_NAME and ann["optional_fields"].__name__ == DUMMY_OPTIONAL_TYPED_DICT_NAME
          and ann["required_fields"].__annotations__ == {"a": int} and ann["optional_fields"].__annotations__ == {"b": str}
          and field_annotations(td) == ({"a": int}, {"b": str}) and DUMMY_REQUIRED_TYPED_DICT_NAME != DUMMY_TYPED_DICT_NAME != DUMMY_OPTIONAL_TYPED_DICT_NAME)
    (H.ok("TD-raw", nontrivial=False) if ok else H.theory_failure("TD-raw", "make_typed_dict does not build the nested shape", repr(ann)))
    seen = set()

    def walk(t):
        yield t
        if is_typed_dict(t):
            for x in t.__annotations__.values():
                yield from walk(x)
        elif spec_c.kind(t) in HAS_ARGS:
            for a in t.__args__:
                if a is not Ellipsis:
                    yield from walk(a)
    for top in types:
        if not importable(top):
            continue
        if has_variadic_tuple(top):
            continue        # Tuple[T, ...] only arises from rewriting (at stub time): outside wf_st by design - its round trip is decided by the bounded section above, not by the proved contracts
        if not wf_st(top):
            H.theory_failure("wf_st", "an inferred / corpus type is outside the encoder's structural precondition", repr(top))
            continue
        for t in walk(top):
            r = repr(t) + str(id(t) if is_typed_dict(t) else "")
            if r in seen:
                continue
            seen.add(r)
            k = spec_c.kind(t)
            if k in GENERIC_NAME and k != "Union" and getattr(t, "_name", None) != GENERIC_NAME[k]:
                H.theory_failure("tname-" + k, "_name differs", (repr(t), getattr(t, "_name", None)))
            if k == "Union" and not (getattr(t, "_name", None) in (None, "Optional") and getattr(t.__origin__, "_name", None) == "Union"):
                H.theory_failure("tname-Union", "_name / __origin__._name differ", (repr(t), getattr(t, "_name", None), getattr(t.__origin__, "_name", None)))
            if k in HAS_ARGS and k != "TupleVar":
                ctor = getattr(typing, GENERIC_NAME[k])
                try:
                    back = ctor[t.__args__ if (len(t.__args__) != 1 or k == "Tuple") else t.__args__[0]] if t.__args__ else ctor[()]
                except Exception as e:      # noqa
                    back = e
                if isinstance(back, Exception) or not spec_c.tyeq(back, t):
                    H.theory_failure("sub-inv", "ctor[args] is not structurally t", (repr(t), repr(back)))
            if k == "Class" and not (t.__module__ == "builtins" and t.__qualname__ in HIDDEN):
                try:
                    o = importlib.import_module(t.__module__)
                    for part in t.__qualname__.split("."):
                        o = getattr(o, part)
                except Exception as e:      # noqa
                    o = e
                if o is not t:
                    H.theory_failure("importable-class", "bounded tier's importable() admits a class that lookup does not find", repr(t))
            try:
                d = type_to_dict(t)
            except Exception as e:      # noqa
                H.violation("monkeytype.encoding:type_to_dict", "encode-raises:%s" % infer.short(t), "encoder raises on a well-formed type", {"type": repr(t)}, repr(e))
                continue
            if json.loads(json.dumps(d, sort_keys=True)) != d:
                H.theory_failure("json-roundtrip", "loads(dumps(d)) != d", d)
            if not encodes(d, t):
                H.violation("monkeytype.encoding:type_to_dict", "not-wire-form:%s" % infer.short(t), "type_to_dict(t) is not the wire form of t", {"type": repr(t)}, d)
            else:
                H.ok(r, nontrivial=k not in ("Class", "Any"))


def replay(rp, ctx):
    return {"note": "re-run ./check C08", "replay": rp}
