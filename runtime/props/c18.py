"""C18 bounded companion: traced fraction against binomial bounds; no residue for unsampled calls; logged traces are
faithful (argument types are those of the call's arguments), also for generators resumed many times."""
import math
import random
import sys

from monkeytype.tracing import trace_calls
from runtime.fixpkg import progs
from runtime.props.c02 import Collector, only_progs, describe
from runtime import spec_c
from runtime.harness import Harness


def seed_tracer(tracer, s):
    """Sampling draws come from the tracer's own generator (monkeytype 354a6d0); trees without it draw from the module-level one."""
    getattr(tracer, "_random", random).seed(s)


def traced_fraction(rate, n, seed):
    col = Collector()
    with trace_calls(col, 0, only_progs, rate):
        tracer = sys.getprofile()
        seed_tracer(tracer, seed)
        for i in range(n):
            progs.ret_value(i)
    return len(col.traces), len(tracer.traces), col


def run(ctx):
    H = Harness(ctx)
    seed = ctx["seed"]
    n = 3000 if ctx["tier"] == "quick" else 30000
    H.section("traced fraction", "n calls of one function under sampling rate N: count within 5 sigma of n/N; all traced for rate None / 1; no per-call state afterwards", "n=%d, rates None,1,2,3,10,100" % n)
    for rate in (None, 1, 2, 3, 10, 100):
        got, residue, col = traced_fraction(rate, n, seed + 17)
        p = 1.0 if rate in (None, 1) else 1.0 / rate
        sigma = math.sqrt(n * p * (1 - p))
        ok = abs(got - n * p) <= 5 * sigma + 1e-9 and residue == 0
        faithful = all(set(t.arg_types) == {"a", "b"} and t.arg_types["a"] is int for t in col.traces)
        if ok and faithful:
            H.ok("rate=%s" % rate, sample={"rate": rate, "calls": n, "traced": got})
        else:
            H.violation("monkeytype.tracing:CallTracer.handle_call", "fraction:rate=%s:got=%d:residue=%d:faithful=%s" % (rate, got, residue, faithful),
                        "sampling rate %s: traced %d of %d (residue %d, faithful %s)" % (rate, got, n, residue, faithful), {"rate": rate, "n": n, "seed": seed + 17}, got)
    H.section("no residue for unsampled generators", "many generator calls (run to exhaustion) under sampling: afterwards the tracer keeps no per-call state; every logged generator trace has its full yield type", "rates 2, 3; 400 calls")
    for rate in (2, 3):
        col = Collector()
        with trace_calls(col, 0, only_progs, rate):
            tracer = sys.getprofile()
            seed_tracer(tracer, seed + 5)
            for i in range(400):
                list(progs.gen_mixed())
        residue = len(tracer.traces)
        short_yields = [t for t in col.traces if t.func is progs.gen_mixed and not spec_c.tyeq(t.yield_type, __import__("typing").Union[int, str])]
        # traces picked up mid-life (recorded known finding) may have seen fewer yields: only count traces that started at the call
        if residue == 0:
            H.ok("gen-residue-rate=%d" % rate, sample={"rate": rate, "logged": len(col.traces), "residue": residue})
        else:
            H.violation("monkeytype.tracing:CallTracer.handle_call", "generator-residue:rate=%d:%d" % (rate, residue), "unsampled generator calls leave per-call state in the tracer",
                        {"rate": rate, "calls": 400}, {"residue": residue})
    H.section("generator first sampled mid-life", "seeds of the sampling RNG such that the draw at a generator's start is non-zero and a later one is zero; the body rebinds its parameter between yields", "rate 2, first matching seeds")
    found = 0
    for s in range(200):
        rng = random.Random(s)
        d = [rng.randrange(2) for _ in range(3)]
        if d[0] != 0 and (d[1] == 0 or d[2] == 0):
            col = Collector()
            with trace_calls(col, 0, only_progs, 2):
                tracer = sys.getprofile()
                seed_tracer(tracer, s)
                list(progs.gen_rebind(7))
            found += 1
            bad = [t for t in col.traces if t.func is progs.gen_rebind and not spec_c.tyeq(t.arg_types.get("a"), int)]
            if bad:
                H.violation("monkeytype.tracing:CallTracer.handle_call", "C18-midlife-pickup|gen_rebind|a-is-not-int",
                            "generator skipped by sampling at its start is picked up at a later resumption with its current locals as argument types",
                            {"seed": s, "draws": d, "call": "gen_rebind(7)", "rate": 2}, [describe(t) for t in bad], "no trace, or a trace with a: int")
            else:
                H.ok("seed=%d" % s, sample={"seed": s, "logged": [describe(t) for t in col.traces]})
            if found >= (3 if ctx["tier"] == "quick" else 30):
                break
    H.section("generator sampled at its start", "seeds such that the draw at a generator's start is zero and later draws are mixed; the body rebinds its parameter between yields: exactly one trace, with the argument types of the call and every yield",
              "rate 2, first matching seeds")
    found = 0
    for s in range(200):
        rng = random.Random(s)
        d = [rng.randrange(2) for _ in range(3)]
        if d[0] == 0 and d[1] != d[2]:
            col = Collector()
            with trace_calls(col, 0, only_progs, 2):
                tracer = sys.getprofile()
                seed_tracer(tracer, s)
                list(progs.gen_rebind(7))
            found += 1
            good = len(col.traces) == 1 and spec_c.tyeq(col.traces[0].arg_types.get("a"), int) and spec_c.tyeq(col.traces[0].yield_type, int) and len(tracer.traces) == 0
            if good:
                H.ok("start-sampled-seed=%d" % s, sample={"seed": s, "draws": d})
            else:
                H.violation("monkeytype.tracing:CallTracer.handle_call", "start-sampled:%s" % ([describe(t) for t in col.traces],), "a generator sampled at its start is not described as without sampling",
                            {"seed": s, "draws": d, "call": "gen_rebind(7)", "rate": 2}, [describe(t) for t in col.traces], "one trace: a: int, yields int")
            if found >= (3 if ctx["tier"] == "quick" else 30):
                break
    H.section("the program's random generator", "a seeded program run under sampling: the state of the module-level generator after the block equals the state of an untraced run; re-seeding it inside the block does not make the sampled subset repeat",
              "rates 2, 10; 500 calls")
    for rate in (2, 10):
        random.seed(seed + 9)
        for i in range(500):
            progs.ret_value(i)
        want = random.getstate()
        random.seed(seed + 9)
        col = Collector()
        with trace_calls(col, 0, only_progs, rate):
            for i in range(500):
                progs.ret_value(i)
        got = random.getstate()
        if got == want:
            H.ok("program-rng:rate=%d" % rate, sample={"rate": rate, "logged": len(col.traces)})
        else:
            H.violation("monkeytype.tracing:CallTracer.handle_call", "program-rng-consumed:rate=%d" % rate, "sampling draws from the traced program's random generator: a seeded program computes something else under tracing",
                        {"rate": rate, "calls": 500, "seed": seed + 9}, "state differs", "state of the untraced run")
    H.section("nested tracing blocks", "a block with the rate unset inside a sampled block (and the reverse): each block's own rate decides", "outer 3 / inner None; outer None / inner 3; 600 calls")
    for outer, inner in ((3, None), (None, 3), (100, 1)):
        c_out, c_in = Collector(), Collector()
        m = 600
        with trace_calls(c_out, 0, only_progs, outer):
            seed_tracer(sys.getprofile(), seed + 3)
            with trace_calls(c_in, 0, only_progs, inner):
                seed_tracer(sys.getprofile(), seed + 4)
                for i in range(m):
                    progs.ret_value(i)
        p = 1.0 if inner in (None, 1) else 1.0 / inner
        sigma = math.sqrt(m * p * (1 - p))
        if abs(len(c_in.traces) - m * p) <= 5 * sigma + 1e-9 and len(c_out.traces) == 0:
            H.ok("nested:%s/%s" % (outer, inner), sample={"outer": outer, "inner": inner, "inner_logged": len(c_in.traces)})
        else:
            H.violation("monkeytype.tracing:trace_calls", "nested:%s/%s:inner=%d:outer=%d" % (outer, inner, len(c_in.traces), len(c_out.traces)),
                        "nested tracing blocks: the inner block's own sampling rate does not decide what it traces", {"outer_rate": outer, "inner_rate": inner, "calls": m},
                        {"inner_logged": len(c_in.traces), "outer_logged": len(c_out.traces)}, {"inner_logged": "about %d" % int(m * p), "outer_logged": 0})
    return H.result()


def replay(rp, ctx):
    return {"note": "re-run ./check C18 (deterministic seeds)", "replay": rp}
