"""C14 bounded companion: stub content depends only on the set of traces - permutations, duplications, batch splits of one
trace multiset through real sqlite stores, stub generation in separate interpreters with different PYTHONHASHSEED."""
import ast
import importlib
import itertools
import os
import random
import subprocess
import sys

from monkeytype.encoding import CallTraceRow
from monkeytype.tracing import CallTrace
from monkeytype.typing import get_type
from runtime.fixgen import Fixture
from runtime.harness import Harness


def canon(text):
    """Stub text with the members of every Union[...] / Optional[...] subscript sorted (equality up to the order of union members)."""
    try:
        tree = ast.parse(text)
    except SyntaxError:
        return text

    class T(ast.NodeTransformer):
        def visit_Subscript(self, node):
            self.generic_visit(node)
            base = ast.unparse(node.value)
            if base.split(".")[-1] in ("Union",) and isinstance(node.slice, ast.Tuple):
                node.slice.elts = sorted(node.slice.elts, key=ast.unparse)
            return node
    return ast.unparse(T().visit(tree))


def gen_stub_subprocess(fx, module, hashseed, extra=()):
    env = dict(os.environ)
    env["PYTHONHASHSEED"] = str(hashseed)
    env["PYTHONPATH"] = os.pathsep.join([fx.dir] + [p for p in sys.path if p])
    p = subprocess.run([sys.executable, "-m", "monkeytype", "-c", "%s_cfg:CONFIG" % fx.name] + list(extra) + ["stub", module], env=env, capture_output=True, text=True, cwd=fx.dir, timeout=120)
    return p.returncode, p.stdout, p.stderr


def run(ctx):
    H = Harness(ctx)
    rnd = random.Random(ctx["seed"])
    thorough = ctx["tier"] == "thorough"
    for k in (0, 3):
        fx = Fixture("fxc14k%d" % k, k=k)
        try:
            m = fx.module()
            M = fx.name + ".mod"
            vals_f = [1, "s", None, [1], ["s"], {"a": 1}, {"a": 1, "b": "x"}, {"b": 2.5}, (1, "s"), m.Widget(), m.Gadget()]
            traces = [CallTrace(m.f, {"a": get_type(v, k), "b": get_type(w, k)}, get_type(v, k)) for v, w in zip(vals_f, reversed(vals_f))]
            traces += [CallTrace(m.g, {"w": get_type(v, k)}, get_type([v], k)) for v in vals_f[:6]]
            traces += [CallTrace(m.gen, {"n": int}, None, get_type(v, k)) for v in vals_f[:5]]
            traces += [CallTrace(m.p1, {"d": get_type({"a": 1}, k)}, int), CallTrace(m.p2, {"d": get_type({"b": "x", "c": 1}, k)}, int)]
            traces += [CallTrace(m.Widget.method, {"self": m.Widget, "n": get_type(v, k)}, int) for v in (1, "s", {"a": 1})]
            H.section("order / duplication / batch split / hash seed (k=%d)" % k, "one multiset of %d traces over 4 functions written in several orders, with duplicates, split into batches over two connections; "
                      "`stub` run in fresh interpreters with different PYTHONHASHSEED, default rewriter and --disable-type-rewriting: identical stub up to union member order" % len(traces),
                      "%d arrangements x 2 hash seeds x 2 rewriter settings" % (3 if not thorough else 10))
            ref = {}
            for ai in range(3 if not thorough else 10):
                order = list(traces)
                rnd.shuffle(order)
                if ai % 2:
                    order += rnd.sample(order, 5)
                fx.reset_db()
                stores = [fx.store(), fx.store()]
                i = 0
                while i < len(order):
                    n = rnd.randint(1, 6)
                    stores[rnd.randrange(2)].add(order[i:i + n])
                    i += n
                for s in stores:
                    s.conn.close()
                for extra in ((), ("--disable-type-rewriting",)):
                    for hs in ((1, 12345) if not thorough else (0, 1, 7, 12345)):
                        rc, out, err = gen_stub_subprocess(fx, M, hs, extra)
                        key = "k=%d|arr=%d|seed=%d|%s" % (k, ai, hs, "norw" if extra else "rw")
                        if rc != 0:
                            H.violation("monkeytype.cli:get_stub", "stub-fails:%s:%s" % (key, rc), "stub generation fails", {"arrangement": ai, "hashseed": hs}, err[-500:])
                            continue
                        c = canon(out)
                        r = ref.setdefault(extra, c)
                        if c == r:
                            H.ok(key, sample={"k": k, "arrangement": ai, "hashseed": hs, "stub_head": out[:120]})
                        else:
                            import difflib
                            d = "\n".join(list(difflib.unified_diff(r.splitlines(), c.splitlines(), lineterm=""))[:14])
                            collide = "TypedDict__RENAME_ME__" in d
                            H.violation("monkeytype.stubs:ModuleStub.render", ("C14-typeddict-name-collision|k=%d" % k) if collide else "order-dependent:%s" % key,
                                        "the stub depends on the order / batching of the rows or on the hash seed" + (" (generated TypedDict classes with the same name are emitted in trace order)" if collide else ""),
                                        {"k": k, "arrangement": ai, "hashseed": hs, "rewriting": not extra}, d)
        finally:
            fx.close()
    # ---- stub generation through the API from permutations of equal traces (union members arrive in different orders)
    from monkeytype.stubs import build_module_stubs_from_traces
    from monkeytype.typing import DEFAULT_REWRITER, NoOpRewriter
    from typing import Tuple
    fx = Fixture("fxc14api", k=0)
    try:
        m = fx.module()
        top = importlib.import_module(fx.name)
        sub = importlib.import_module(fx.name + ".sub")
        H.section("permutations through the API", "generator traces that are equal as CallTraces but whose yield unions were built in different orders (6 homogeneous tuple types; classes of a package and of its sub-package), "
                  "all orders of the trace list, default and no rewriter, k in {0,3}: identical stub up to union member order", "2 yield sets x 2 orders x 2 rewriters x 2 k")
        DRIVER = (
            "import sys, importlib\n"
            "from typing import Tuple\n"
            "from monkeytype.tracing import CallTrace\n"
            "from monkeytype.stubs import build_module_stubs_from_traces\n"
            "from monkeytype.typing import DEFAULT_REWRITER, NoOpRewriter\n"
            "name, yname, order, lst_order, k, rw = sys.argv[1], sys.argv[2], int(sys.argv[3]), int(sys.argv[4]), int(sys.argv[5]), sys.argv[6]\n"
            "m = importlib.import_module(name + '.mod'); top = importlib.import_module(name); sub = importlib.import_module(name + '.sub')\n"
            "ys = {'tuples': [Tuple[int], Tuple[str, str], Tuple[float], Tuple[bytes], Tuple[bool], Tuple[int, int], Tuple[str]], 'pkg-and-subpkg': [top.Top, sub.Gadget]}[yname]\n"
            "if order: ys = list(reversed(ys))\n"
            "def mk(o):\n"
            "    t = CallTrace(m.gen, {'n': int}, None)\n"
            "    for y in o: t.add_yield_type(y)\n"
            "    return t\n"
            "t1, t2 = mk(ys), mk(list(reversed(ys)))\n"
            "lst = [t1, t2] if not lst_order else [t2, t1]\n"
            "print(build_module_stubs_from_traces(lst, k, rewriter=DEFAULT_REWRITER if rw == 'rw' else NoOpRewriter())[name + '.mod'].render())\n")
        # typing caches generic aliases by *equal* arguments, so member order is lost inside one process: one fresh interpreter per arrangement
        for yname in ("tuples", "pkg-and-subpkg"):
            for k in (0, 3):
                for rw in ("rw", "norw"):
                    outs = []
                    for order in (0, 1):
                        for lst_order in (0, 1):
                            env = dict(os.environ, PYTHONHASHSEED=str(order * 2 + lst_order + 1), PYTHONPATH=os.pathsep.join([fx.dir] + [p for p in sys.path if p]))
                            p_ = subprocess.run([sys.executable, "-c", DRIVER, fx.name, yname, str(order), str(lst_order), str(k), rw], env=env, capture_output=True, text=True, cwd=fx.dir, timeout=120)
                            outs.append(canon(p_.stdout) if p_.returncode == 0 else "ERROR " + p_.stderr[-300:])
                    key = "api|%s|k=%d|%s" % (yname, k, rw)
                    if len(set(outs)) == 1 and not outs[0].startswith("ERROR"):
                        H.ok(key, sample={"yield_types": yname, "k": k, "stub": outs[0][-160:]})
                    else:
                        H.violation("monkeytype.stubs:build_module_stubs_from_traces", "api-order-dependent:%s" % key, "the stub depends on the order in which equal traces / union members arrive",
                                    {"yield_types": yname, "k": k, "rewriter": rw}, sorted(set(o[-200:] for o in outs)))
        # ---- two functions with the same qualified name in different modules: every arrival order of their traces gives the same two stubs
        H.section("same qualname in two modules", "two modules each defining `total(x)` (and a class K with method `run`), 3 + 3 traces with different argument types, every permutation "
                  "of the 6 traces through build_module_stubs_from_traces: both module stubs are the same for all orders", "720 permutations")
        import itertools
        from monkeytype.stubs import build_module_stubs_from_traces
        for mn in ("c14same_a", "c14same_b"):
            with open(os.path.join(fx.dir, mn + ".py"), "w") as f_:
                f_.write("def total(x):\n    return x\n\ndef Total(x):\n    return x\n\nclass K:\n    def run(self, y):\n        return y\n\nclass k:\n    def run(self, y):\n        return y\n")
        importlib.invalidate_caches()
        ma, mb = importlib.import_module("c14same_a"), importlib.import_module("c14same_b")
        trs = [CallTrace(ma.total, {"x": int}, int), CallTrace(ma.total, {"x": str}, str), CallTrace(ma.K.run, {"y": bytes}, bytes),
               CallTrace(mb.total, {"x": float}, float), CallTrace(mb.total, {"x": type(None)}, type(None)), CallTrace(mb.K.run, {"y": bool}, bool)]
        seen = {}
        for perm in itertools.permutations(trs):
            st = build_module_stubs_from_traces(list(perm), 0)
            seen.setdefault((canon(st["c14same_a"].render()), canon(st["c14same_b"].render())), perm)
        if len(seen) == 1:
            H.ok("same-qualname-two-modules", sample={"stub_a": list(seen)[0][0][-120:], "stub_b": list(seen)[0][1][-120:]})
        else:
            H.violation("monkeytype.stubs:build_module_stubs_from_traces", "order-dependent:same-qualname-two-modules:%d" % len(seen),
                        "the stubs of two modules that define a function of the same qualified name depend on the order in which their traces arrive",
                        {"traces": [repr(t) for t in trs]}, [list(k_) for k_ in list(seen)[:3]])
        # ---- names that differ only in case (functions total / Total, classes K / k) in one module
        H.section("names differing only in case", "functions `total` / `Total` and classes `K` / `k` of one module, every arrival order of their 5 traces: one stub", "120 permutations")
        trs = [CallTrace(ma.total, {"x": int}, int), CallTrace(ma.Total, {"x": str}, str), CallTrace(ma.K.run, {"y": bytes}, bytes), CallTrace(ma.k.run, {"y": bool}, bool),
               CallTrace(ma.Total, {"x": float}, float)]
        seen = {}
        for perm in itertools.permutations(trs):
            seen.setdefault(canon(build_module_stubs_from_traces(list(perm), 0)["c14same_a"].render()), perm)
        if len(seen) == 1:
            H.ok("case-only-names", sample={"stub": list(seen)[0][-160:]})
        else:
            H.violation("monkeytype.stubs:ModuleStub.render", "order-dependent:case-only-names:%d" % len(seen), "the stub of a module with names differing only in case depends on the order in which traces arrive",
                        {"traces": [repr(t) for t in trs]}, [k_[-200:] for k_ in list(seen)[:3]])
        # ---- a large union of classes with two common bases in different MRO positions: the rewriter walks the first member's MRO only,
        #      and which member is first follows the class objects' addresses (set iteration): one fresh interpreter per memory layout
        H.section("large union, several common bases", "six classes, three `(Loggable, Serializable)` and three `(Serializable, Loggable)`, traced once each at one position; default rewriter; "
                  "fresh interpreters that allocate 0..7 x 7 unrelated classes first (different addresses, hence set order): one stub", "8 interpreters")
        with open(os.path.join(fx.dir, "c14mro.py"), "w") as f_:
            f_.write("class Loggable:\n    pass\n\nclass Serializable:\n    pass\n\n" + "".join("class A%d(Loggable, Serializable):\n    pass\n\n" % i for i in range(3))
                     + "".join("class B%d(Serializable, Loggable):\n    pass\n\n" % i for i in range(3)) + "def save(x):\n    return None\n")
        MRO_DRIVER = ("import sys\npad = int(sys.argv[1])\njunk = [type('J%d' % i, (), {}) for i in range(pad * 7)]\nimport c14mro as mm\n"
                      "from monkeytype.tracing import CallTrace\nfrom monkeytype.stubs import build_module_stubs_from_traces\nfrom monkeytype.typing import DEFAULT_REWRITER\n"
                      "trs = [CallTrace(mm.save, {'x': getattr(mm, n)}, type(None)) for n in ('A0', 'B0', 'A1', 'B1', 'A2', 'B2')]\n"
                      "print(build_module_stubs_from_traces(trs, 0, rewriter=DEFAULT_REWRITER)['c14mro'].render())\n")
        outs = []
        for pad in range(8):
            env = dict(os.environ, PYTHONHASHSEED="1", PYTHONPATH=os.pathsep.join([fx.dir] + [p for p in sys.path if p]))
            p_ = subprocess.run([sys.executable, "-c", MRO_DRIVER, str(pad)], env=env, capture_output=True, text=True, cwd=fx.dir, timeout=120)
            outs.append(canon(p_.stdout) if p_.returncode == 0 else "ERROR " + p_.stderr[-300:])
        if len(set(outs)) == 1 and not outs[0].startswith("ERROR"):
            H.ok("large-union-mro", sample={"stub": outs[0][-120:]})
        elif any(o.startswith("ERROR") for o in outs):
            H.violation("monkeytype.typing:RewriteLargeUnion.rewrite_Union", "large-union-mro-raises", "stub generation fails", {}, [o for o in outs if o.startswith("ERROR")][:2])
        else:
            H.violation("monkeytype.typing:RewriteLargeUnion.rewrite_Union", "C14-large-union-first-member-mro",
                        "RewriteLargeUnion picks the first common ancestor in the MRO of the union's *first* member: with several common bases the annotation depends on the memory layout of the process / the history of the store",
                        {"classes": "A0-2(Loggable, Serializable), B0-2(Serializable, Loggable)"}, sorted(set(o[-60:] for o in outs)))
        for mn in ("c14same_a", "c14same_b"):
            sys.modules.pop(mn, None)
        # ---- raw duplicates beyond the query limit must not crowd out distinct traces
        H.section("duplicates vs limit", "the same distinct traces stored once vs. with one of them recorded many times; `stub --limit 3`", "2 stores")
        t_int, t_str = CallTrace(m.f, {"a": int}, int), CallTrace(m.f, {"a": str}, int)
        outs = {}
        for label, seq in (("plain", [[t_int, t_str]]), ("dups-after", [[t_str]] + [[t_int]] * 8), ("dups-before", [[t_int]] * 8 + [[t_str]])):
            fx.reset_db()
            st = fx.store()
            for batch in seq:
                st.add(batch)
            st.conn.close()
            rc, out, err = gen_stub_subprocess(fx, fx.name + ".mod", 1, ("--limit", "3"))
            outs[label] = canon(out)
        if outs["plain"] == outs["dups-after"] == outs["dups-before"] and outs["plain"].strip():
            H.ok("dups-vs-limit", sample={"stub": outs["plain"][-120:]})
        else:
            H.violation("monkeytype.db.sqlite:make_query", "duplicates-consume-limit", "duplicated rows change the stub when a query limit is set", {"limit": 3}, outs)
    finally:
        fx.close()
    return H.result()


def replay(rp, ctx):
    return {"note": "re-run ./check C14 with the same VERIF_SEED", "replay": rp}
