"""C14 bounded companion: stub content depends only on the set of traces - permutations, duplications, batch splits of one
trace multiset through real sqlite stores, stub generation in separate interpreters with different PYTHONHASHSEED."""
import ast
import itertools
import os
import random
import subprocess
import sys

from monkeytype.encoding import CallTraceRow
from monkeytype.tracing import CallTrace
from monkeytype.typing import get_type
from runtime.fixgen import Fixture
from runtime.harness import Harness


def canon(text):
    """Stub text with the members of every Union[...] / Optional[...] subscript sorted (equality up to the order of union members)."""
    try:
        tree = ast.parse(text)
    except SyntaxError:
        return text

    class T(ast.NodeTransformer):
        def visit_Subscript(self, node):
            self.generic_visit(node)
            base = ast.unparse(node.value)
            if base.split(".")[-1] in ("Union",) and isinstance(node.slice, ast.Tuple):
                node.slice.elts = sorted(node.slice.elts, key=ast.unparse)
            return node
    return ast.unparse(T().visit(tree))


def gen_stub_subprocess(fx, module, hashseed, extra=()):
    env = dict(os.environ)
    env["PYTHONHASHSEED"] = str(hashseed)
    env["PYTHONPATH"] = os.pathsep.join([fx.dir] + [p for p in sys.path if p])
    p = subprocess.run([sys.executable, "-m", "monkeytype", "-c", "%s_cfg:CONFIG" % fx.name] + list(extra) + ["stub", module], env=env, capture_output=True, text=True, cwd=fx.dir, timeout=120)
    return p.returncode, p.stdout, p.stderr


def run(ctx):
    H = Harness(ctx)
    rnd = random.Random(ctx["seed"])
    thorough = ctx["tier"] == "thorough"
    for k in (0, 3):
        fx = Fixture("fxc14k%d" % k, k=k)
        try:
            m = fx.module()
            M = fx.name + ".mod"
            vals_f = [1, "s", None, [1], ["s"], {"a": 1}, {"a": 1, "b": "x"}, {"b": 2.5}, (1, "s"), m.Widget(), m.Gadget()]
            traces = [CallTrace(m.f, {"a": get_type(v, k), "b": get_type(w, k)}, get_type(v, k)) for v, w in zip(vals_f, reversed(vals_f))]
            traces += [CallTrace(m.g, {"w": get_type(v, k)}, get_type([v], k)) for v in vals_f[:6]]
            traces += [CallTrace(m.gen, {"n": int}, None, get_type(v, k)) for v in vals_f[:5]]
            traces += [CallTrace(m.p1, {"d": get_type({"a": 1}, k)}, int), CallTrace(m.p2, {"d": get_type({"b": "x", "c": 1}, k)}, int)]
            traces += [CallTrace(m.Widget.method, {"self": m.Widget, "n": get_type(v, k)}, int) for v in (1, "s", {"a": 1})]
            H.section("order / duplication / batch split / hash seed (k=%d)" % k, "one multiset of %d traces over 4 functions written in several orders, with duplicates, split into batches over two connections; "
                      "`stub` run in fresh interpreters with different PYTHONHASHSEED, default rewriter and --disable-type-rewriting: identical stub up to union member order" % len(traces),
                      "%d arrangements x 2 hash seeds x 2 rewriter settings" % (3 if not thorough else 10))
            ref = {}
            for ai in range(3 if not thorough else 10):
                order = list(traces)
                rnd.shuffle(order)
                if ai % 2:
                    order += rnd.sample(order, 5)
                fx.reset_db()
                stores = [fx.store(), fx.store()]
                i = 0
                while i < len(order):
                    n = rnd.randint(1, 6)
                    stores[rnd.randrange(2)].add(order[i:i + n])
                    i += n
                for s in stores:
                    s.conn.close()
                for extra in ((), ("--disable-type-rewriting",)):
                    for hs in ((1, 12345) if not thorough else (0, 1, 7, 12345)):
                        rc, out, err = gen_stub_subprocess(fx, M, hs, extra)
                        key = "k=%d|arr=%d|seed=%d|%s" % (k, ai, hs, "norw" if extra else "rw")
                        if rc != 0:
                            H.violation("monkeytype.cli:get_stub", "stub-fails:%s:%s" % (key, rc), "stub generation fails", {"arrangement": ai, "hashseed": hs}, err[-500:])
                            continue
                        c = canon(out)
                        r = ref.setdefault(extra, c)
                        if c == r:
                            H.ok(key, sample={"k": k, "arrangement": ai, "hashseed": hs, "stub_head": out[:120]})
                        else:
                            import difflib
                            d = "\n".join(list(difflib.unified_diff(r.splitlines(), c.splitlines(), lineterm=""))[:14])
                            collide = "TypedDict__RENAME_ME__" in d
                            H.violation("monkeytype.stubs:ModuleStub.render", ("C14-typeddict-name-collision|k=%d" % k) if collide else "order-dependent:%s" % key,
                                        "the stub depends on the order / batching of the rows or on the hash seed" + (" (generated TypedDict classes with the same name are emitted in trace order)" if collide else ""),
                                        {"k": k, "arrangement": ai, "hashseed": hs, "rewriting": not extra}, d)
        finally:
            fx.close()
    return H.result()


def replay(rp, ctx):
    return {"note": "re-run ./check C14 with the same VERIF_SEED", "replay": rp}
