"""C07 bounded companion: shipped rewriters over enumerated + inferred types: no exception, widening relative to the
observed values, trigger clauses."""
import typing
import random
from typing import Any, Dict, List, Union

from monkeytype.typing import (DEFAULT_REWRITER, ChainedRewriter, NoOpRewriter, RemoveEmptyContainers, RewriteConfigDict, RewriteGenerator,
                               RewriteLargeUnion, RewriteMostSpecificCommonBase, RewriteAnonymousTypedDictToDict, TypeRewriter, get_type)
from runtime import corpus, spec_c, infer
from runtime.harness import Harness


def rewriters():
    return {"TypeRewriter": TypeRewriter(), "RemoveEmptyContainers": RemoveEmptyContainers(), "RewriteConfigDict": RewriteConfigDict(),
            "RewriteLargeUnion": RewriteLargeUnion(), "RewriteLargeUnion(2)": RewriteLargeUnion(2), "RewriteAnonymousTypedDictToDict": RewriteAnonymousTypedDictToDict(),
            "RewriteGenerator": RewriteGenerator(), "RewriteMostSpecificCommonBase": RewriteMostSpecificCommonBase(), "NoOpRewriter": NoOpRewriter(),
            "DEFAULT_REWRITER": DEFAULT_REWRITER}


def fires(name, t):
    """Documented trigger present somewhere in t (conservative: used only for 'unchanged unless trigger')."""
    k = spec_c.kind
    def nodes(x):
        yield x
        if k(x) in ("Union", "List", "Set", "Dict", "DefaultDict", "Tuple", "TupleVar", "Type", "Iterator", "Generator"):
            for a in x.__args__:
                if a is not Ellipsis:
                    yield from nodes(a)
        if k(x) == "TD":
            from monkeytype.typing import field_annotations
            r, o = field_annotations(x)
            for a in list(r.values()) + list(o.values()):
                yield from nodes(a)
    def empty(x):
        a = getattr(x, "__args__", ())
        return bool(a) and all(e is Any for e in a)
    for n in nodes(t):
        kk = k(n)
        if name.startswith("RemoveEmptyContainers") and kk == "Union":
            ms = n.__args__
            if any(empty(m) and any(getattr(o, "__origin__", 1) is getattr(m, "__origin__", 2) and not empty(o) for o in ms) for m in ms):
                return True
        if name.startswith("RewriteLargeUnion") and kk == "Union":
            lim = 2 if "(2)" in name else 5
            if len(n.__args__) > lim:
                return True
        if name == "RewriteConfigDict" and kk == "Union" and all(k(m) == "Dict" for m in n.__args__) and len({m.__args__[0] for m in n.__args__}) == 1:
            return True
        if name == "RewriteMostSpecificCommonBase" and kk == "Union" and all(isinstance(m, type) for m in n.__args__):
            return True
        if name == "RewriteGenerator" and kk == "Generator" and n.__args__[1] is type(None) and n.__args__[2] is type(None):
            return True
        if name == "RewriteAnonymousTypedDictToDict" and kk == "TD":
            return True
    return False


def run(ctx):
    H = Harness(ctx)
    rnd = random.Random(ctx["seed"])
    tier = ctx["tier"]
    RW = rewriters()
    H.section("rewriters on inferred types with their source values", "infer(multiset, k) for value multisets x k, each shipped rewriter and the default chain: no exception, every source value still a member", "multisets<=4, k in {0,2,10}")
    ms = infer.value_multisets(tier, rnd)
    for vals in ms:
        for k in (0, 2, 10):
            t = infer.infer(vals, k)
            for name, rw in RW.items():
                key = "%s|%s|%s" % (name, infer.short(vals), k)
                try:
                    r = rw.rewrite(t)
                except Exception as e:
                    H.violation("monkeytype.typing:%s" % name, "rewrite-raises:%s:%s:%s" % (name, infer.short(t), type(e).__name__), "%s.rewrite raises %r" % (name, e),
                                {"type": repr(t), "values": infer.short(vals, 300), "k": k}, repr(e))
                    continue
                bad = [v for v in vals if not spec_c.mem(v, r)]
                if bad:
                    H.violation("monkeytype.typing:%s" % name, "narrowed:%s:%s:%s" % (name, infer.short(t), infer.short(r)), "%s narrows: an observed value is no longer admitted" % name,
                                {"type": repr(t), "values": infer.short(vals, 300), "k": k}, {"result": repr(r), "rejected": infer.short(bad)})
                elif not fires(name, t) and name not in ("DEFAULT_REWRITER", "TypeRewriter", "NoOpRewriter") and not spec_c.tyeq(r, t):
                    H.violation("monkeytype.typing:%s" % name, "fired-without-trigger:%s:%s:%s" % (name, infer.short(t), infer.short(r)),
                                "%s changed a type whose documented trigger is absent" % name, {"type": repr(t)}, {"result": repr(r)})
                else:
                    H.ok(key, nontrivial=not spec_c.tyeq(r, t), sample={"rewriter": name, "type": infer.short(t), "result": infer.short(r)})
    H.section("class named like a handler", "a user class whose __name__ equals a 'rewrite_' suffix (Union, Generator) inside a container, default chain and RewriteGenerator", "2 classes")
    for nm, rw in (("Union", DEFAULT_REWRITER), ("Generator", RewriteGenerator())):
        cls = type(nm, (), {})
        try:
            rw.rewrite(List[cls])
            H.ok("name-dispatch:" + nm, sample={"class": nm, "result": "no exception"})
        except AttributeError as e:
            H.violation("monkeytype.typing:GenericTypeRewriter.rewrite", "C07-name-dispatch|AttributeError", "a plain class named like a handler suffix is routed to that handler and the rewriter raises",
                        {"type": "List[<class named %s>]" % nm}, repr(e))
    H.section("same-named classes, one long-lived rewriter", "factory-made classes that share module and qualified name but derive from unrelated bases, rewritten one after the other by the same rewriter instances: "
              "no narrowing (instances of every member stay admitted)", "2 factories x 2 orders x all rewriters")

    def make_handler(base):
        class Handler(base):
            pass
        return Handler
    class ShapeB: pass
    class EventB: pass
    class CircleB(ShapeB): pass
    class SquareB(ShapeB): pass
    class ClickB(EventB): pass
    for order in (0, 1):
        RW2 = rewriters()
        h_shape, h_event = make_handler(ShapeB), make_handler(EventB)
        steps = [(Union[h_shape, CircleB], [h_shape(), CircleB()]), (Union[h_event, SquareB], [h_event(), SquareB()]), (Union[h_event, ClickB], [h_event(), ClickB()]), (Union[h_shape, ClickB], [h_shape(), ClickB()])]
        if order:
            steps = steps[::-1]
        for name, rw in RW2.items():
            for si, (t, wit) in enumerate(steps):
                key = "same-named|%s|order=%d|step=%d" % (name, order, si)
                try:
                    r = rw.rewrite(t)
                    bad = [v for v in wit if not spec_c.mem(v, r)]
                except Exception as e:      # noqa
                    H.violation("monkeytype.typing:%s" % name, "rewrite-raises:%s:%s" % (key, type(e).__name__), "%s.rewrite raises %r" % (name, e), {"type": repr(t)}, repr(e))
                    continue
                if bad:
                    H.violation("monkeytype.typing:%s" % name, "narrowed:%s" % key, "%s narrows a union of same-named classes after rewriting another one" % name, {"type": repr(t), "order": order, "step": si},
                                {"result": repr(r), "rejected": infer.short(bad)})
                else:
                    H.ok(key, nontrivial=not spec_c.tyeq(r, t))
    H.section("rewriters on enumerated types", "TYPES(2) over the fixture hierarchy incl. Tuple[()], Tuple[T, ...], Type, Callable, Iterator, Generator, unions of 2..7 members: no exception; unchanged unless trigger; "
              "witness values of the input (enumerated inhabitants) stay members", "depth<=2")
    inhabitants = corpus.vals(1, 2)
    for t in corpus.types_corpus(2 if tier == "thorough" else 1):
        wit = []
        try:
            wit = [v for v in inhabitants if spec_c.mem(v, t)][:12]
        except ValueError:
            pass
        for name, rw in RW.items():
            try:
                r = rw.rewrite(t)
            except Exception as e:
                H.violation("monkeytype.typing:%s" % name, "rewrite-raises:%s:%s:%s" % (name, infer.short(t), type(e).__name__), "%s.rewrite raises %r" % (name, e), {"type": repr(t)}, repr(e))
                continue
            try:
                if r is not Ellipsis:
                    typing.List[r]          # the result must itself be usable as a type (typing.Generic / typing.Protocol, for one, are not)
            except TypeError as e:
                H.violation("monkeytype.typing:%s" % name, "result-not-a-type:%s:%s:%s" % (name, infer.short(t), infer.short(r)), "%s returns something that is not valid as a type argument: %r" % (name, e),
                            {"type": repr(t)}, {"result": repr(r)})
                continue
            if name.startswith("RemoveEmptyContainers") or name == "DEFAULT_REWRITER":
                # C[Any] stands for an observed *empty* container: witnesses of a dropped C[Any] that are non-empty are not observed values
                wit2 = [v for v in wit if not (isinstance(v, (list, set, dict, tuple)) and len(v) > 0)] if fires("RemoveEmptyContainers", t) else wit
            else:
                wit2 = wit
            try:
                bad = [v for v in wit2 if not spec_c.mem(v, r)]
            except ValueError:
                bad = []
            if bad:
                H.violation("monkeytype.typing:%s" % name, "narrowed:%s:%s:%s" % (name, infer.short(t), infer.short(r)), "%s narrows" % name, {"type": repr(t)}, {"result": repr(r), "rejected": infer.short(bad)})
            elif not fires(name, t) and name not in ("DEFAULT_REWRITER", "TypeRewriter", "NoOpRewriter") and not spec_c.tyeq(r, t):
                H.violation("monkeytype.typing:%s" % name, "fired-without-trigger:%s:%s:%s" % (name, infer.short(t), infer.short(r)), "%s changed a type whose trigger is absent" % name, {"type": repr(t)}, {"result": repr(r)})
            else:
                H.ok("%s|%s" % (name, infer.short(t)), nontrivial=not spec_c.tyeq(r, t), sample={"rewriter": name, "type": infer.short(t), "result": infer.short(r)})
    return H.result()


def replay(rp, ctx):
    return {"note": "deterministic corpus: re-run ./check C07", "replay": rp}
