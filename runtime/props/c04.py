"""C04 bounded companion: inferred types admit every observed value; merged type independent of order / multiplicity."""
import itertools
import random

from monkeytype.typing import get_type, shrink_types
from runtime import corpus, spec_c, infer
from runtime.harness import Harness


def run(ctx):
    H = Harness(ctx)
    rnd = random.Random(ctx["seed"])
    tier = ctx["tier"]
    ms = infer.value_multisets(tier, rnd)
    ks = corpus.K_LIMITS if tier == "thorough" else [0, 2, 10]
    H.section("mem(v, infer(multiset, k))", "multisets of grammar values (singletons of VALS(2,2), all pairs and sampled triples of a 25-value core, random 2-4 subsets) x k", "size<=4, k in %s" % ks)
    for vals in ms:
        for k in ks:
            try:
                t = infer.infer(vals, k)
            except Exception as e:
                H.violation("monkeytype.typing:shrink_types", "infer-raises:%s:%s:%s" % (infer.short(vals), k, type(e).__name__), "inference raises %r" % e,
                            {"values": infer.short(vals, 400), "k": k}, repr(e))
                continue
            bad = [v for v in vals if not spec_c.mem(v, t)]
            key = "%s|%s" % (infer.short(vals), k)
            if bad:
                H.violation("monkeytype.typing:shrink_types", "not-member:%s:%s" % (key, infer.short(t)), "inferred type does not admit an observed value",
                            {"values": infer.short(vals, 400), "k": k}, {"type": repr(t), "rejected": infer.short(bad)})
            else:
                H.ok(key, nontrivial=len(vals) > 1 or isinstance(vals[0], (list, dict, tuple, set)), sample={"values": infer.short(vals), "k": k, "type": infer.short(t)})
    H.section("order/multiplicity independence", "all permutations and one duplication of the per-value types of multisets of size 2-3", "size<=3")
    small = [m for m in ms if 2 <= len(m) <= 3][: (150 if tier == "quick" else 900)]
    for vals in small:
        for k in (0, 2, 10):
            tys = [get_type(v, k) for v in vals]
            ref = shrink_types(tys, k)
            for perm in itertools.permutations(tys):
                for dup in (list(perm), list(perm) + [perm[0]]):
                    got = shrink_types(dup, k)
                    if not spec_c.tyeq(got, ref):
                        H.violation("monkeytype.typing:shrink_types", "order-dependent:%s:%s" % (infer.short(vals), k), "merged type depends on order / multiplicity",
                                    {"values": infer.short(vals, 400), "k": k, "order": infer.short(dup, 400)}, {"got": repr(got), "reference": repr(ref)})
                    else:
                        H.ok("%s|%s|%s" % (infer.short(vals), k, infer.short(dup)), sample=None)
    # per-value inference followed by merging as stub generation does it (one trace per call, merged by shrink_traced_types)
    from monkeytype.stubs import shrink_traced_types
    from monkeytype.tracing import CallTrace
    H.section("merge over call traces", "one CallTrace per observed value (argument, return, yield position), merged by shrink_traced_types, all orders: every observed value is a member; result independent of trace order",
              "multisets of size 2-3 x k in {0,2,10}")
    def fn(x):
        return x
    dicty = [m for m in ms if 2 <= len(m) <= 3 and sum(1 for v in m if isinstance(v, dict) or (isinstance(v, list) and v and isinstance(v[0], dict))) >= 2]
    for vals in small[: (80 if tier == "quick" else 600)] + dicty[: (120 if tier == "quick" else 1000)]:
        for k in (0, 2, 10):
            refs = None
            for perm in itertools.permutations(vals):
                traces = [CallTrace(fn, {"x": get_type(v, k)}, get_type(v, k), get_type(v, k)) for v in perm]
                args, ret, yld = shrink_traced_types(traces, k)
                got = (args["x"], ret, yld)
                bad = [v for v in vals for t in got if not spec_c.mem(v, t)]
                key = "%s|%s|%s" % (infer.short(vals), k, infer.short(perm))
                if bad:
                    H.violation("monkeytype.stubs:shrink_traced_types", "traces-not-member:%s:%s" % (infer.short(vals), k), "type merged over call traces does not admit an observed value",
                                {"values": infer.short(perm, 400), "k": k}, {"types": [repr(t) for t in got], "rejected": infer.short(bad)})
                    break
                if refs is None:
                    refs = got
                elif not all(spec_c.tyeq(a, b) for a, b in zip(got, refs)):
                    H.violation("monkeytype.stubs:shrink_traced_types", "traces-order-dependent:%s:%s" % (infer.short(vals), k), "type merged over call traces depends on trace order",
                                {"values": infer.short(perm, 400), "k": k}, {"got": [repr(t) for t in got], "reference": [repr(t) for t in refs]})
                    break
                H.ok(key, sample=None)
    # ---- values seen at a yield position travel another way: CallTrace.add_yield_type joins them with a bare Union inside one call
    H.section("values yielded by one generator", "a real generator traced by the real tracer, called once and twice with the same values (dicts of one shape / two shapes, plain values), k in {0, 10}: the merged yield type "
              "equals shrink_types of the per-value types and does not depend on how often the call was seen", "3 value lists x 2 k x {1, 2} calls")
    import sys
    from monkeytype.tracing import CallTracer, CallTraceLogger

    class _Collect(CallTraceLogger):
        def __init__(self):
            self.traces = []

        def log(self, trace):
            self.traces.append(trace)

    def yielder(items):
        for it in items:
            yield it
    for label, items in (("plain", [1, "s", 1]), ("dicts-one-shape", [{"a": 1}, {"a": 2}]), ("dicts-two-shapes", [{"a": 1}, {"a": "x", "b": 2}])):
        for k in (0, 10):
            want = shrink_types([get_type(v, k) for v in items], k)
            got = {}
            for calls in (1, 2):
                col = _Collect()
                tracer = CallTracer(col, k, lambda code: code is yielder.__code__)
                sys.setprofile(tracer)
                try:
                    for _ in range(calls):
                        list(yielder(items))
                finally:
                    sys.setprofile(None)
                got[calls] = shrink_traced_types(col.traces, k)[2]
            key = "yielded|%s|k=%d" % (label, k)
            rejected = [v for v in items for t in got.values() if t is None or not spec_c.mem(v, t)]
            if rejected:
                H.violation("monkeytype.tracing:CallTrace.add_yield_type", "yield-not-member:%s:%d" % (label, k), "merged yield type does not admit a yielded value", {"items": repr(items), "k": k},
                            {"types": {c: repr(t) for c, t in got.items()}, "rejected": repr(rejected)})
            elif not (spec_c.tyeq(got[1], got[2]) and spec_c.tyeq(got[1], want)):
                H.violation("monkeytype.tracing:CallTrace.add_yield_type", "C04-yield-union-of-typeddicts|%s" % label if k > 0 and label.startswith("dicts") else "yield-multiplicity:%s:%d" % (label, k),
                            "the merged yield type depends on how often the same call was seen: within one call yielded TypedDicts are joined by a bare Union (not merged), across calls they are rewritten to Dict",
                            {"items": repr(items), "k": k}, {"one_call": repr(got[1]), "two_calls": repr(got[2]), "per_value_then_merge": repr(want)})
            else:
                H.ok(key, sample={"items": repr(items), "k": k, "type": repr(got[1])})
    return H.result()


def replay(rp, ctx):
    return {"note": "deterministic corpus: re-run ./check C04", "replay": rp}
