"""C04 bounded companion: inferred types admit every observed value; merged type independent of order / multiplicity."""
import itertools
import random

from monkeytype.typing import get_type, shrink_types
from runtime import corpus, spec_c, infer
from runtime.harness import Harness


def run(ctx):
    H = Harness(ctx)
    rnd = random.Random(ctx["seed"])
    tier = ctx["tier"]
    ms = infer.value_multisets(tier, rnd)
    ks = corpus.K_LIMITS if tier == "thorough" else [0, 2, 10]
    H.section("mem(v, infer(multiset, k))", "multisets of grammar values (singletons of VALS(2,2), all pairs and sampled triples of a 25-value core, random 2-4 subsets) x k", "size<=4, k in %s" % ks)
    for vals in ms:
        for k in ks:
            try:
                t = infer.infer(vals, k)
            except Exception as e:
                H.violation("monkeytype.typing:shrink_types", "infer-raises:%s:%s:%s" % (infer.short(vals), k, type(e).__name__), "inference raises %r" % e,
                            {"values": infer.short(vals, 400), "k": k}, repr(e))
                continue
            bad = [v for v in vals if not spec_c.mem(v, t)]
            key = "%s|%s" % (infer.short(vals), k)
            if bad:
                H.violation("monkeytype.typing:shrink_types", "not-member:%s:%s" % (key, infer.short(t)), "inferred type does not admit an observed value",
                            {"values": infer.short(vals, 400), "k": k}, {"type": repr(t), "rejected": infer.short(bad)})
            else:
                H.ok(key, nontrivial=len(vals) > 1 or isinstance(vals[0], (list, dict, tuple, set)), sample={"values": infer.short(vals), "k": k, "type": infer.short(t)})
    H.section("order/multiplicity independence", "all permutations and one duplication of the per-value types of multisets of size 2-3", "size<=3")
    small = [m for m in ms if 2 <= len(m) <= 3][: (150 if tier == "quick" else 900)]
    for vals in small:
        for k in (0, 2, 10):
            tys = [get_type(v, k) for v in vals]
            ref = shrink_types(tys, k)
            for perm in itertools.permutations(tys):
                for dup in (list(perm), list(perm) + [perm[0]]):
                    got = shrink_types(dup, k)
                    if not spec_c.tyeq(got, ref):
                        H.violation("monkeytype.typing:shrink_types", "order-dependent:%s:%s" % (infer.short(vals), k), "merged type depends on order / multiplicity",
                                    {"values": infer.short(vals, 400), "k": k, "order": infer.short(dup, 400)}, {"got": repr(got), "reference": repr(ref)})
                    else:
                        H.ok("%s|%s|%s" % (infer.short(vals), k, infer.short(dup)), sample=None)
    return H.result()


def replay(rp, ctx):
    return {"note": "deterministic corpus: re-run ./check C04", "replay": rp}
