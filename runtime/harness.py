"""Accumulates what a bounded run covered (measured, never constant)."""
import json


class Harness:
    def __init__(self, ctx):
        self.ctx = ctx
        self.evaluations = 0
        self.distinct = set()
        self.violations = []
        self.samples = []
        self.bounded = []
        self.assumptions = []
        self.carved = []
        self.theory_failures = []
        self._section = None

    def section(self, name, rule, bound):
        self._section = {"name": name, "rule": rule, "bound": bound, "evaluations": 0, "distinct_nontrivial": 0, "violations": 0,
                         "label": "bounded (never counted as proved)"}
        self._sec_distinct = set()
        self.bounded.append(self._section)

    def ok(self, case_key, nontrivial=True, sample=None):
        self.evaluations += 1
        self._section["evaluations"] += 1
        if nontrivial:
            k = (self._section["name"], case_key)
            if k not in self.distinct:
                self.distinct.add(k)
                self._section["distinct_nontrivial"] += 1
        if sample is not None and len(self.samples) < 8 and self._section["evaluations"] % 7 == 1:
            self.samples.append({"section": self._section["name"], "case": sample})

    def violation(self, contract, key, what, inp, observed, expected=None):
        """key identifies the failing *case* (input + observed wrong output) for known-findings matching."""
        self.evaluations += 1
        self._section["evaluations"] += 1
        self._section["violations"] += 1
        if any(v["key"] == key for v in self.violations):
            return
        self.violations.append({"contract": contract, "key": key, "what": what, "input": inp, "observed": observed,
                                "expected": expected, "section": self._section["name"]})

    def theory_failure(self, axiom, what, inp):
        """An assumed axiom of a theory disagrees with the real library: a checker defect (exit 3), never a property violation."""
        self.evaluations += 1
        self._section["evaluations"] += 1
        if len(self.theory_failures) < 20:
            self.theory_failures.append({"axiom": axiom, "what": what, "input": inp, "section": self._section["name"]})

    def result(self):
        return {"evaluations": self.evaluations, "distinct_nontrivial": len(self.distinct), "violations": self.violations,
                "bounded": self.bounded, "samples": self.samples, "assumptions": self.assumptions,
                "carved_clauses": self.carved, "theory_failures": self.theory_failures,
                "rule": "; ".join("%s: %s [%s]" % (b["name"], b["rule"], b["bound"]) for b in self.bounded)}
