"""L2 driver: bounded companions, replay, witness search — real code under /venv/bin/python."""
import argparse
import importlib
import json
import os
import sys
import time


def main():
    ap = argparse.ArgumentParser()
    ap.add_argument("pid")
    ap.add_argument("--tier", default="quick")
    ap.add_argument("--out", required=True)
    ap.add_argument("--repo", default="/repo")
    ap.add_argument("--witness-for", default="[]")
    ap.add_argument("--replay")
    a = ap.parse_args()
    if a.repo != "/repo":
        sys.path.insert(0, a.repo)
        for m in [m for m in sys.modules if m == "monkeytype" or m.startswith("monkeytype.")]:
            del sys.modules[m]
    import monkeytype
    assert os.path.realpath(os.path.dirname(os.path.dirname(monkeytype.__file__))) == os.path.realpath(a.repo), monkeytype.__file__
    seed = int(os.environ.get("VERIF_SEED", "0") or 0)
    t0 = time.time()
    try:
        mod = importlib.import_module("runtime.props." + a.pid.lower())
    except ModuleNotFoundError as e:
        if "runtime.props" not in str(e):
            raise
        json.dump({"evaluations": 0, "distinct_nontrivial": 0, "violations": [], "bounded": [], "samples": []}, open(a.out, "w"))
        return 0
    ctx = {"tier": a.tier, "seed": seed, "witness_for": json.loads(a.witness_for), "repo": a.repo}
    if a.replay:
        res = mod.replay(json.load(open(a.replay)), ctx)
    else:
        res = mod.run(ctx)
    res["l2_wall_s"] = round(time.time() - t0, 2)
    json.dump(res, open(a.out, "w"), default=str)
    return 0


if __name__ == "__main__":
    sys.exit(main())
