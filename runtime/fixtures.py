"""Fixture classes / callables used by the value and type corpora."""
import collections


class Base:
    pass


class Left(Base):
    pass


class Right(Base):
    pass


class Both(Left, Right):
    pass


class Outer:
    class Inner:
        pass


class MyList(list):
    pass


class MyDict(dict):
    pass


class Meta(type):
    pass


class WithMeta(metaclass=Meta):
    pass


def a_function(x):
    return x


def a_generator():
    yield 1
