"""Fixture classes / callables used by the value and type corpora."""
import collections


class Base:
    pass


class Left(Base):
    pass


class Right(Base):
    pass


class Both(Left, Right):
    pass


class Outer:
    class Inner:
        pass


class MyList(list):
    pass


class MyDict(dict):
    pass


class Meta(type):
    pass


class WithMeta(metaclass=Meta):
    pass


class FalsyMeta(type):
    """Classes of this metaclass evaluate false (a registry-style metaclass with __len__): `cls or default` takes the default."""
    def __len__(cls):
        return 0


class Falsy(metaclass=FalsyMeta):
    pass


import typing as _t

_T = _t.TypeVar("_T")


class Repo1(_t.Generic[_T]):
    pass


class Repo2(_t.Generic[_T]):
    pass


class Repo3(_t.Generic[_T]):
    pass


@_t.runtime_checkable
class Proto(_t.Protocol):
    def run(self) -> int: ...


class Impl1(Proto):
    def run(self) -> int:
        return 1


class Impl2(Proto):
    def run(self) -> int:
        return 2


import enum as _enum
import collections as _collections


class Color(_enum.Enum):
    RED = 1


Pair = _collections.namedtuple("Pair", "a b")


def a_function(x):
    return x


def a_generator():
    yield 1
