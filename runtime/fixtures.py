"""Fixture classes / callables used by the value and type corpora."""
import collections


class Base:
    pass


class Left(Base):
    pass


class Right(Base):
    pass


class Both(Left, Right):
    pass


class Outer:
    class Inner:
        pass


class MyList(list):
    pass


class MyDict(dict):
    pass


class Meta(type):
    pass


class WithMeta(metaclass=Meta):
    pass


class FalsyMeta(type):
    """Classes of this metaclass evaluate false (a registry-style metaclass with __len__): `cls or default` takes the default."""
    def __len__(cls):
        return 0


class Falsy(metaclass=FalsyMeta):
    pass


def a_function(x):
    return x


def a_generator():
    yield 1
