"""Generated corpora for the bounded tier (DESIGN §6): SIGS, TYPES, VALS, ..."""
import inspect
import itertools
import random
from typing import Any, Callable, DefaultDict, Dict, Generator, Iterator, List, Optional, Set, Tuple, Type, Union

from monkeytype.typing import NoneType

P = inspect.Parameter
KINDS = [P.POSITIONAL_ONLY, P.POSITIONAL_OR_KEYWORD, P.VAR_POSITIONAL, P.KEYWORD_ONLY, P.VAR_KEYWORD]


class A:
    pass


class B(A):
    pass


def sigs(max_params=3, annos=(P.empty, int, Optional[str]), defaults=(P.empty, None, 0), long_names=False):
    """All valid parameter lists up to max_params over kinds x defaults x annotation."""
    names = ["a", "b", "c", "d", "e"]
    if long_names:
        names = [n * 30 for n in names]
    out = []
    for n in range(max_params + 1):
        for kinds in itertools.combinations_with_replacement(KINDS, n):
            if kinds.count(P.VAR_POSITIONAL) > 1 or kinds.count(P.VAR_KEYWORD) > 1:
                continue
            per = []
            for k in kinds:
                ds = (P.empty,) if k in (P.VAR_POSITIONAL, P.VAR_KEYWORD) else defaults
                per.append([(k, d, an) for d in ds for an in annos])
            for combo in itertools.product(*per):
                try:
                    ps = [P(names[i], k, default=d, annotation=an) for i, (k, d, an) in enumerate(combo)]
                    out.append(ps)
                except ValueError:
                    pass
    return out


def valid_signatures(max_params=3, ret=(inspect.Signature.empty, int), **kw):
    for ps in sigs(max_params, **kw):
        for r in ret:
            try:
                yield inspect.Signature(ps, return_annotation=r)
            except ValueError:
                pass


def small_types():
    return [int, str, NoneType, A, List[int], Optional[int], Dict[str, int], Tuple[()], Any]


# ---- VALS(d, w): the value grammar
import collections
import typing
from . import fixtures as FX

ATOMS = [0, True, 1.5, "s", b"b", None]


def atoms():
    return ATOMS + [FX.Base(), FX.Left(), FX.Both(), FX.Outer.Inner(), FX.MyList([1]), FX.MyDict(a=1), FX.WithMeta(), FX.Falsy(),
                    FX.Base, FX.Both, int, len, FX.a_function, (lambda: 0), FX.a_generator(),
                    # instances of generic / protocol classes, an enum member, a namedtuple, the singletons whose types have no builtin name
                    FX.Repo1(), FX.Impl1(), FX.Color.RED, FX.Pair(1, "s"), NotImplemented, FX.Base.__dict__,
                    # C-level callables (method descriptor, slot wrapper, method wrapper, classmethod descriptor): their classes have no name anywhere
                    str.upper, int.__add__, (1).__add__, dict.__dict__["fromkeys"],
                    # class objects typing refuses as a type argument (get_type falls back to Type[Any])
                    typing.Generic, typing.Protocol]


def vals(depth=2, width=2, limit=None, rnd=None):
    """Values of nesting depth <= depth and width <= width (exhaustive over a reduced atom set at depth 2)."""
    base = atoms()
    if depth == 0:
        return list(base)
    small = [0, "s", None, FX.Left(), FX.Base]
    inner = vals(depth - 1, width) if depth == 1 else [0, "s", None, [0], [], {"a": 0}, {}, (0, "s"), {1}, FX.Left()]
    out = list(base)
    elems = small if depth >= 2 else base[:8]
    combos = [()]
    for w in range(1, width + 1):
        combos += list(itertools.product(inner[:7] if depth >= 2 else elems, repeat=w))
    for c in combos:
        out.append(list(c))
        out.append(tuple(c))
        try:
            out.append(set(c))
        except TypeError:
            pass
    dict_keys = [("a",), ("a", "b"), (1,), ("a", 1), ()]
    for ks in dict_keys:
        for vs in itertools.product(inner[:6], repeat=len(ks)):
            d = dict(zip(ks, vs))
            out.append(d)
            dd = collections.defaultdict(int)
            dd.update(d)
            out.append(dd)
    if limit and len(out) > limit:
        rnd = rnd or random.Random(0)
        keep = out[:len(base)] + rnd.sample(out[len(base):], limit - len(base))
        return keep
    return out


K_LIMITS = [0, 1, 2, 3, 10, 200]


def types_corpus(depth=2):
    """Type terms over the fixture classes (exhaustive small)."""
    leaves = [int, str, NoneType, FX.Base, FX.Left, FX.Right, FX.Both, FX.Outer.Inner, Any]
    out = list(leaves)
    gen1 = []
    for a in leaves[:6] + [Any]:
        gen1 += [List[a], Set[a], Tuple[a], Tuple[a, ...], Iterator[a], Dict[str, a], DefaultDict[str, a]]
    gen1 += [Tuple[()], Callable, Type[FX.Base], Generator[int, NoneType, NoneType], Generator[int, NoneType, str], Dict[Any, Any], List[Any], Set[Any]]
    out += gen1
    unions = [Union[int, str], Optional[int], Optional[List[Any]], Union[List[Any], List[int]], Union[Set[Any], List[int]], Union[Set[Any], Set[int], Dict[int, str]],
              Union[Iterator[Any], int], Union[FX.Left, FX.Right], Union[FX.Left, FX.Both], Union[Dict[str, int], Dict[str, str]], Union[Dict[str, int], Dict[int, str]],
              Union[int, str, float, bytes, bool, NoneType], Union[Tuple[()], int, str, float, bytes, bool, NoneType], Union[Tuple[int], Tuple[int, int], Tuple[int, int, int], Tuple[()] , int, str, float],
              Union[Tuple[int], Tuple[int, int], Tuple[int, int, int], Tuple[int, int, int, int], Tuple[int, int, int, int, int], Tuple[int, int, int, int, int, int]],
              Union[FX.Left, FX.Right, FX.Both, FX.Base, FX.Outer.Inner, FX.MyList], Union[List[int], int], Union[Dict[Any, Any], Dict[int, int]]]
    out += unions
    n0 = len(unions)
    # a class that evaluates false (metaclass __len__) as key / element type, first and later
    unions += [Union[Dict[FX.Falsy, int], Dict[str, str]], Union[Dict[str, str], Dict[FX.Falsy, int]], Union[Dict[FX.Falsy, int], Dict[FX.Falsy, str]],
               Union[Tuple[FX.Falsy], Tuple[FX.Falsy, FX.Falsy], Tuple[str], Tuple[str, str], Tuple[str, str, str], Tuple[str, str, str, str]],
               Union[Tuple[str], Tuple[str, str], Tuple[FX.Falsy], Tuple[FX.Falsy, FX.Falsy], Tuple[str, str, str], Tuple[str, str, str, str]]]
    # user classes deriving from Generic[T] / a Protocol: their only common ancestors are typing.Generic / typing.Protocol, which are not types
    unions += [Union[FX.Repo1, FX.Repo2], Union[FX.Repo1, FX.Repo2, FX.Repo3], Union[FX.Impl1, FX.Impl2], Union[FX.Repo1, FX.Repo2, FX.Repo3, FX.Impl1, FX.Impl2, int, str],
               Union[FX.Repo1, FX.Repo2, FX.Repo3, FX.Impl1, FX.Impl2, FX.Left]]
    tups = [Tuple[()], Tuple[int], Tuple[int, int], Tuple[int, int, int], Tuple[int, int, int, int], Tuple[int, int, int, int, int], Tuple[int, int, int, int, int, int]]
    unions += [Union[tuple(tups)], Union[tuple(tups[1:] + tups[:1])], Union[tuple(tups[1:4] + tups[:1] + tups[4:])],
               Union[Dict[Any, Any], DefaultDict[str, int]], Union[DefaultDict[Any, Any], Dict[str, int]], Union[DefaultDict[Any, Any], DefaultDict[str, int]],
               Union[List[Any], Set[int]], Union[Set[Any], Dict[str, int], List[Any]]]
    out += unions[n0:]
    out += [List[Union[FX.Repo1, FX.Repo2]], Dict[str, Union[FX.Impl1, FX.Impl2]], List[Union[FX.Repo1, FX.Repo2, FX.Repo3, FX.Impl1, FX.Impl2, FX.Left]]]
    if depth >= 2:
        for u in unions[:8] + gen1[:10] + [Union[FX.Repo1, FX.Repo2], Union[FX.Repo1, FX.Repo2, FX.Repo3, FX.Impl1, FX.Impl2, FX.Left]]:
            out += [List[u], Dict[str, u], Tuple[u, int], Optional[u] if u is not Any else u]
    return out
