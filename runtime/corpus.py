"""Generated corpora for the bounded tier (DESIGN §6): SIGS, TYPES, VALS, ..."""
import inspect
import itertools
import random
from typing import Any, Callable, DefaultDict, Dict, Generator, Iterator, List, Optional, Set, Tuple, Type, Union

from monkeytype.typing import NoneType

P = inspect.Parameter
KINDS = [P.POSITIONAL_ONLY, P.POSITIONAL_OR_KEYWORD, P.VAR_POSITIONAL, P.KEYWORD_ONLY, P.VAR_KEYWORD]


class A:
    pass


class B(A):
    pass


def sigs(max_params=3, annos=(P.empty, int, Optional[str]), defaults=(P.empty, None, 0), long_names=False):
    """All valid parameter lists up to max_params over kinds x defaults x annotation."""
    names = ["a", "b", "c", "d", "e"]
    if long_names:
        names = [n * 30 for n in names]
    out = []
    for n in range(max_params + 1):
        for kinds in itertools.combinations_with_replacement(KINDS, n):
            if kinds.count(P.VAR_POSITIONAL) > 1 or kinds.count(P.VAR_KEYWORD) > 1:
                continue
            per = []
            for k in kinds:
                ds = (P.empty,) if k in (P.VAR_POSITIONAL, P.VAR_KEYWORD) else defaults
                per.append([(k, d, an) for d in ds for an in annos])
            for combo in itertools.product(*per):
                try:
                    ps = [P(names[i], k, default=d, annotation=an) for i, (k, d, an) in enumerate(combo)]
                    out.append(ps)
                except ValueError:
                    pass
    return out


def valid_signatures(max_params=3, ret=(inspect.Signature.empty, int), **kw):
    for ps in sigs(max_params, **kw):
        for r in ret:
            try:
                yield inspect.Signature(ps, return_annotation=r)
            except ValueError:
                pass


def small_types():
    return [int, str, NoneType, A, List[int], Optional[int], Dict[str, int], Tuple[()], Any]
