"""Program templates for the tracer (C02 / C18 / C03 / C17). Each scenario is a zero-argument function `scn_*` that
exercises some target functions; EXPECT[scenario] lists the traces that must be logged, in completion order:
(qualname, {param: type}, return_type | ABSENT, yield_type | ABSENT)."""
import asyncio
import functools
from typing import Callable, Iterator, List, Optional, Union

ABSENT = "<absent>"
NoneType = type(None)


def ret_const():
    return 1


def ret_implicit():
    pass


def ret_value(a, b=2):
    return [a, b]


def raises(a):
    raise ValueError(a)


def try_finally(a):
    try:
        return a
    finally:
        pass


def kinds(a, /, b, *args, c, d=None, **kw):
    return b


class Shape:
    def __init__(self, n):
        self.n = n

    def area(self, k):
        return self.n * k

    @classmethod
    def make(cls, n):
        return cls(n)

    @staticmethod
    def unit():
        return 1.0

    @property
    def prop(self):
        return "p"


class Square(Shape):
    def area(self, k):
        return super().area(k) + 0


def outer_closure(x):
    def inner(y):
        return x + y
    return inner(1)


def deco(f):
    @functools.wraps(f)
    def wrapper(*a, **k):
        return f(*a, **k)
    return wrapper


@deco
def wrapped(a):
    return str(a)


def fact(n):
    return 1 if n <= 1 else n * fact(n - 1)


def gen_simple(n):
    for i in range(n):
        yield i


def gen_ret(n):
    yield "a"
    yield None
    return 3.5


def gen_mixed():
    yield 1
    yield "s"


def gen_rebind(a):
    a = ["x"]
    yield 1
    a = {"k": 1}
    yield 2


async def co_inner(x):
    await asyncio.sleep(0)
    return x


async def co_outer(x):
    return await co_inner(x) + 1


async def co_rebind(key, retries):
    key = key.encode()
    del retries
    await asyncio.sleep(0)
    await asyncio.sleep(0)
    return key


def trace_types(a):
    return a


def gen_closed():
    yield 1
    yield 2


def gen_thrown():
    try:
        yield 1
    except KeyError:
        yield "caught"


import dataclasses


@dataclasses.dataclass
class Point:
    x: int


@dataclasses.dataclass
class Label:
    text: str


@dataclasses.dataclass
class Pixel:
    x: int          # same fields as Point: the generated __init__s have *equal* (not identical) code objects


def bare(f):
    def shim(*a, **k):
        return f(*a, **k)
    shim.__wrapped__ = f
    return shim


@bare
def render(n):
    return "r" * n


def make_inner():
    def inner(v):
        return v
    return inner


def scn_negative_cache():
    make_inner()(1)          # not resolvable (no name anywhere refers to the closure): not logged
    g = make_inner()
    g("a")                   # the same code, now resolvable through the caller's locals: logged


def _deco2(f):
    @functools.wraps(f)
    def wrapper2(*args, **kwargs):
        return f(*args, **kwargs)
    return wrapper2


@_deco2
def shared_a(a):
    return 1


@_deco2
def shared_b(b):
    return "s"


def scn_shared_wrapper_code():
    shared_b(2)              # shared_a is never called


def scn_generated_inits():
    Point(1)
    Label("origin")


def scn_equal_code():
    Point(1)
    Pixel(2)
    Point(3)


def scn_bare_wrapper():
    render(2)


# ---------------------------------------------------------------- scenarios
def scn_returns():
    ret_const(); ret_implicit(); ret_value(1); ret_value("s", b=None); try_finally({"a": 1})


def scn_raise():
    try:
        raises("x")
    except ValueError:
        pass


def scn_kinds():
    kinds(1, "b", 2.0, c=[1], z=1)


def scn_methods():
    s = Square(2)
    s.area(3)
    Shape.make(1)
    Shape.unit()
    s.prop


def scn_closure_wraps_recursion():
    outer_closure(1)
    wrapped(3)
    fact(3)


def scn_generators():
    list(gen_simple(2))
    g = gen_ret(0)
    out = []
    try:
        while True:
            out.append(next(g))
    except StopIteration:
        pass
    a, b = gen_mixed(), gen_simple(1)
    next(a); next(b); next(a)
    for _ in a:
        pass
    for _ in b:
        pass


def scn_coroutine():
    asyncio.run(co_outer(1))


def scn_coroutine_rebinds():
    asyncio.run(co_rebind("k", 3))


def scn_trace_types_name():
    trace_types(1)


def scn_gen_closed():
    g = gen_closed()
    next(g)
    g.close()


def scn_gen_thrown():
    g = gen_thrown()
    next(g)
    try:
        g.throw(ValueError("boom"))
    except ValueError:
        pass


T = lambda q, a, r, y=ABSENT: (q, a, r, y)
EXPECT = {
    "scn_returns": [T("ret_const", {}, int), T("ret_implicit", {}, NoneType), T("ret_value", {"a": int, "b": int}, List[int]),
                    T("ret_value", {"a": str, "b": NoneType}, List[Union[str, None]]), T("try_finally", {"a": "Dict[str,int]"}, "Dict[str,int]")],
    "scn_raise": [T("raises", {"a": str}, ABSENT)],
    "scn_kinds": [T("kinds", {"a": int, "b": str, "c": List[int], "d": NoneType}, str)],
    "scn_methods": [T("Shape.__init__", {"self": "Square", "n": int}, NoneType), T("Shape.area", {"self": "Square", "k": int}, int),
                    T("Square.area", {"self": "Square", "k": int}, int), T("Shape.__init__", {"self": "Shape", "n": int}, NoneType),
                    T("Shape.make", {"cls": "Type[Shape]", "n": int}, "Shape"), T("Shape.unit", {}, float), T("Shape.prop", {"self": "Square"}, str)],
    "scn_closure_wraps_recursion": [T("outer_closure.<locals>.inner", {"y": int}, int), T("outer_closure", {"x": int}, int),
                                    T("wrapped", {"a": int}, str), T("fact", {"n": int}, int), T("fact", {"n": int}, int), T("fact", {"n": int}, int)],
    "scn_generators": [T("gen_simple", {"n": int}, NoneType, int), T("gen_ret", {"n": int}, float, Union[str, None]),
                       T("gen_mixed", {}, NoneType, Union[int, str]), T("gen_simple", {"n": int}, NoneType, int)],
    "scn_coroutine": [T("co_inner", {"x": int}, int), T("co_outer", {"x": int}, int)],
    "scn_coroutine_rebinds": [T("co_rebind", {"key": str, "retries": int}, bytes)],
    "scn_equal_code": [T("Point.__init__", {"self": "Point", "x": int}, NoneType), T("Pixel.__init__", {"self": "Pixel", "x": int}, NoneType), T("Point.__init__", {"self": "Point", "x": int}, NoneType)],
    "scn_negative_cache": [T("make_inner", {}, Callable), T("make_inner", {}, Callable), T("make_inner.<locals>.inner", {"v": str}, str)],
    # the wrapper and the wrapped function both run; both belong to shared_b (the wrapper is published under that name), nothing to shared_a
    "scn_shared_wrapper_code": [T("shared_b", {"b": int}, str)],
    "scn_generated_inits": [T("Point.__init__", {"self": "Point", "x": int}, NoneType), T("Label.__init__", {"self": "Label", "text": str}, NoneType)],
    # the shim itself is not resolvable by name (bound as `render`, named `shim`): only the wrapped function is logged
    "scn_bare_wrapper": [T("render", {"n": int}, str)],
    # known findings: what a faithful tracer would log
    "scn_trace_types_name": [T("trace_types", {"a": int}, int)],
    "scn_gen_closed": [T("gen_closed", {}, ABSENT, int)],
    "scn_gen_thrown": [T("gen_thrown", {}, ABSENT, int)],
}
