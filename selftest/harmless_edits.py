"""Semantics-preserving edits, applied to a scratch worktree; each is (file, old, new, name)."""
import re, sys
EDITS = [
 # 1 rename a local everywhere inside get_type
 ("monkeytype/typing.py", "RENAME:get_type:typ:value_class", None, "typing-get_type-rename-local"),
 # 2 swap two independent statements in the defaultdict branch
 ("monkeytype/typing.py", '''        key_type = shrink_types(
            (get_type(k, max_typed_dict_size) for k in obj.keys()), max_typed_dict_size
        )
        val_type = shrink_types(
            (get_type(v, max_typed_dict_size) for v in obj.values()),
            max_typed_dict_size,
        )
        return DefaultDict[key_type, val_type]''', '''        val_type = shrink_types(
            (get_type(v, max_typed_dict_size) for v in obj.values()),
            max_typed_dict_size,
        )
        key_type = shrink_types(
            (get_type(k, max_typed_dict_size) for k in obj.keys()), max_typed_dict_size
        )
        return DefaultDict[key_type, val_type]''', "typing-defaultdict-swap-independent"),
 # 3 early return flipped in handle_call
 ("monkeytype/tracing.py", '''        func = self._get_func(frame)
        if func is None:
            return
        code = frame.f_code''', '''        code = frame.f_code
        func = self._get_func(frame)
        if func is None:
            return''', "tracing-handle_call-hoist-code"),
 # 4 `if x in d: return` rewritten with not / else
 ("monkeytype/tracing.py", '''            if name in frame.f_locals:
                arg_types[name] = get_type(
                    frame.f_locals[name], max_typed_dict_size=self.max_typed_dict_size
                )''', '''            if name not in frame.f_locals:
                continue
            arg_types[name] = get_type(
                frame.f_locals[name], max_typed_dict_size=self.max_typed_dict_size
            )''', "tracing-handle_call-continue"),
]

EDITS += [
 # 5 rename the failure counter in get_stub (loop invariants mention it)
 ("monkeytype/cli.py", "RENAME:get_stub:failed_to_decode_count:n_undecodable", None, "cli-get_stub-rename-counter"),
 # 6 get_stub: take rewriter via conditional expression
 ("monkeytype/cli.py", """    rewriter = args.config.type_rewriter()
    if args.disable_type_rewriting:
        rewriter = NoOpRewriter()
""", """    if args.disable_type_rewriting:
        rewriter = NoOpRewriter()
    else:
        rewriter = args.config.type_rewriter()
""", "cli-get_stub-rewriter-else"),
 # 7 handle_return: rename local
 ("monkeytype/tracing.py", "RENAMEM:handle_return:trace:current", None, "tracing-handle_return-rename"),
]

EDITS += [
 # 8 shrink_types: the two early tests on disjoint conditions - compute len once
 ("monkeytype/typing.py", """    types = tuple(types)
    if len(types) == 0:
        return Any
""", """    types = tuple(types)
    if not types:
        return Any
""", "typing-shrink_types-truthiness-of-tuple"),
 # 9 shrink_typed_dict_types: != flipped into not ==
 ("monkeytype/typing.py", """        if len(value_types) != num_typed_dicts:
            optional_fields[key] = value_types
""", """        if not len(value_types) == num_typed_dicts:
            optional_fields[key] = value_types
""", "typing-shrink_td-not-eq"),
 # 10 update_signature_args: conditional expression split into if/else
 ("monkeytype/stubs.py", """        typ = arg_types.get(name)
        typ = inspect.Parameter.empty if typ is None else typ
""", """        typ = arg_types.get(name)
        if typ is None:
            typ = inspect.Parameter.empty
""", "stubs-update_args-if-else"),
 # 11 update_signature_args: operands of `or` swapped (both pure)
 ("monkeytype/stubs.py", """        if not is_self and (
            (existing_annotation_strategy == ExistingAnnotationStrategy.IGNORE)
            or not annotated
        ):""", """        if not is_self and (
            not annotated
            or (existing_annotation_strategy == ExistingAnnotationStrategy.IGNORE)
        ):""", "stubs-update_args-or-swapped"),
 # 12 make_query: extend replaced by two appends
 ("monkeytype/db/sqlite.py", """        values.extend([qualname, qualname])
""", """        values.append(qualname)
        values.append(qualname)
""", "sqlite-make_query-two-appends"),
 # 13 make_query: rename a local
 ("monkeytype/db/sqlite.py", "RENAME:make_query:raw_query:sql", None, "sqlite-make_query-rename"),
]

EDITS += [
 # 14 type_to_dict: rename local d
 ("monkeytype/encoding.py", "RENAME:type_to_dict:d:encoded", None, "encoding-type_to_dict-rename"),
 # 15 type_to_dict: nested ifs flattened differently (property nesting inverted)
 ("monkeytype/util.py", """        if func.fget is not None:
            if (func.fset is None) and (func.fdel is None):
                # The getter may itself be a functools.wraps-style wrapper.
                func = _unwrap(module, qualname, func.fget)
            else:
                raise InvalidTypeError(
                    f"Property {module}.{qualname} has setter or deleter."
                )
        else:
            raise InvalidTypeError(f"Property {module}.{qualname} is missing getter")
""", """        if func.fget is None:
            raise InvalidTypeError(f"Property {module}.{qualname} is missing getter")
        if (func.fset is not None) or (func.fdel is not None):
            raise InvalidTypeError(
                f"Property {module}.{qualname} has setter or deleter."
            )
        # The getter may itself be a functools.wraps-style wrapper.
        func = _unwrap(module, qualname, func.fget)
""", "util-get_func-guard-clauses"),
 # 16 de Morgan on the own-name test
 ("monkeytype/util.py", """    if func.__qualname__ != qualname or func.__module__ != module:""", """    if not (func.__qualname__ == qualname and func.__module__ == module):""", "util-get_func-de-morgan"),
 # 17 get_name_in_module: rename the loop variable
 ("monkeytype/util.py", "RENAME:get_name_in_module:part:piece", None, "util-get_name-rename-loopvar"),
]

EDITS += [
 # 18 RemoveEmptyContainers.rewrite_Union: generator expression turned into a loop building the same tuple
 ("monkeytype/typing.py", """        elems = tuple(
            self.rewrite(e) for e in members if not self._is_redundant(e, members)
        )
        if elems:
            return Union[elems]
        return union
""", """        elems = tuple(
            self.rewrite(e) for e in members if not self._is_redundant(e, members)
        )
        if not elems:
            return union
        return Union[elems]
""", "typing-remove-empty-flip-if"),
 # 19 RewriteConfigDict: two guards merged with `or`
 ("monkeytype/typing.py", """            if key_type is None:
                key_type = e.__args__[0]
            if key_type != e.__args__[0]:
                return union
""", """            if key_type is None:
                key_type = e.__args__[0]
            elif key_type != e.__args__[0]:
                return union
""", "typing-configdict-elif"),
 # 20 to_trace: locals renamed / inlined
 ("monkeytype/encoding.py", """        return_type = maybe_decode_type(type_from_json, self.return_type)
        yield_type = maybe_decode_type(type_from_json, self.yield_type)
        return CallTrace(function, arg_types, return_type, yield_type)
""", """        yielded = maybe_decode_type(type_from_json, self.yield_type)
        returned = maybe_decode_type(type_from_json, self.return_type)
        return CallTrace(function, arg_types, returned, yielded)
""", "encoding-to_trace-rename-reorder"),
 # 21 SQLiteStore.add: the statement text built before the transaction
 ("monkeytype/db/sqlite.py", """        self._discard_failed_transaction()
        with self.conn:
            self.conn.executemany(
                "INSERT INTO {table} VALUES (?, ?, ?, ?, ?, ?)".format(
                    table=self.table
                ),
                values,
            )
""", """        statement = "INSERT INTO {table} VALUES (?, ?, ?, ?, ?, ?)".format(
            table=self.table
        )
        self._discard_failed_transaction()
        with self.conn:
            self.conn.executemany(statement, values)
""", "sqlite-add-hoist-statement"),
 # 22 leave_ImportFrom: the flag replaced by for/else
 ("monkeytype/type_checking_imports_transformer.py", """        if isinstance(updated_node.names, ImportStar):
            return updated_node

        names_to_keep = []
        module_name = get_absolute_module_from_package_for_import(None, updated_node)
""", """        if isinstance(updated_node.names, ImportStar):
            return updated_node

        module_name = get_absolute_module_from_package_for_import(None, updated_node)
        names_to_keep = []
""", "tcit-leave_ImportFrom-swap-init"),
]

EDITS += [
 # 23 get_type: the element-type computation of list and set extracted into a helper
 ("monkeytype/typing.py", """    if value_class is list:
        elem_type = shrink_types(
            (get_type(e, max_typed_dict_size) for e in obj), max_typed_dict_size
        )
        return List[elem_type]
    elif value_class is set:
        elem_type = shrink_types(
            (get_type(e, max_typed_dict_size) for e in obj), max_typed_dict_size
        )
        return Set[elem_type]
""", """    if value_class is list:
        return List[_elements_type(obj, max_typed_dict_size)]
    elif value_class is set:
        return Set[_elements_type(obj, max_typed_dict_size)]
""", "typing-get_type-extract-helper"),
 ("monkeytype/typing.py", """def get_type(obj, max_typed_dict_size):
    \"\"\"Return the static type that would be used in a type hint\"\"\"
""", """def _elements_type(container, max_typed_dict_size):
    return shrink_types(
        (get_type(e, max_typed_dict_size) for e in container), max_typed_dict_size
    )


def get_type(obj, max_typed_dict_size):
    \"\"\"Return the static type that would be used in a type hint\"\"\"
""", "typing-get_type-extract-helper-def"),
 # 24 update_signature_return: nothing; make_query: f-string instead of format
 ("monkeytype/db/sqlite.py", """    \"\"\".format(
        table=table
    )
""", """    \"\"\".format(table=table)
""", "sqlite-make_query-format-one-line"),
]
def apply(root, only=None):
    for f, old, new, name in EDITS:
        if only and name not in only: continue
        p = root + "/" + f
        s = open(p).read()
        if old.startswith("RENAME"):
            kind, fn, a, b = old.split(":")
            if kind == "RENAME":
                m = re.search(r"^def %s\(.*?(?=^(?:def |class |@|[A-Za-z_]))" % fn, s, re.S | re.M)
            else:
                m = re.search(r"^    def %s\(.*?(?=^    (?:def |@)|^\S)" % fn, s, re.S | re.M)
            body = m.group(0)
            nb = re.sub(r"\b%s\b" % a, b, body)
            assert nb != body
            s = s.replace(body, nb, 1)
        else:
            assert old in s, name
            s = s.replace(old, new, 1)
        open(p, "w").write(s)
        print("applied", name)
if __name__ == "__main__":
    apply(sys.argv[1], set(sys.argv[2:]) or None)
