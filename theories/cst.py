"""T-CST: the libcst node API that type_checking_imports_transformer.py touches (assumed; the bounded tier of C16 runs real libcst)."""
import z3
from pyvc import logic as L
from pyvc import registry as R
from pyvc.values import *
from pyvc.spec import declare_pred, spec

T = "cst"
declare_always_truthy("ImportNode", "Alias", "Item", "ImpTransformer", "CstName")
cst_names = declare_pred("cst_names", L.V, L.V, tag="Seq[Alias]")
is_star = declare_pred("is_star", L.V, L.B)
alias_name = declare_pred("alias_name", L.V, L.V, tag="str")        # ImportAlias.evaluated_name (dotted module for `import a.b`)
alias_asname = declare_pred("alias_asname", L.V, L.V, tag="Opt[str]")  # ImportAlias.evaluated_alias
alias_obj = declare_pred("alias_obj", L.V, L.V, tag="str")          # ImportAlias.name.value (for `from m import obj`)
alias_nocomma = declare_pred("alias_nocomma", L.V, L.V, tag="Alias")
item_module = declare_pred("item_module", L.V, L.V, tag="str")
item_obj = declare_pred("item_obj", L.V, L.V, tag="Opt[str]")
item_alias = declare_pred("item_alias", L.V, L.V, tag="Opt[str]")
items_of = declare_pred("items_of", L.V, L.V, tag="Seq[Item]")
from_module = declare_pred("from_module", L.V, L.V, tag="Opt[str]")
node_with_names = declare_pred("node_with_names", L.V, L.V, L.V, tag="ImportNode")
REMOVE = L.atom("libcst", "RemoveFromParent")
R.SPEC["REMOVE"] = ZV(REMOVE, "ImportNode")
a, n, sq = L.const("ca"), L.const("cn"), L.const("csq")
L.axiom(T, "nocomma", L.FA(a, z3.And(alias_name(alias_nocomma(a)) == alias_name(a), alias_asname(alias_nocomma(a)) == alias_asname(a), alias_obj(alias_nocomma(a)) == alias_obj(a)),
                            [alias_nocomma(a)]))
L.axiom(T, "with-names", L.FA([n, sq], z3.And(cst_names(node_with_names(n, sq)) == sq, node_with_names(n, sq) != REMOVE, from_module(node_with_names(n, sq)) == from_module(n)),
                               [node_with_names(n, sq)]))
R.ATTRS[("ImportNode", "names")] = lambda ip, r: ZV(cst_names(r.term), "Seq[Alias]")
R.ATTRS[("Alias", "evaluated_name")] = lambda ip, r: ZV(alias_name(r.term), "str")
R.ATTRS[("Alias", "evaluated_alias")] = lambda ip, r: ZV(alias_asname(r.term), "Opt[str]")
R.ATTRS[("Alias", "name")] = lambda ip, r: ZV(r.term, "CstName")
R.ATTRS[("CstName", "value")] = lambda ip, r: ZV(alias_obj(r.term), "str")
R.ATTRS[("Item", "module_name")] = lambda ip, r: ZV(item_module(r.term), "str")
R.ATTRS[("Item", "obj_name")] = lambda ip, r: ZV(item_obj(r.term), "Opt[str]")
R.ATTRS[("Item", "alias")] = lambda ip, r: ZV(item_alias(r.term), "Opt[str]")
R.ATTRS[("ImpTransformer", "import_items_to_be_removed")] = lambda ip, r: ZV(items_of(r.term), "Seq[Item]")


def _with_changes(ip, r, args, kw, node):
    tag = base_tag(r.tag)
    if tag == "Alias" and set(kw) == {"comma"}:
        return ZV(alias_nocomma(r.term), "Alias")
    if tag == "ImportNode" and set(kw) == {"names"}:
        return ZV(node_with_names(r.term, ip.seq_of(kw["names"]).term), "ImportNode")
    raise Unsupported("with_changes(%s) on %s" % (sorted(kw), tag))


R.METHODS[("Alias", "with_changes")] = _with_changes
R.METHODS[("ImportNode", "with_changes")] = _with_changes
R.EXTERNALS["libcst.RemoveFromParent"] = R.ExtFn(lambda ip, a_, kw, node: ZV(REMOVE, "ImportNode"))
R.EXTERNALS["libcst.MaybeSentinel.DEFAULT"] = ZV(L.atom("libcst", "MaybeSentinel.DEFAULT"), "Sentinel")
R.EXTERNALS["libcst.helpers.get_absolute_module_from_package_for_import"] = R.ExtFn(lambda ip, a_, kw, node: ZV(from_module(as_v(a_[1])), "Opt[str]"))
from theories import types as _TY
_TY.ISINSTANCE["libcst.ImportStar"] = lambda ip, o: is_star(L.fn("names_owner", L.V, L.V)(as_v(o)))
L.axiom(T, "names-owner", L.FA(n, L.fn("names_owner", L.V, L.V)(cst_names(n)) == n, [cst_names(n)]))
