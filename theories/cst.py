"""T-CST: the libcst node API that type_checking_imports_transformer.py touches (assumed; the bounded tier of C16 runs real libcst)."""
import z3
from pyvc import logic as L
from pyvc import registry as R
from pyvc.values import *
from pyvc.spec import declare_pred, spec
from pyvc.state import RaisedEx

T = "cst"
declare_always_truthy("ImportNode", "Alias", "Item", "ImpTransformer", "CstName")
cst_names = declare_pred("cst_names", L.V, L.V, tag="Seq[Alias]")
is_star = declare_pred("is_star", L.V, L.B)
alias_name = declare_pred("alias_name", L.V, L.V, tag="str")        # ImportAlias.evaluated_name (dotted module for `import a.b`)
alias_asname = declare_pred("alias_asname", L.V, L.V, tag="Opt[str]")  # ImportAlias.evaluated_alias
alias_obj = declare_pred("alias_obj", L.V, L.V, tag="str")          # ImportAlias.name.value (for `from m import obj`)
alias_nocomma = declare_pred("alias_nocomma", L.V, L.V, tag="Alias")
item_module = declare_pred("item_module", L.V, L.V, tag="str")
item_obj = declare_pred("item_obj", L.V, L.V, tag="Opt[str]")
item_alias = declare_pred("item_alias", L.V, L.V, tag="Opt[str]")
items_of = declare_pred("items_of", L.V, L.V, tag="Seq[Item]")
from_module = declare_pred("from_module", L.V, L.V, tag="Opt[str]")
node_with_names = declare_pred("node_with_names", L.V, L.V, L.V, tag="ImportNode")
REMOVE = L.atom("libcst", "RemoveFromParent")
R.SPEC["REMOVE"] = ZV(REMOVE, "ImportNode")
a, n, sq = L.const("ca"), L.const("cn"), L.const("csq")
L.axiom(T, "nocomma", L.FA(a, z3.And(alias_name(alias_nocomma(a)) == alias_name(a), alias_asname(alias_nocomma(a)) == alias_asname(a), alias_obj(alias_nocomma(a)) == alias_obj(a)),
                            [alias_nocomma(a)]))
L.axiom(T, "with-names", L.FA([n, sq], z3.And(cst_names(node_with_names(n, sq)) == sq, node_with_names(n, sq) != REMOVE, from_module(node_with_names(n, sq)) == from_module(n)),
                               [node_with_names(n, sq)]))
R.ATTRS[("ImportNode", "names")] = lambda ip, r: ZV(cst_names(r.term), "Seq[Alias]")
R.ATTRS[("Alias", "evaluated_name")] = lambda ip, r: ZV(alias_name(r.term), "str")
R.ATTRS[("Alias", "evaluated_alias")] = lambda ip, r: ZV(alias_asname(r.term), "Opt[str]")
R.ATTRS[("Alias", "name")] = lambda ip, r: ZV(r.term, "CstName")
R.ATTRS[("CstName", "value")] = lambda ip, r: ZV(alias_obj(r.term), "str")
R.ATTRS[("Item", "module_name")] = lambda ip, r: ZV(item_module(r.term), "str")
R.ATTRS[("Item", "obj_name")] = lambda ip, r: ZV(item_obj(r.term), "Opt[str]")
R.ATTRS[("Item", "alias")] = lambda ip, r: ZV(item_alias(r.term), "Opt[str]")
R.ATTRS[("ImpTransformer", "import_items_to_be_removed")] = lambda ip, r: ZV(items_of(r.term), "Seq[Item]")


def _with_changes(ip, r, args, kw, node):
    tag = base_tag(r.tag)
    if tag == "Alias" and set(kw) == {"comma"}:
        return ZV(alias_nocomma(r.term), "Alias")
    if tag == "ImportNode" and set(kw) == {"names"}:
        return ZV(node_with_names(r.term, ip.seq_of(kw["names"]).term), "ImportNode")
    raise Unsupported("with_changes(%s) on %s" % (sorted(kw), tag))


R.METHODS[("Alias", "with_changes")] = _with_changes
R.METHODS[("ImportNode", "with_changes")] = _with_changes
R.EXTERNALS["libcst.RemoveFromParent"] = R.ExtFn(lambda ip, a_, kw, node: ZV(REMOVE, "ImportNode"))
R.EXTERNALS["libcst.MaybeSentinel.DEFAULT"] = ZV(L.atom("libcst", "MaybeSentinel.DEFAULT"), "Sentinel")
R.EXTERNALS["libcst.helpers.get_absolute_module_from_package_for_import"] = R.ExtFn(lambda ip, a_, kw, node: ZV(from_module(as_v(a_[1])), "Opt[str]"))
from theories import types as _TY
_TY.ISINSTANCE["libcst.ImportStar"] = lambda ip, o: is_star(L.fn("names_owner", L.V, L.V)(as_v(o)))
L.axiom(T, "names-owner", L.FA(n, L.fn("names_owner", L.V, L.V)(cst_names(n)) == n, [cst_names(n)]))

# ---- GatherImportsVisitor as cli.get_newly_imported_items uses it: after module.visit(gatherer) the visitor's five views are functions of the
# visited module (what they contain is libcst's business - bounded tier; here only that they are finite maps / sets / lists of the stated shapes)
declare_always_truthy("Gatherer", "CstModule", "CodemodContext")
mk_item = L.fn("mk_item", L.V, L.V, L.V, L.V)          # ImportItem(module_name, obj_name, alias) with relative == 0: a frozen dataclass, equal iff the fields are
gathered = L.fn("gathered", L.V, L.V)                   # the module a gatherer has visited
g_symbols = declare_pred("g_symbols", L.V, L.V, tag="Dict[str,Item]")          # symbol_mapping: bound name -> the *last* import binding it
g_modules = declare_pred("g_modules", L.V, L.V, tag="Set[str]")                # module_imports: `import m`
g_module_aliases = declare_pred("g_module_aliases", L.V, L.V, tag="Dict[str,str]")   # module_aliases: `import m as a`
g_objects = declare_pred("g_objects", L.V, L.V, tag="Dict[str,Set[str]]")      # object_mapping: `from m import o`
g_aliases = declare_pred("g_aliases", L.V, L.V, tag="Dict[str,Seq[seq]]")      # alias_mapping: `from m import o as a` -> [(o, a)]
_m, _o, _al, _it, _g = L.const("gm"), L.const("go"), L.const("gal"), L.const("git"), L.const("gg")
L.axiom(T, "mk-item-fields", L.FA([_m, _o, _al], z3.And(item_module(mk_item(_m, _o, _al)) == _m, item_obj(mk_item(_m, _o, _al)) == _o, item_alias(mk_item(_m, _o, _al)) == _al,
                                                        mk_item(_m, _o, _al) != L.NONE), [mk_item(_m, _o, _al)]))
L.axiom(T, "gatherer-views", L.FA(_g, z3.And(L.is_dictlike(g_symbols(_g)), L.is_dictlike(g_module_aliases(_g)), L.is_dictlike(g_objects(_g)), L.is_dictlike(g_aliases(_g)),
                                             g_symbols(_g) != L.NONE, g_modules(_g) != L.NONE), [gathered(_g)]))
_gi = L.const("gi", L.I)
L.axiom(T, "alias-pairs", L.FA([_g, _m, _gi], z3.Implies(z3.And(L.has(g_aliases(_g), _m), 0 <= _gi, _gi < L.len_(L.get(g_aliases(_g), _m))), L.len_(L.nth(L.get(g_aliases(_g), _m), _gi)) == 2),
                               [L.nth(L.get(g_aliases(_g), _m), _gi)]))
R.SPEC["mk_item"] = SpecFn(lambda ip, a_, kw: ZV(mk_item(*[as_v(x) for x in a_]), "Item"), "mk_item")


def _item_ctor(ip, a_, kw, node):
    m = as_v(a_[0])
    o = as_v(kw["obj_name"]) if "obj_name" in kw else (as_v(a_[1]) if len(a_) > 1 else L.NONE)
    al = as_v(kw["alias"]) if "alias" in kw else (as_v(a_[2]) if len(a_) > 2 else L.NONE)
    if set(kw) - {"obj_name", "alias"}:
        raise Unsupported("ImportItem(%s)" % sorted(kw))
    return ZV(mk_item(m, o, al), "Item")


R.EXTERNALS["libcst.codemod.visitors.ImportItem"] = R.ExtFn(_item_ctor)
R.EXTERNALS["libcst.codemod.CodemodContext"] = R.ExtFn(lambda ip, a_, kw, node: ZV(L.fresh("codemod_context"), "CodemodContext"))


def _gatherer_ctor(ip, a_, kw, node):
    g = L.fresh("gatherer")
    ip.st.assume(g != L.NONE)
    return ZV(g, "Gatherer")


R.EXTERNALS["libcst.codemod.visitors.GatherImportsVisitor"] = R.ExtFn(_gatherer_ctor)


def _module_visit(ip, r, a_, kw, node):
    g = a_[0]
    if not (isinstance(g, ZV) and base_tag(g.tag) == "Gatherer"):
        raise Unsupported("Module.visit(%r)" % (g,))
    # libcst is deterministic: what a gatherer holds after visiting a module is a function of the module
    ip.st.assume(g.term == L.fn("gatherer_of", L.V, L.V)(r.term))
    ip.st.assume(gathered(g.term) == r.term)
    return r


R.METHODS[("CstModule", "visit")] = _module_visit
R.ATTRS[("Gatherer", "symbol_mapping")] = lambda ip, r: ZV(g_symbols(r.term), "Dict[str,Item]")
R.ATTRS[("Gatherer", "module_imports")] = lambda ip, r: ZV(g_modules(r.term), "Set[str]")
R.ATTRS[("Gatherer", "module_aliases")] = lambda ip, r: ZV(g_module_aliases(r.term), "Dict[str,str]")
R.ATTRS[("Gatherer", "object_mapping")] = lambda ip, r: ZV(g_objects(r.term), "Dict[str,Set[str]]")
R.ATTRS[("Gatherer", "alias_mapping")] = lambda ip, r: ZV(g_aliases(r.term), "Dict[str,Seq[seq]]")


@spec("gathered_from")
def _gathered_from(ip, args, kw):
    """The gatherer state after visiting a module: a function of the module (libcst is deterministic)."""
    return ZV(L.fn("gatherer_of", L.V, L.V)(as_v(args[0])), "Gatherer")

# ---- cli.apply_stub_using_libcst: the libcst pipeline as uninterpreted functions of exactly the arguments each stage is given (what the stages do is
# bounded: C15 / C16 companions). The context object is a Python-side ghost (straight-line code): what was stored in it is what the visitor built from it sees.
parsed = L.fn("cst_parsed", L.S, L.V)                     # libcst.parse_module(text)
applied = L.fn("cst_applied", L.V, L.V, L.B, L.B, L.V)    # ApplyTypeAnnotationsVisitor(stub, overwrite, use_future_annotations).transform_module(source)
moved = L.fn("cst_moved", L.V, L.V, L.V)                  # MoveImportsToTypeCheckingBlockVisitor(items).transform_module(module)
cst_code = L.fn("cst_code", L.V, L.S)                     # Module.code
_MV = "monkeytype.type_checking_imports_transformer:MoveImportsToTypeCheckingBlockVisitor"


def _lib_raises(ip, node, what):
    """Any libcst entry point may raise (syntax errors, internal errors)."""
    if ip.branch(L.fresh(what + "_raises", L.B), getattr(node, "lineno", 0)):
        raise RaisedEx(ExcVal("Exception", exact=False), getattr(node, "lineno", 0))


def _parse_module(ip, a_, kw, node):
    if not isinstance(a_[0], PyC):
        _lib_raises(ip, node, "parse")       # (a literal source text of the repo itself parses: exercised by every run of the suite)
    return ZV(parsed(as_str(a_[0])), "CstModule")


def _ctx_store(ip):
    if not hasattr(ip.st, "cst_ctx"):
        ip.st.cst_ctx = {}
    return ip.st.cst_ctx


def _store_stub(ip, a_, kw, node):
    ctx, stub, overwrite = a_[0], a_[1], (a_[2] if len(a_) > 2 else kw.get("overwrite_existing_annotations", PyC(False)))
    fut = kw.get("use_future_annotations", a_[3] if len(a_) > 3 else PyC(False))
    if set(kw) - {"overwrite_existing_annotations", "use_future_annotations"}:
        raise Unsupported("store_stub_in_context(%s)" % sorted(kw))
    _ctx_store(ip)[ctx.term.get_id()] = ("stub", stub, overwrite, fut)
    return PyC(None)


def _apply_visitor(ip, a_, kw, node):
    e = _ctx_store(ip).get(a_[0].term.get_id())
    if not e or e[0] != "stub":
        raise Unsupported("ApplyTypeAnnotationsVisitor on a context without a stored stub")
    v = ZV(L.fresh("apply_visitor"), "ApplyVisitor")
    ip.st.assume(v.term != L.NONE)
    _ctx_store(ip)[v.term.get_id()] = e
    return v


def _apply_transform(ip, r, a_, kw, node):
    _, stub, overwrite, fut = _ctx_store(ip)[r.term.get_id()]
    _lib_raises(ip, node, "apply")
    return ZV(applied(as_v(stub), as_v(a_[0]), as_bool(overwrite), as_bool(fut)), "CstModule")


def _store_imports(ip, a_, kw, node):
    _ctx_store(ip)[a_[0].term.get_id()] = ("items", a_[1])
    return PyC(None)


def _move_visitor(ip, a_, kw, node):
    e = _ctx_store(ip).get(a_[0].term.get_id())
    if not e or e[0] != "items":
        raise Unsupported("MoveImportsToTypeCheckingBlockVisitor on a context without stored imports")
    v = ZV(L.fresh("move_visitor"), "MoveVisitor")
    ip.st.assume(v.term != L.NONE)
    _ctx_store(ip)[v.term.get_id()] = e
    return v


def _move_transform(ip, r, a_, kw, node):
    _, items = _ctx_store(ip)[r.term.get_id()]
    _lib_raises(ip, node, "move")
    return ZV(moved(as_v(a_[0]), ip.seq_of(items).term), "CstModule")


declare_always_truthy("ApplyVisitor", "MoveVisitor")
R.EXTERNALS["libcst.parse_module"] = R.ExtFn(_parse_module)
R.EXTERNALS["libcst.codemod.visitors.ApplyTypeAnnotationsVisitor.store_stub_in_context"] = R.ExtFn(_store_stub)
R.EXTERNALS["libcst.codemod.visitors.ApplyTypeAnnotationsVisitor"] = R.ExtFn(_apply_visitor)
R.METHODS[("ApplyVisitor", "transform_module")] = _apply_transform
R.EXTERNALS[_MV + ".store_imports_in_context"] = R.ExtFn(_store_imports)
R.EXTERNALS[_MV] = R.ExtFn(_move_visitor)
R.METHODS[("MoveVisitor", "transform_module")] = _move_transform
R.ATTRS[("CstModule", "code")] = lambda ip, r: ZS(cst_code(r.term))
for _n, _f in (("cst_parsed", lambda ip, a_, kw: ZV(parsed(as_str(a_[0])), "CstModule")),
               ("cst_applied", lambda ip, a_, kw: ZV(applied(as_v(a_[0]), as_v(a_[1]), as_bool(a_[2]), as_bool(a_[3])), "CstModule")),
               ("cst_moved", lambda ip, a_, kw: ZV(moved(as_v(a_[0]), as_v(a_[1])), "CstModule")),
               ("cst_code", lambda ip, a_, kw: ZS(cst_code(as_v(a_[0]))))):
    R.SPEC[_n] = SpecFn(_f, _n)

# ---- MoveImportsToTypeCheckingBlockVisitor._split_module: module bodies, statements, the gatherer's all_imports
declare_always_truthy("Mover", "Stmt")
m_body = declare_pred("m_body", L.V, L.V, tag="Seq[Stmt]")                 # Module.body
stmt_body = declare_pred("stmt_body", L.V, L.V, tag="Seq[ImportNode]")     # SimpleStatementLine.body (small statements)
is_simple = declare_pred("is_simple", L.V, L.B)                            # isinstance(stmt, SimpleStatementLine)
g_all = declare_pred("g_all", L.V, L.V, tag="Seq[ImportNode]")             # GatherImportsVisitor.all_imports: every Import / ImportFrom node visited
R.ATTRS[("CstModule", "body")] = lambda ip, r: ZV(m_body(r.term), "Seq[Stmt]")
R.ATTRS[("Stmt", "body")] = lambda ip, r: ZV(stmt_body(r.term), "Seq[ImportNode]")
R.ATTRS[("Gatherer", "all_imports")] = lambda ip, r: ZV(g_all(r.term), "Seq[ImportNode]")
R.ATTRS[("Mover", "context")] = lambda ip, r: ZV(L.fn("mover_context", L.V, L.V)(r.term), "CodemodContext")
_TY.ISINSTANCE["libcst.SimpleStatementLine"] = lambda ip, o: is_simple(as_v(o))

# ---- MoveImportsToTypeCheckingBlockVisitor._add_if_type_checking_block
R.add_field({"Mover"}, "import_items_to_be_moved", "Seq[Item]", "Mover.import_items_to_be_moved")
import_module_of = L.fn("cst_import_module", L.V, L.V)     # _get_import_module(): AddImportsVisitor on an empty module for the items to be moved (libcst)
tc_block = L.fn("cst_tc_block", L.V, L.V, L.V)            # _replace_pass_with_imports(placeholder, import_module): the `if TYPE_CHECKING:` statement holding those imports
module_with_body = L.fn("cst_module_with_body", L.V, L.V, L.V)
_mb, _bd = L.const("cmb"), L.const("cbd")
L.axiom(T, "module-with-body", L.FA([_mb, _bd], z3.And(m_body(module_with_body(_mb, _bd)) == _bd, module_with_body(_mb, _bd) != L.NONE), [module_with_body(_mb, _bd)]))


def _get_import_module(ip, r, a_, kw, node):
    items = z3.Select(ip.heap_array("Mover.import_items_to_be_moved"), r.term)
    return ZV(import_module_of(items), "CstModule")


R.METHODS[("Mover", "_get_import_module")] = _get_import_module
R.METHODS[("Mover", "_replace_pass_with_imports")] = lambda ip, r, a_, kw, node: ZV(tc_block(as_v(a_[0]), as_v(a_[1])), "Stmt")


def _module_with_changes(ip, r, a_, kw, node):
    if set(kw) != {"body"}:
        raise Unsupported("Module.with_changes(%s)" % sorted(kw))
    return ZV(module_with_body(r.term, ip.seq_of(kw["body"]).term), "CstModule")


R.METHODS[("CstModule", "with_changes")] = _module_with_changes
for _n, _f, _tg in (("cst_import_module", import_module_of, "CstModule"), ("cst_tc_block", tc_block, "Stmt")):
    R.SPEC[_n] = SpecFn((lambda f_, tg: lambda ip, a_, kw: ZV(f_(*[as_v(v) for v in a_]), tg))(_f, _tg), _n)

R.TAG_CLASS["Mover"] = "monkeytype.type_checking_imports_transformer:MoveImportsToTypeCheckingBlockVisitor"
is_import_stmt = declare_pred("is_import_stmt", L.V, L.B)      # isinstance(node, libcst.Import) for a node of all_imports (otherwise it is an ImportFrom)
_TY.ISINSTANCE["libcst.Import"] = lambda ip, o: is_import_stmt(as_v(o))
R.ATTRS[("Gatherer", "context")] = lambda ip, r: ZV(L.fn("gatherer_context", L.V, L.V)(r.term), "CodemodContext")
R.ATTRS[("CodemodContext", "full_package_name")] = lambda ip, r: ZV(L.fn("ctx_package", L.V, L.V)(r.term), "Opt[str]")

# ---- MoveImportsToTypeCheckingBlockVisitor.transform_module_impl: the context scratch, the two libcst-backed helper steps
mover_stored = L.fn("mover_stored", L.V, L.V)              # self.context.scratch.get(CONTEXT_KEY): None or the 1-tuple (items,) that store_imports_in_context put there
with_tc_import = L.fn("cst_with_tc_import", L.V, L.V)      # _add_type_checking_import(tree): AddImportsVisitor for `from __future__ import annotations` and `from typing import TYPE_CHECKING`
removed = L.fn("cst_removed", L.V, L.V, L.V)               # _remove_imports(tree): tree.visit(RemoveImportsTransformer(items)) - per node: leave_Import / leave_ImportFrom (proved)
R.ATTRS[("CodemodContext", "scratch")] = lambda ip, r: ZV(r.term, "Scratch")


def _scratch_get(ip, r, a_, kw, node):
    # the only key this class reads is its own CONTEXT_KEY
    owner = L.fn("context_owner", L.V, L.V)(r.term)
    return ZV(mover_stored(owner), "Opt[seq]")


R.METHODS[("Scratch", "get")] = _scratch_get
L.axiom(T, "mover-context-owner", L.FA(_g, L.fn("context_owner", L.V, L.V)(L.fn("mover_context", L.V, L.V)(_g)) == _g, [L.fn("mover_context", L.V, L.V)(_g)]))
R.METHODS[("Mover", "_add_type_checking_import")] = lambda ip, r, a_, kw, node: ZV(with_tc_import(as_v(a_[0])), "CstModule")


def _remove_imports(ip, r, a_, kw, node):
    items = z3.Select(ip.heap_array("Mover.import_items_to_be_moved"), r.term)
    return ZV(removed(as_v(a_[0]), items), "CstModule")


R.METHODS[("Mover", "_remove_imports")] = _remove_imports
for _n, _f in (("cst_with_tc_import", with_tc_import), ("cst_removed", removed), ("mover_stored", mover_stored)):
    R.SPEC[_n] = SpecFn((lambda f_: lambda ip, a_, kw: ZV(f_(*[as_v(v) for v in a_]), "CstModule" if f_ is not mover_stored else "Opt[seq]"))(_f), _n)
R.EXTERNALS["monkeytype.type_checking_imports_transformer:MoveImportsToTypeCheckingBlockVisitor.CONTEXT_KEY"] = ZV(L.atom("mover", "CONTEXT_KEY"), "str")
