"""T-VALUES: runtime values as get_type observes them, the conformance oracle mem(v, t), sizes/depths for termination.
Value containers are core sequences / dicts (len, nth, has, get) - an exact list/set/tuple value is the sequence of its
elements, an exact dict / defaultdict value is the mapping.  Values are finite and acyclic (assumed)."""
import z3
from pyvc import logic as L
from pyvc import registry as R
from pyvc.values import *
from pyvc.spec import declare_pred, spec
from theories import types as TY

T = "values"
kind, args, K = TY.kind, TY.args, TY.K
cls_of = declare_pred("cls_of", L.V, L.V, tag="Ty")              # type(v)
subclass = declare_pred("subclass", L.V, L.V, L.B)               # issubclass(c, d) on class objects
mem = declare_pred("mem", L.V, L.V, L.B)                         # v conforms to t (reference oracle)
size = declare_pred("size", L.V, L.I)                            # structural size of a value (termination measure)
depth = declare_pred("depth", L.V, L.I)                          # nesting depth of a type
mdepth = declare_pred("mdepth", L.V, L.I)                        # max depth over a sequence of types
argmax = L.fn("argmax_depth", L.V, L.I)
is_classobj = TY.is_class                                        # isinstance(v, type): class objects are the Ty terms of kind Class / TD
R.SPEC["is_classobj"] = R.SPEC["is_class"]
is_callable_obj = declare_pred("is_callable_obj", L.V, L.B)      # isinstance(v, FunctionType / MethodType / Builtin...)
is_generator_obj = declare_pred("is_generator_obj", L.V, L.B)    # isinstance(v, types.GeneratorType)
CLS = {n: L.atom("cls", n) for n in ("list", "set", "dict", "defaultdict", "tuple", "str", "object", "NoneType", "type", "int", "bool")}
for n, c in CLS.items():
    R.SPEC["CLS_" + n] = ZV(c, "Ty")
declare_always_truthy("Val")

v, t, u, c, d, e, a, b, sq, k = (L.const(n) for n in ("vv", "vt", "vu", "vc", "vd", "ve", "va", "vb", "vsq", "vk"))
i, j = L.const("i", L.I), L.const("j", L.I)
ax = lambda n, ex: L.axiom(T, n, ex)
exact = lambda x, n: cls_of(x) == CLS[n]

ax("subclass-refl", L.FA(c, subclass(c, c), [subclass(c, c)]))
ax("subclass-trans", L.FA([c, d, e], z3.Implies(z3.And(subclass(c, d), subclass(d, e)), subclass(c, e)), [(subclass(c, d), subclass(d, e))]))
ax("subclass-object", L.FA(c, z3.Implies(kind(c) == K["Class"], subclass(c, CLS["object"])), [subclass(c, CLS["object"])]))
ax("cls-kind", L.FA(v, kind(cls_of(v)) == K["Class"], [cls_of(v)]))
for n in CLS:
    ax("cls-%s-kind" % n, kind(CLS[n]) == K["Class"])
ax("size-pos", L.FA(v, size(v) >= 1, [size(v)]))
ax("size-elem", L.FA([v, i], z3.Implies(z3.And(0 <= i, i < L.len_(v)), size(L.nth(v, i)) < size(v)), [L.nth(v, i)]))
ax("size-dval", L.FA([v, k], z3.Implies(L.has(v, k), size(L.get(v, k)) < size(v)), [L.get(v, k)]))
ax("depth-nonneg", L.FA(t, depth(t) >= 0, [depth(t)]))
ax("depth-arg", L.FA([t, i], z3.Implies(z3.And(0 <= i, i < L.len_(args(t))), depth(L.nth(args(t), i)) < depth(t)), [L.nth(args(t), i)]))
ax("depth-td-req", L.FA([t, k], z3.Implies(z3.And(kind(t) == K["TD"], L.has(TY.td_req(t), k)), depth(L.get(TY.td_req(t), k)) < depth(t)),
                        [L.get(TY.td_req(t), k)]))
ax("depth-td-opt", L.FA([t, k], z3.Implies(z3.And(kind(t) == K["TD"], L.has(TY.td_opt(t), k)), depth(L.get(TY.td_opt(t), k)) < depth(t)),
                        [L.get(TY.td_opt(t), k)]))
ax("mdepth-ub", L.FA([sq, i], z3.Implies(z3.And(0 <= i, i < L.len_(sq)), depth(L.nth(sq, i)) <= mdepth(sq)), [(mdepth(sq), L.nth(sq, i))]))
ax("mdepth-witness", L.FA(sq, z3.And(mdepth(sq) >= 0,
                                     z3.Implies(L.len_(sq) > 0, z3.And(0 <= argmax(sq), argmax(sq) < L.len_(sq), mdepth(sq) == depth(L.nth(sq, argmax(sq)))))),
                          [mdepth(sq)]))

# ---- mem: one axiom per kind
ax("mem-any", L.FA(v, mem(v, TY.ANY), [mem(v, TY.ANY)]))
ax("mem-class", L.FA([v, t], z3.Implies(kind(t) == K["Class"], mem(v, t) == subclass(cls_of(v), t)), [mem(v, t)]))
_all = lambda vv, tt: L.FA(i, z3.Implies(z3.And(0 <= i, i < L.len_(vv)), mem(L.nth(vv, i), tt)), [L.nth(vv, i)])
ax("mem-List", L.FA([v, a], mem(v, TY.List_(a)) == z3.And(subclass(cls_of(v), CLS["list"]), _all(v, a)), [mem(v, TY.List_(a))]))
ax("mem-Set", L.FA([v, a], mem(v, TY.Set_(a)) == z3.And(subclass(cls_of(v), CLS["set"]), _all(v, a)), [mem(v, TY.Set_(a))]))
ax("mem-Tuple", L.FA([v, sq], mem(v, TY.Tuple_(sq)) == z3.And(subclass(cls_of(v), CLS["tuple"]), L.len_(v) == L.len_(sq),
                                                                L.FA(i, z3.Implies(z3.And(0 <= i, i < L.len_(v)), mem(L.nth(v, i), L.nth(sq, i))), [L.nth(v, i)])),
                    [mem(v, TY.Tuple_(sq))]))
ax("mem-TupleVar", L.FA([v, a], mem(v, TY.TupleVar_(a)) == z3.And(subclass(cls_of(v), CLS["tuple"]), _all(v, a)), [mem(v, TY.TupleVar_(a))]))
_dict = lambda vv, kk, ww: L.FA(i, z3.Implies(z3.And(0 <= i, i < L.len_(vv)), z3.And(mem(L.nth(vv, i), kk), mem(L.get(vv, L.nth(vv, i)), ww))), [L.nth(vv, i)])
ax("mem-Dict", L.FA([v, a, b], mem(v, TY.Dict_(a, b)) == z3.And(subclass(cls_of(v), CLS["dict"]), _dict(v, a, b)), [mem(v, TY.Dict_(a, b))]))
ax("mem-DefaultDict", L.FA([v, a, b], mem(v, TY.DefaultDict_(a, b)) == z3.And(subclass(cls_of(v), CLS["defaultdict"]), _dict(v, a, b)),
                          [mem(v, TY.DefaultDict_(a, b))]))
ax("defaultdict-is-dict", subclass(CLS["defaultdict"], CLS["dict"]))
ax("mem-Type", L.FA([v, a], mem(v, TY.Type_(a)) == z3.And(is_classobj(v), subclass(v, a)), [mem(v, TY.Type_(a))]))
ax("mem-Callable", L.FA(v, mem(v, TY.CALLABLE) == is_callable_obj(v), [mem(v, TY.CALLABLE)]))
ax("mem-Iterator-Any", L.FA(v, z3.Implies(is_generator_obj(v), mem(v, TY.Iterator_(TY.ANY))), [mem(v, TY.Iterator_(TY.ANY))]))
ax("mem-union", L.FA([v, t], z3.Implies(kind(t) == K["Union"],
                                         mem(v, t) == z3.Exists([i], z3.And(0 <= i, i < L.len_(args(t)), mem(v, L.nth(args(t), i))))), [mem(v, t)]))
ax("mem-Union_", L.FA([v, sq], z3.Implies(L.len_(sq) >= 1,
                                           mem(v, TY.Union_(sq)) == z3.Exists([i], z3.And(0 <= i, i < L.len_(sq), mem(v, L.nth(sq, i))))),
                     [mem(v, TY.Union_(sq))]))
ax("mem-Union_-intro", L.FA([v, sq, i], z3.Implies(z3.And(0 <= i, i < L.len_(sq), mem(v, L.nth(sq, i))), mem(v, TY.Union_(sq))),
                           [(TY.Union_(sq), mem(v, L.nth(sq, i)))]))
is_strval = declare_pred("is_strval", L.V, L.B)
ax("strval", L.FA(v, is_strval(v) == subclass(cls_of(v), CLS["str"]), [is_strval(v)]))
_req, _opt = TY.td_req, TY.td_opt
ax("mem-TD", L.FA([v, t], z3.Implies(kind(t) == K["TD"],
                                      mem(v, t) == z3.And(subclass(cls_of(v), CLS["dict"]),
                                                          L.FA(k, z3.Implies(L.has(_req(t), k), z3.And(L.has(v, k), mem(L.get(v, k), L.get(_req(t), k)))),
                                                               [L.has(_req(t), k)]),
                                                          L.FA(k, z3.Implies(L.has(v, k), z3.And(is_strval(k), z3.Or(L.has(_req(t), k), L.has(_opt(t), k)),
                                                                                               z3.Implies(z3.And(L.has(_opt(t), k), z3.Not(L.has(_req(t), k))),
                                                                                                          mem(L.get(v, k), L.get(_opt(t), k))))),
                                                               [L.has(v, k)]))),
                 [mem(v, t)]))

# ---- what get_type's tests observe
_BUILTIN_CALLABLES = "monkeytype.typing:_BUILTIN_CALLABLE_TYPES"
# the interpreter's own callable types (Python-level and C-level): is_callable_obj(v) abstracts "type(v) is a subclass of one of them"
_CALLABLE_TYPE_NAMES = ("types.FunctionType", "types.LambdaType", "types.MethodType", "types.BuiltinMethodType", "types.BuiltinFunctionType",
                        "types.MethodDescriptorType", "types.WrapperDescriptorType", "types.MethodWrapperType", "types.ClassMethodDescriptorType")


def _val_isinstance(ip, r, a, kw, node):
    c = a[0]
    # isinstance(x, T) falls back to x.__class__ (user code) unless type(x) is already a subclass of T
    if isinstance(c, GlobalRef) and c.path in _TYPE_PREDS_LAZY():
        ip.effect("isinstance", _TYPE_PREDS_LAZY()[c.path](r.term), node)
    else:
        ip.effect("isinstance", z3.BoolVal(False), node)
    if isinstance(c, GlobalRef):
        if c.path == "builtins.type":
            return ZB(is_classobj(r.term))
        if c.path == "types.GeneratorType":
            return ZB(is_generator_obj(r.term))
        if c.path == "builtins.str":
            return ZB(is_strval(r.term))
        if c.path in _CALLABLE_TYPE_NAMES:
            return ZB(is_callable_obj(r.term))
    raise Unsupported("isinstance(Val, %r)" % (c,))


def _TYPE_PREDS_LAZY():
    return _TYPE_PREDS


R.METHODS[("Val", "__isinstance__")] = _val_isinstance
TY.ISINSTANCE["builtins.str"] = lambda ip, o: is_strval(as_v(o))


def _type_of(ip, a, kw, node):
    o = a[0]
    if isinstance(o, PyC) and o.value is None:
        return ZV(TY.NONETYPE, "Ty")
    r = ZV(cls_of(as_v(o)), "Ty")
    r.cls_of_val = isinstance(o, ZV) and base_tag(o.tag) in ("Val", "Callee")      # the class object of a program value: `==` / `in` on it may run a metaclass __eq__
    return r


R.EXTERNALS["builtins.type"] = R.ExtFn(_type_of)
import pyvc.values as _vals
for n in ("list", "set", "dict", "tuple", "str", "object", "type", "int", "bool"):
    _vals.GLOBAL_ATOMS["builtins." + n] = CLS[n]
R.EXTERNALS["collections.defaultdict"] = ZV(CLS["defaultdict"], "Ty")
L.axiom(T, "nonetype-same", CLS["NoneType"] == TY.NONETYPE)
L.axiom(T, "str-same", CLS["str"] == TY.STR)
L.axiom(T, "object-same", CLS["object"] == TY.OBJECT)


@spec("forall_val")
def _forall_val(ip, args_, kw):
    clo = args_[0]
    names = [x.arg for x in clo.node.args.args]
    vs = [L.fresh(n) for n in names]
    body = as_bool(ip.call_closure(clo, [ZV(x, "Val") for x in vs]))
    return ZB(z3.ForAll(vs, body))

wf_val = declare_pred("wf_val", L.V, L.B)    # well-formed runtime value: nested dict / set values have distinct keys / elements
ax("wf-val-elem", L.FA([v, i], z3.Implies(z3.And(wf_val(v), 0 <= i, i < L.len_(v)), wf_val(L.nth(v, i))), [(wf_val(v), L.nth(v, i))]))
ax("wf-val-dval", L.FA([v, k], z3.Implies(z3.And(wf_val(v), L.has(v, k)), wf_val(L.get(v, k))), [(wf_val(v), L.get(v, k))]))
ax("wf-val-dictlike", L.FA(v, z3.Implies(z3.And(wf_val(v), z3.Or(exact(v, "dict"), exact(v, "defaultdict"), exact(v, "set"))), L.is_dictlike(v)), [wf_val(v)]))
# generator objects cannot be inspected: ghost sequence of what they yield / return
yields_of = declare_pred("yields_of", L.V, L.V, tag="Seq[Val]")
returns_of = declare_pred("returns_of", L.V, L.V, tag="Val")
ax("mem-Iterator", L.FA([v, a], mem(v, TY.Iterator_(a)) == z3.And(is_generator_obj(v), _all(yields_of(v), a)), [mem(v, TY.Iterator_(a))]))
ax("mem-Generator", L.FA([v, a, b, c], mem(v, TY.Generator_(a, b, c)) == z3.And(is_generator_obj(v), _all(yields_of(v), a), mem(returns_of(v), c)),
                        [mem(v, TY.Generator_(a, b, c))]))

# ---- inspect.getmro / issubclass as RewriteLargeUnion uses them
mro = declare_pred("mro", L.V, L.V, tag="Seq[Ty]")
ax("mro-super", L.FA([c, i], z3.Implies(z3.And(TY.is_class(c), 0 <= i, i < L.len_(mro(c))), z3.And(kind(L.nth(mro(c), i)) == K["Class"], subclass(c, L.nth(mro(c), i)))),
                  [L.nth(mro(c), i)]))


def _getmro(ip, a, kw, node):
    x = as_v(a[0])
    ip.partial(TY.is_class(x), "AttributeError", node, "getmro")
    return ZV(mro(x), "Seq[Ty]")


_TYPE_PREDS = {"builtins.type": lambda o: TY.is_class(o), "types.GeneratorType": lambda o: is_generator_obj(o)}
for _n in _CALLABLE_TYPE_NAMES:
    _TYPE_PREDS[_n] = lambda o: is_callable_obj(o)


_TYPE_PREDS["builtins.str"] = lambda o: is_strval(o)
for _n in ("builtins.classmethod", "builtins.staticmethod", "builtins.property"):
    _TYPE_PREDS[_n] = (lambda n_: lambda o: L.fn("callee_is_" + n_.replace(".", "_"), L.V, L.B)(o))(_n)


def _issubclass(ip, a, kw, node):
    if isinstance(a[1], ZV) and a[1].term.eq(L.const("django_cached_property")) and isinstance(a[0], ZV) and z3.is_app(a[0].term) and a[0].term.decl().name() == "cls_of":
        return ZB(L.fn("callee_is_django_cached_property", L.V, L.B)(a[0].term.arg(0)))
    # issubclass(type(obj), T) for the interpreter's own types: isinstance(obj, T) decided on the real runtime class
    items = a[1].items if isinstance(a[1], PySeq) else [a[1]]
    if all(isinstance(c, GlobalRef) and c.path in _TYPE_PREDS for c in items) and isinstance(a[0], ZV) \
            and z3.is_app(a[0].term) and a[0].term.decl().name() == "cls_of":
        o = a[0].term.arg(0)
        outs = [_TYPE_PREDS[c.path](o) for c in items]
        return ZB(z3.Or(*outs) if len(outs) > 1 else outs[0])
    x, y = as_v(a[0]), as_v(a[1])
    # TypedDict classes refuse class checks (TypeError), generic aliases are not classes
    ip.partial(z3.And(kind(x) == K["Class"], kind(y) == K["Class"]), "TypeError", node, "issubclass")
    return ZB(subclass(x, y))


R.EXTERNALS["inspect.getmro"] = R.ExtFn(_getmro)
R.EXTERNALS["builtins.issubclass"] = R.ExtFn(_issubclass)
_vals.GLOBAL_ATOMS["builtins.object"] = CLS["object"]
ax("class-kind-is-class", L.FA(c, z3.Implies(z3.And(TY.is_class(c), subclass(v, c)), True), [subclass(v, c)]))
# instances of a subclass conform to the superclass (mem on plain classes is subclass of the runtime class)
ax("mem-class-super", L.FA([v, c, d], z3.Implies(z3.And(kind(c) == K["Class"], kind(d) == K["Class"], mem(v, c), subclass(c, d)), mem(v, d)),
                          [(mem(v, c), subclass(c, d))]))
# class objects that occur as runtime values are plain classes (TypedDict classes as values are outside the value grammar)
ax("wf-val-class", L.FA(v, z3.Implies(z3.And(wf_val(v), TY.is_class(v)), kind(v) == K["Class"]), [wf_val(v)]))


# ---- collections.defaultdict(list | set) built locally by repo code (pure-update semantics; a missing key reads as the empty container)
def _defaultdict_ctor(ip, a, kw, node):
    if len(a) == 1 and isinstance(a[0], GlobalRef) and a[0].path in ("builtins.list", "builtins.set"):
        return ZV(L.EMPTY_DICT, "DDict:" + a[0].path.split(".")[1])
    raise Unsupported("defaultdict(%r)" % (a,))


R.EXTERNALS["collections.defaultdict.__call__"] = R.ExtFn(_defaultdict_ctor)


def _ddict_getitem(ip, r, a, kw, node):
    k = as_v(a[0])
    kind_ = r.tag.split(":")[1]
    empty = L.EMPTY_SET if kind_ == "set" else L.EMPTY_SEQ
    return ZV(z3.If(L.has(r.term, k), L.get(r.term, k), empty), "set" if kind_ == "set" else "seq")


for _t in ("DDict:list", "DDict:set"):
    R.METHODS[(_t, "__getitem__")] = _ddict_getitem
    R.METHODS[(_t, "items")] = lambda ip, r, a, k, n: ZV(L.dict_items(r.term), "Seq[Pair[str,seq]]")
    R.METHODS[(_t, "values")] = lambda ip, r, a, k, n: ZV(L.dict_values(r.term), "Seq[seq]")
    R.METHODS[(_t, "keys")] = lambda ip, r, a, k, n: ZV(r.term, "Seq[str]")


def _ty_call(ip, r, a, kw, node):
    if r.term.eq(CLS["defaultdict"]):
        return _defaultdict_ctor(ip, a, kw, node)
    raise Unsupported("call of type object %s" % r.term)


R.METHODS[("Ty", "__call__")] = _ty_call

# ---- itertools.chain / chain.from_iterable (membership view is all the repo needs)
flat = declare_pred("flat", L.V, L.V, tag="seq")
_S, _x, _p = L.const("fS"), L.const("fx"), L.const("fp", L.I)
flat_src = L.fn("flat_src", L.V, L.V, L.I)
ax("flat-elim", L.FA([_S, _x], z3.Implies(L.has(flat(_S), _x), z3.And(0 <= flat_src(_S, _x), flat_src(_S, _x) < L.len_(_S), L.has(L.nth(_S, flat_src(_S, _x)), _x))),
                     [L.has(flat(_S), _x)]))
ax("flat-intro", L.FA([_S, _x, _p], z3.Implies(z3.And(0 <= _p, _p < L.len_(_S), L.has(L.nth(_S, _p), _x)), L.has(flat(_S), _x)),
                      [(flat(_S), L.has(L.nth(_S, _p), _x))]))
R.EXTERNALS["itertools.chain"] = R.ExtFn(lambda ip, a, kw, node: ZV(L.seq_concat(ip.seq_of(a[0]).term, ip.seq_of(a[1]).term), "seq") if len(a) == 2 else (_ for _ in ()).throw(Unsupported("chain arity")))
R.EXTERNALS["itertools.chain.from_iterable"] = R.ExtFn(lambda ip, a, kw, node: ZV(flat(ip.seq_of(a[0]).term), "seq"))
ax("depth-td-pos", L.FA(t, z3.Implies(kind(t) == K["TD"], depth(t) >= 1), [depth(t)]))
ax("mdepth-empty", L.FA(sq, z3.Implies(L.len_(sq) == 0, mdepth(sq) == 0), [mdepth(sq)]))


@spec("flat_")
def _flat_spec(ip, a, kw):
    return ZV(flat(as_v(a[0])), "seq")

# ---- class hierarchy as RewriteMostSpecificCommonBase walks it: __bases__, functools.reduce
bases_of = declare_pred("bases_of", L.V, L.V, tag="Seq[Ty]")
cdepth = declare_pred("cdepth", L.V, L.I)             # length of the longest base chain above a class (the hierarchy is well founded)
ax("bases-classes", L.FA([c, i], z3.Implies(z3.And(TY.is_class(c), 0 <= i, i < L.len_(bases_of(c))),
                                             z3.And(kind(L.nth(bases_of(c), i)) == K["Class"], cdepth(L.nth(bases_of(c), i)) < cdepth(c))), [L.nth(bases_of(c), i)]))
# instances of a class are instances of its bases (also for TypedDict classes, whose base is dict)
ax("bases-super", L.FA([c, i, v], z3.Implies(z3.And(TY.is_class(c), 0 <= i, i < L.len_(bases_of(c)), mem(v, c)), mem(v, L.nth(bases_of(c), i))),
                       [(mem(v, c), L.nth(bases_of(c), i))]))
ax("cdepth-nonneg", L.FA(c, cdepth(c) >= 0, [cdepth(c)]))


def _bases_attr(ip, r):
    ip.partial(TY.is_class(r.term), "AttributeError", None, "__bases__")
    return ZV(bases_of(r.term), "Seq[Ty]")


R.ATTRS[("Ty", "__bases__")] = _bases_attr


def _reduce(ip, a, kw, node):
    """functools.reduce(f, seq) without initial value: TypeError on an empty sequence, otherwise a fold with the invariant `loops["reduce0"]`."""
    if len(a) != 2:
        raise Unsupported("functools.reduce with an initial value")
    f, seq = a
    sv = ip.seq_of(seq)
    line = getattr(node, "lineno", 0)
    ip.partial(L.len_(sv.term) >= 1, "TypeError", node, "reduce-empty")
    init = ip.retag(L.nth(sv.term, z3.IntVal(0)), ip.elem_tag(sv))
    return ip.fold_symbolic("reduce0", sv, init, lambda acc, x: ip.call_value(f, [acc, x], {}, node), line)


R.EXTERNALS["functools.reduce"] = R.ExtFn(_reduce)


# str.__str__(k): the plain-str copy of a str (subclass) instance - runs no user code (type slot of str itself); ==-equal to k, so the logic identifies them
def _plain_str(ip, a, kw, node):
    k_ = a[0]
    if isinstance(k_, ZV):
        ip.partial(is_strval(k_.term), "TypeError", node, "str.__str__")
        return ZV(k_.term, "str")
    return k_


R.EXTERNALS["builtins.str.__str__"] = R.ExtFn(_plain_str)


# str.isidentifier(k) / keyword.iskeyword(s): slots of str itself / a frozenset test on a plain str - no user code; the text predicates are uninterpreted
is_identifier = declare_pred("is_identifier", L.V, L.B)
is_keyword = declare_pred("is_keyword", L.V, L.B)


def _isidentifier(ip, a, kw, node):
    k_ = a[0]
    if isinstance(k_, ZV):
        ip.partial(is_strval(k_.term), "TypeError", node, "str.isidentifier")
        return ZB(is_identifier(k_.term))
    return ZB(is_identifier(as_v(k_)))


R.EXTERNALS["builtins.str.isidentifier"] = R.ExtFn(_isidentifier)
R.EXTERNALS["keyword.iskeyword"] = R.ExtFn(lambda ip, a, kw, node: ZB(is_keyword(as_v(a[0]))))

R.METHODS[("str", "isidentifier")] = lambda ip, r, a, kw, node: ZB(is_identifier(as_v(r)))
nfkc = L.fn("unicode_normalize", L.V, L.V, L.V)       # unicodedata.normalize(form, s): text, uninterpreted
R.EXTERNALS["unicodedata.normalize"] = R.ExtFn(lambda ip, a, kw, node: ZV(nfkc(as_v(a[0]), as_v(a[1])), "str"))
R.SPEC["nfkc_"] = SpecFn(lambda ip, a_, kw: ZV(nfkc(as_v(PyC("NFKC")), as_v(a_[0])), "str"), "nfkc_")


# ---- Type[obj] on a class object of the traced program: typing refuses a few classes as a type argument (Generic, Protocol: "Plain ... is not valid as type argument")
from pyvc.state import RaisedEx as _RaisedEx
typing_refuses = declare_pred("typing_refuses", L.V, L.B)


def _type_subscript(ip, a, kw, node):
    x = a[0]
    if isinstance(x, PySeq) and len(x.items) == 1:
        x = x.items[0]
    if isinstance(x, ZV) and base_tag(x.tag) == "Val":
        ln = getattr(node, "lineno", 0)
        if ip.branch(typing_refuses(x.term), ln):
            raise _RaisedEx(ExcVal("TypeError"), ln)
    return ZV(TY.Type_(as_v(x)), "Ty")


R.EXTERNALS["typing.Type.__getitem__"] = R.ExtFn(_type_subscript)
