"""T-CLI / T-IMPORT / T-JSON: argparse namespace, config object, stored thunks, name lookup environment, JSON dicts
(assumed contracts on argparse / importlib / json; the stale-row kinds of C10 are the cases of `lookup`)."""
import z3
from pyvc import logic as L
from pyvc import registry as R
from pyvc.values import *
from pyvc.state import RaisedEx
from pyvc.spec import declare_pred, spec

T = "cli"
declare_always_truthy("Args", "Config", "Thunk", "Stream", "StubMap", "ModuleStub", "JDict", "Obj")
f = lambda n, *s: L.fn(n, *s)
for a_, t_ in (("config", "Config"), ("limit", "Opt[int]"), ("existing_annotation_strategy", "Enum:ExistingAnnotationStrategy")):
    R.ATTRS[("Args", a_)] = (lambda a, t: lambda ip, r: ZV(f("args_" + a, L.V, L.V)(r.term), t))(a_, t_)
    declare_pred("args_" + a_, L.V, L.V, tag=t_)
for a_ in ("verbose", "disable_type_rewriting", "sample_count", "diff", "pep_563"):
    R.ATTRS[("Args", a_)] = (lambda a: lambda ip, r: ZB(f("args_" + a, L.V, L.B)(r.term)))(a_)
    declare_pred("args_" + a_, L.V, L.B)
declare_pred("args_module", L.V, L.V, tag="str")
declare_pred("args_qualname", L.V, L.V, tag="Opt[str]")
R.ATTRS[("Args", "module_path")] = lambda ip, r: PySeq([ZV(f("args_module", L.V, L.V)(r.term), "str"), ZV(f("args_qualname", L.V, L.V)(r.term), "Opt[str]")])
R.METHODS[("Config", "trace_store")] = lambda ip, r, a, k, n: ZV(f("config_store", L.V, L.V)(r.term), "Store")
R.METHODS[("Config", "type_rewriter")] = lambda ip, r, a, k, n: ZV(f("config_rewriter", L.V, L.V)(r.term), "Rewriter")
R.METHODS[("Config", "max_typed_dict_size")] = lambda ip, r, a, k, n: ZV(f("config_k", L.V, L.V)(r.term), "Opt[int]")
for n_ in ("config_store", "config_rewriter", "config_k"):
    declare_pred(n_, L.V, L.V)
# Config.max_typed_dict_size() -> int: a configuration returns an int as annotated (None would make shrink_typed_dict_types raise TypeError)
_c0 = L.fresh("c")
L.axiom(T, "config-k-is-int", L.FA(_c0, f("config_k", L.V, L.V)(_c0) != L.NONE, [f("config_k", L.V, L.V)(_c0)]))
stored = declare_pred("stored", L.V, L.V, L.V, L.V, L.V, tag="Seq[Thunk]")      # store.filter(module, qualname, limit)
R.METHODS[("Store", "filter")] = lambda ip, r, a, k, n: ZV(stored(r.term, as_v(a[0]), as_v(a[1]), as_v(a[2])), "Seq[Thunk]")
decodes = declare_pred("decodes", L.V, L.B)          # thunk.to_trace() returns (else it raises MonkeyTypeError: proved on the decode chain)
DEC = declare_pred("DEC", L.V, L.V, tag="Trace")
DECS = declare_pred("DECS", L.V, L.I, L.V, tag="Seq[Trace]")   # decoded traces among the first i thunks, in order
NF = declare_pred("NF", L.V, L.I, L.I)                         # number of undecodable thunks among the first i
_t, _i = L.const("ths"), L.const("i", L.I)
L.axiom(T, "DECS-0", L.FA(_t, z3.And(DECS(_t, 0) == L.EMPTY_SEQ, NF(_t, 0) == 0), [DECS(_t, 0)]))
L.axiom(T, "NF-0", L.FA(_t, NF(_t, 0) == 0, [NF(_t, 0)]))
L.axiom(T, "DECS-step", L.FA([_t, _i], z3.Implies(z3.And(0 <= _i, _i < L.len_(_t)),
                                                   z3.And(DECS(_t, _i + 1) == z3.If(decodes(L.nth(_t, _i)), L.seq_append(DECS(_t, _i), DEC(L.nth(_t, _i))), DECS(_t, _i)),
                                                          NF(_t, _i + 1) == z3.If(decodes(L.nth(_t, _i)), NF(_t, _i), NF(_t, _i) + 1))),
                              [(DECS(_t, _i), L.nth(_t, _i)), (NF(_t, _i), L.nth(_t, _i))]))
L.axiom(T, "NF-nonneg", L.FA([_t, _i], z3.Implies(_i >= 0, NF(_t, _i) >= 0), [NF(_t, _i)]))


def _to_trace(ip, r, a, kw, node):
    if ip.branch(decodes(r.term), getattr(node, "lineno", 0)):
        return ZV(DEC(r.term), "Trace")
    raise RaisedEx(ExcVal("MonkeyTypeError", exact=False), getattr(node, "lineno", 0))


R.METHODS[("Thunk", "to_trace")] = _to_trace
R.EXC_PARENT.setdefault("MonkeyTypeError", "Exception")
R.EXC_PARENT.setdefault("NameLookupError", "MonkeyTypeError")
R.EXC_PARENT.setdefault("InvalidTypeError", "MonkeyTypeError")
R.EXC_PARENT.setdefault("HandlerError", "Exception")


def _print(ip, a, kw, node):
    stream = kw.get("file", ZV(L.atom("sys", "stdout"), "Stream"))
    text = a[0] if a else PyC("")
    if isinstance(text, ZV) and not is_prim_str(text):
        txt = L.fn("str_of", L.V, L.S)(text.term)
    else:
        txt = as_str(text)
    ip.st.effects = L.seq_append(ip.st.effects, L.mk_tuple([as_v(PyC("print")), as_v(stream), L.box_str(txt)]))
    return PyC(None)


R.EXTERNALS["builtins.print"] = R.ExtFn(_print)


@spec("is_print")
def _is_print(ip, a, kw):
    """is_print(effect, stream, prefix): the effect is print(<text starting with prefix>, file=stream)."""
    e = as_v(a[0])
    return ZB(z3.And(L.len_(e) == 3, L.nth(e, 0) == as_v(PyC("print")), L.nth(e, 1) == as_v(a[1]),
                     z3.PrefixOf(as_str(a[2]), L.unbox_str(L.nth(e, 2)))))


@spec("print_text")
def _print_text(ip, a, kw):
    return ZS(L.unbox_str(L.nth(as_v(a[0]), 2)))


@spec("int_str")
def _int_str(ip, a, kw):
    return ZS(z3.IntToStr(as_int(a[0])))


R.METHODS[("StubMap", "get")] = lambda ip, r, a, k, n: ZV(z3.If(L.has(r.term, as_v(a[0])), L.get(r.term, as_v(a[0])), as_v(a[1]) if len(a) > 1 else L.NONE), "Opt[ModuleStub]")


@spec("stub_for")
def _stub_for(ip, a, kw):
    m, key = as_v(a[0]), as_v(a[1])
    return ZV(z3.If(L.has(m, key), L.get(m, key), L.NONE), "Opt[ModuleStub]")



render_text = declare_pred("render_text", L.V, L.S)
R.METHODS[("ModuleStub", "render")] = lambda ip, r, a, k, n: ZS(render_text(r.term))
file_text = declare_pred("file_text", L.V, L.S)


def _import_module(ip, a, kw, node):
    if ip.branch(L.fresh("import_raises", L.B), getattr(node, "lineno", 0)):
        raise RaisedEx(ExcVal("ImportError", exact=False), getattr(node, "lineno", 0))
    return ZV(L.fn("imported", L.V, L.V)(as_v(a[0])), "Obj")


R.EXTERNALS["importlib.import_module"] = R.ExtFn(_import_module)
R.EXTERNALS["inspect.getfile"] = R.ExtFn(lambda ip, a, kw, node: ZV(L.fn("getfile", L.V, L.V)(as_v(a[0])), "str"))
declare_pred("getfile", L.V, L.V, tag="str")
declare_pred("imported", L.V, L.V, tag="Obj")
R.EXTERNALS["pathlib.Path"] = R.ExtFn(lambda ip, a, kw, node: ZV(L.fn("path_of", L.V, L.V)(as_v(a[0])), "Path"))


def _read_text(ip, r, a, kw, node):
    if ip.branch(L.fresh("read_raises", L.B), getattr(node, "lineno", 0)):
        raise RaisedEx(ExcVal("OSError", exact=False), getattr(node, "lineno", 0))
    return ZS(file_text(r.term))


def _write_text(ip, r, a, kw, node):
    if ip.branch(L.fresh("write_raises", L.B), getattr(node, "lineno", 0)):
        raise RaisedEx(ExcVal("OSError", exact=False), getattr(node, "lineno", 0))
    ip.st.effects = L.seq_append(ip.st.effects, L.mk_tuple([as_v(PyC("write_text")), r.term, L.box_str(as_str(a[0]))]))
    return PyC(None)


R.METHODS[("Path", "read_text")] = _read_text
R.METHODS[("Path", "write_text")] = _write_text
R.EXTERNALS["os.path.exists"] = R.ExtFn(lambda ip, a, kw, node: ZB(L.fn("path_exists", L.V, L.B)(as_v(a[0]))))
R.EXTERNALS["os.path.splitext"] = R.ExtFn(lambda ip, a, kw, node: PySeq([ZV(L.fn("splitext0", L.V, L.V)(as_v(a[0])), "str"), ZV(L.fresh("ext"), "str")]))
L.axiom(T, "splitext-str", L.FA(_t, L.is_str(L.fn("splitext0", L.V, L.V)(_t)), [L.fn("splitext0", L.V, L.V)(_t)]))
for _n in ("args_module",):
    L.axiom(T, _n + "-str", L.FA(_t, L.is_str(L.fn(_n, L.V, L.V)(_t)), [L.fn(_n, L.V, L.V)(_t)]))


@spec("last_effect")
def _last_effect(ip, a, kw):
    e = ip.st.effects
    return ZV(L.nth(e, L.len_(e) - 1), "seq")


@spec("is_write")
def _is_write(ip, a, kw):
    e = as_v(a[0])
    return ZB(z3.And(L.len_(e) == 3, L.nth(e, 0) == as_v(PyC("write_text"))))


@spec("no_prior_write")
def _no_prior_write(ip, a, kw):
    """The entry effect trace contains no write_text (so any write in the final trace was made by this call)."""
    e0 = ip.effects0
    q = L.fresh("q", L.I)
    return ZB(z3.ForAll([q], z3.Implies(z3.And(0 <= q, q < L.len_(e0)), z3.Not(z3.And(L.len_(L.nth(e0, q)) == 3, L.nth(L.nth(e0, q), 0) == as_v(PyC("write_text")))))))

# ---- name lookup environment (importlib / getattr) and looked-up objects
has_attr = declare_pred("has_attr", L.V, L.V, L.B)
attr_of = declare_pred("attr_of", L.V, L.V, L.V, tag="Obj")
module_exists = declare_pred("module_exists", L.V, L.B)
OK = {k: L.atom("okind", k) for k in ("function", "builtin", "method", "property", "cached_property", "other")}
okind = declare_pred("okind", L.V, L.V)


def _import_module2(ip, a, kw, node):
    # importing a stored module either succeeds or raises some ImportError (ModuleNotFoundError, or what a broken / half-removed package raises);
    # assumption: exceptions of other classes raised by a module's import-time code are outside (the property's stale kinds are about names that moved)
    if not ip.branch(module_exists(as_v(a[0])), getattr(node, "lineno", 0)):
        raise RaisedEx(ExcVal("ImportError", exact=False), getattr(node, "lineno", 0))
    return ZV(L.fn("imported", L.V, L.V)(as_v(a[0])), "Obj")


R.EXTERNALS["importlib.import_module"] = R.ExtFn(_import_module2)


def _obj_getattr(ip, obj, name, node, dynamic=False):
    nm = as_v(name)
    if not ip.branch(has_attr(obj.term, nm), getattr(node, "lineno", 0)):
        # a *dynamic* lookup runs module-level __getattr__, properties and descriptors of the stored name's owner: a missing name raises AttributeError,
        # a stale one whatever that code raises (any Exception); inspect.getattr_static runs no such code
        raise RaisedEx(ExcVal("Exception", exact=False) if dynamic else ExcVal("AttributeError", exact=True), getattr(node, "lineno", 0))
    return ZV(attr_of(obj.term, nm), "Obj")


def _dyn_getattr2(ip, a, kw, node):
    if isinstance(a[0], ZV) and base_tag(a[0].tag) == "Obj" and len(a) == 2:
        return _obj_getattr(ip, a[0], a[1], node, dynamic=True)
    return None


R.DYN_GETATTR = getattr(R, "DYN_GETATTR", [])
R.DYN_GETATTR.append(_dyn_getattr2)
R.EXTERNALS["inspect.getattr_static"] = R.ExtFn(lambda ip, a, kw, node: _obj_getattr(ip, a[0], a[1], node))
unwrap_loops = declare_pred("unwrap_loops", L.V, L.B)      # inspect.unwrap(o) raises ValueError (a __wrapped__ chain that never ends: an object answering every attribute)


def _inspect_unwrap(ip, a, kw, node):
    ln = getattr(node, "lineno", 0)
    if ip.branch(unwrap_loops(as_v(a[0])), ln):
        raise RaisedEx(ExcVal("ValueError"), ln)
    return ZV(L.fn("unwrapped", L.V, L.V)(as_v(a[0])), "Obj")


R.EXTERNALS["inspect.unwrap"] = R.ExtFn(_inspect_unwrap)
R.ATTRS[("Obj", "__module__")] = lambda ip, r: ZV(L.fn("func_module", L.V, L.V)(r.term), "Opt[str]")
R.EXTERNALS["monkeytype.compat:cached_property"] = ZV(L.const("django_cached_property"), "Opt[Cls]")
declare_always_truthy("Cls")


def _obj_isinstance(ip, r, a, kw, node):
    from theories import types as TY
    c = a[0]
    if isinstance(c, GlobalRef):
        m = {"types.MethodType": "method", "builtins.property": "property", "types.FunctionType": "function", "types.BuiltinFunctionType": "builtin"}
        if c.path in m:
            return ZB(okind(r.term) == OK[m[c.path]])
        if c.path == "builtins.type":
            return ZB(TY.is_class(r.term))
        if c.path in TY.ISINSTANCE:
            return ZB(TY.ISINSTANCE[c.path](ip, r))
        if c.path in ("builtins.classmethod", "builtins.staticmethod"):
            return ZB(L.fn("is_" + c.path.split(".")[1], L.V, L.B)(r.term))
    if isinstance(c, ZV) and c.term.eq(L.const("django_cached_property")):
        return ZB(okind(r.term) == OK["cached_property"])
    raise Unsupported("isinstance(Obj, %r)" % (c,))


R.METHODS[("Obj", "__isinstance__")] = _obj_isinstance
for _a in ("__func__", "fget", "fset", "fdel", "func"):
    R.ATTRS[("Obj", _a)] = (lambda a_: lambda ip, r: ZV(L.fn("obj_" + a_, L.V, L.V)(r.term), "Opt[Obj]"))(_a)


def _obj_subscript(ip, r, a, kw, node):
    from theories import types as TY
    # assumption (listed): a name that still denotes a generic accepts the stored number of arguments
    return ZV(TY.subscript(r.term, ip.seq_of(a[0]).term), "Ty")


R.METHODS[("Obj", "__getitem__")] = _obj_subscript

# ---- JSON dicts produced by the encoder
jhas = declare_pred("jhas", L.V, L.V, L.B)
jget = declare_pred("jget", L.V, L.V, L.V, tag="JVal")
jdepth = declare_pred("jdepth", L.V, L.I)


def _j_getitem(ip, r, a, kw, node):
    k = as_v(a[0])
    ip.partial(jhas(r.term, k), "KeyError", node, "json-key")
    return ZV(jget(r.term, k), "JDict")


def _j_get(ip, r, a, kw, node):
    k = as_v(a[0])
    default = a[1] if len(a) > 1 else PyC(None)
    tag = "Opt[JDict]" if isinstance(default, PyC) and default.value is None else None
    return ZV(z3.If(jhas(r.term, k), jget(r.term, k), as_v(default)), tag)


R.METHODS[("JDict", "__getitem__")] = _j_getitem
R.METHODS[("JDict", "get")] = _j_get
R.METHODS[("JDict", "items")] = lambda ip, r, a, k, n: ZV(L.dict_items(r.term), "Seq[Pair[str,JDict]]")
_d, _k2 = L.const("jd"), L.const("jk")
L.axiom(T, "jdepth-nonneg", L.FA(_d, jdepth(_d) >= 0, [jdepth(_d)]))
L.axiom(T, "jdepth-get", L.FA([_d, _k2], z3.Implies(jhas(_d, _k2), jdepth(jget(_d, _k2)) < jdepth(_d)), [jget(_d, _k2)]))
L.axiom(T, "jdepth-elem", L.FA([_d, _i], z3.Implies(z3.And(0 <= _i, _i < L.len_(_d)), jdepth(L.nth(_d, _i)) < jdepth(_d)), [(jdepth(_d), L.nth(_d, _i))]))
L.axiom(T, "jdepth-dval", L.FA([_d, _k2], z3.Implies(L.has(_d, _k2), jdepth(L.get(_d, _k2)) < jdepth(_d)), [(jdepth(_d), L.get(_d, _k2))]))
R.EXTERNALS["json.loads"] = R.ExtFn(lambda ip, a, kw, node: ZV(L.fn("json_loads", L.S, L.V)(as_str(a[0])), "JDict"))
R.EXTERNALS["mypy_extensions.TypedDict"] = R.ExtFn(lambda ip, a, kw, node: ZV(L.fn("named_td", L.V, L.V, L.V)(as_v(a[0]), as_v(a[1])), "Ty"))
R.EXTERNALS["monkeytype.typing:NotImplementedType"] = ZV(L.atom("cls", "NotImplementedType"), "Ty")
R.EXTERNALS["monkeytype.typing:mappingproxy"] = ZV(L.atom("cls", "mappingproxy"), "Ty")


def _any_getter_call(ip, r, a, kw, node):
    """attr_getter passed by the caller: getattr-like (succeeds, or raises like a dynamic getattr)."""
    return _obj_getattr(ip, a[0], a[1], node, dynamic=True)


R.METHODS[("Getter", "__call__")] = _any_getter_call
declare_always_truthy("Getter")

from theories import types as _TY
for _n in ("NotImplementedType", "mappingproxy"):
    L.axiom(T, "kind-" + _n, z3.And(_TY.kind(L.atom("cls", _n)) == _TY.K["Class"], z3.Not(_TY.is_special(L.atom("cls", _n)))))
_b = L.const("bb", L.B)
L.axiom(T, "truthy-bool", L.FA(_b, L.truthy(L.box_bool(_b)) == _b, [L.box_bool(_b)]))


@spec("truthy_")
def _truthy(ip, a, kw):
    return ZB(L.truthy(as_v(a[0])))


def _decoder_call(ip, r, a, kw, node):
    if ip.branch(L.fresh("decoder_raises", L.B), getattr(node, "lineno", 0)):
        raise RaisedEx(ExcVal("MonkeyTypeError", exact=False), getattr(node, "lineno", 0))
    return ZV(L.fn("decoded", L.V, L.V, L.V)(r.term, as_v(a[0])), "Ty")


R.METHODS[("Decoder", "__call__")] = _decoder_call
declare_always_truthy("Decoder", "Row")


@spec("json_loads_")
def _json_loads_spec(ip, a, kw):
    return ZV(L.fn("json_loads", L.S, L.V)(as_str(a[0])), "JDict")

R.METHODS[("Config", "trace_logger")] = lambda ip, r, a, k, n: ZV(f("config_logger", L.V, L.V)(r.term), "Logger")
R.METHODS[("Config", "code_filter")] = lambda ip, r, a, k, n: ZV(f("config_filter", L.V, L.V)(r.term), "Opt[Filter]")
R.METHODS[("Config", "sample_rate")] = lambda ip, r, a, k, n: ZV(f("config_rate", L.V, L.V)(r.term), "Opt[int]")
for n_ in ("config_logger", "config_filter", "config_rate"):
    declare_pred(n_, L.V, L.V)
R.EXTERNALS["monkeytype.config:get_default_config"] = R.ExtFn(lambda ip, a, kw, node: ZV(L.const("default_config"), "Config"))
R.SPEC["default_config"] = ZV(L.const("default_config"), "Config")

# collections.Counter(iterable): some mapping element -> count (its content is irrelevant to every property; only that it is a finite mapping)
R.EXTERNALS["collections.Counter"] = R.ExtFn(lambda ip, a, kw, node: (lambda d_: (ip.st.assume(L.is_dictlike(d_)), ZV(d_, "Dict[str,int]"))[1])(L.fresh("counter")))
R.ATTRS[("Trace", "funcname")] = lambda ip, r: ZV(L.fn("trace_funcname", L.V, L.V)(r.term), "str")

# the abstract store at the CLI level: its module listing (what SQLiteStore.list_modules is proved to return for the sqlite store: contracts/db.py)
store_modules = declare_pred("store_modules", L.V, L.V, tag="Seq[str]")
R.METHODS[("Store", "list_modules")] = lambda ip, r, a, k, n: ZV(store_modules(r.term), "Seq[str]")
R.SPEC["str_join"] = SpecFn(lambda ip, a_, kw: ZS(L.fn("str_join", L.S, L.V, L.S)(as_str(a_[0]), as_v(a_[1]))), "str_join")
