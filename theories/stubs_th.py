"""T-STUBS (C12): the stub objects build_module_stubs assembles.

ModuleStub / ClassStub / ImportBlockStub are heap objects (their constructors are inlined: plain field-assigning __init__s);
FunctionStub is modelled as an immutable record (constructor + observers) - assumption, listed: a FunctionStub is not mutated after
construction; FunctionDefinition is read-only here (observers)."""
import z3
from pyvc import logic as L
from pyvc import registry as R
from pyvc.values import *
from pyvc.spec import declare_pred, spec
from theories import path as PATH

T = "stubs"
ax = lambda n, e: L.axiom(T, n, e)
S = lambda s: L.box_str(z3.StringVal(s))
declare_always_truthy("FunctionDefinition", "FunctionStub", "ClassStub", "ImportBlockStub", "ModuleStub")

# ---- FunctionDefinition (read-only)
_FD = {"module": "str", "qualname": "str", "kind": "Enum:FunctionKind", "signature": "Sig", "typed_dict_class_stubs": "Seq[ClassStub]"}
for _a, _t in _FD.items():
    declare_pred("fd_" + _a, L.V, L.V, tag=_t)
    R.ATTRS[("FunctionDefinition", _a)] = (lambda a_, t_: lambda ip, r: ZV(L.fn("fd_" + a_, L.V, L.V)(r.term), t_))(_a, _t)
declare_pred("fd_is_async", L.V, L.B)
R.ATTRS[("FunctionDefinition", "is_async")] = lambda ip, r: ZB(L.fn("fd_is_async", L.V, L.B)(r.term))
_e = L.const("st_e")
ax("fd-strs", L.FA(_e, z3.And(L.is_str(L.fn("fd_module", L.V, L.V)(_e)), L.is_str(L.fn("fd_qualname", L.V, L.V)(_e))), [L.fn("fd_module", L.V, L.V)(_e)]))
ax("fd-strs2", L.FA(_e, z3.And(L.is_str(L.fn("fd_module", L.V, L.V)(_e)), L.is_str(L.fn("fd_qualname", L.V, L.V)(_e))), [L.fn("fd_qualname", L.V, L.V)(_e)]))

# ---- FunctionStub: immutable record
mk_fstub = L.fn("mk_fstub", L.V, L.V, L.V, L.V, L.B, L.V)
_FS = ["name", "signature", "kind", "strip_modules"]
_fs_obs = {a: declare_pred("fs_" + a, L.V, L.V, tag={"name": "str", "signature": "Sig", "kind": "Enum:FunctionKind", "strip_modules": "Seq[str]"}[a]) for a in _FS}
fs_is_async = declare_pred("fs_is_async", L.V, L.B)
_a1, _a2, _a3, _a4 = (L.const("st_a%d" % k) for k in range(4))
_b = L.const("st_b", L.B)
_app = mk_fstub(_a1, _a2, _a3, _a4, _b)
ax("mk-fstub", L.FA([_a1, _a2, _a3, _a4, _b], z3.And(_fs_obs["name"](_app) == _a1, _fs_obs["signature"](_app) == _a2, _fs_obs["kind"](_app) == _a3,
                                                     _fs_obs["strip_modules"](_app) == _a4, fs_is_async(_app) == _b, _app != L.NONE), [_app]))
for _a in _FS:
    R.ATTRS[("FunctionStub", _a)] = (lambda a_: lambda ip, r: ZV(_fs_obs[a_](r.term), {"name": "str", "signature": "Sig", "kind": "Enum:FunctionKind", "strip_modules": "Seq[str]"}[a_]))(_a)
R.ATTRS[("FunctionStub", "is_async")] = lambda ip, r: ZB(fs_is_async(r.term))


_IMMUTABLE_OK = {}


def _function_stub_is_immutable():
    """The record model of FunctionStub is only valid if nothing assigns its fields outside a constructor: checked on the current source (AST scan of the package)."""
    import ast
    import os
    from pyvc import source
    key = source.REPO
    if key not in _IMMUTABLE_OK:
        bad = []
        pkg = os.path.join(source.REPO, "monkeytype")
        for root, _, files in os.walk(pkg):
            for f in files:
                if not f.endswith(".py"):
                    continue
                tree = ast.parse(open(os.path.join(root, f)).read())
                for fn in ast.walk(tree):
                    if isinstance(fn, (ast.FunctionDef, ast.AsyncFunctionDef)) and fn.name != "__init__":
                        for n in ast.walk(fn):
                            tg = n.targets if isinstance(n, ast.Assign) else ([n.target] if isinstance(n, (ast.AugAssign, ast.AnnAssign)) else [])
                            for t_ in tg:
                                if isinstance(t_, ast.Attribute) and t_.attr in ("signature", "kind", "strip_modules", "is_async"):
                                    bad.append("%s:%d" % (f, n.lineno))
        _IMMUTABLE_OK[key] = bad
    return _IMMUTABLE_OK[key]


def _mk_fstub(ip, a, kw, node):
    if kw or len(a) != 5:
        raise Unsupported("FunctionStub(...) arity")
    bad = _function_stub_is_immutable()
    if bad:
        raise Unsupported("a field of a stub object is assigned outside a constructor (%s): the immutable-record model of FunctionStub does not apply" % ", ".join(bad[:3]))
    strip = a[3]
    # `strip_modules or []`: an empty list either way
    return ZV(mk_fstub(as_v(a[0]), as_v(a[1]), as_v(a[2]), ip.seq_of(strip).term, as_bool(a[4])), "FunctionStub")


R.EXTERNALS["monkeytype.stubs:FunctionStub"] = R.ExtFn(_mk_fstub)

# ---- heap objects
R.INLINE_CTORS["monkeytype.stubs:ModuleStub"] = "ModuleStub"
R.INLINE_CTORS["monkeytype.stubs:ClassStub"] = "ClassStub"
R.INLINE_CTORS["monkeytype.stubs:ImportBlockStub"] = "ImportBlockStub"
R.add_field({"ModuleStub"}, "function_stubs", "Dict[str,FunctionStub]", "ModuleStub.function_stubs")
R.add_field({"ClassStub"}, "function_stubs", "Dict[str,FunctionStub]", "ClassStub.function_stubs")
R.add_field({"ModuleStub"}, "class_stubs", "Dict[str,ClassStub]", "ModuleStub.class_stubs")
R.add_field({"ModuleStub"}, "imports_stub", "ImportBlockStub", "ModuleStub.imports_stub")
R.add_field({"ModuleStub"}, "typed_dict_class_stubs", "Seq[ClassStub]", "ModuleStub.typed_dict_class_stubs")
R.add_field({"ClassStub"}, "name", "str", "ClassStub.name")
R.add_field({"ClassStub"}, "attribute_stubs", "seq", "ClassStub.attribute_stubs")
R.add_field({"ImportBlockStub"}, "imports", "ImportMap", "ImportBlockStub.imports")


def _im_pop(ip, r, a, kw, node):
    """ImportMap.pop(key, default): removes the key if present (membership view), as a pure update of the receiver variable."""
    key = as_v(a[0])
    new = L.fresh("popped")
    mm = L.fresh("m")
    ip.st.assume(z3.ForAll([mm], L.has(new, mm) == z3.And(mm != key, L.has(r.term, mm)), patterns=[L.has(new, mm)]))
    ip.st.assume(z3.ForAll([mm], z3.Implies(mm != key, L.get(new, mm) == L.get(r.term, mm)), patterns=[L.get(new, mm)]))
    ip.st.assume(new != L.NONE)
    if node is None:
        raise Unsupported("pop on a temporary ImportMap")
    ip.assign(node, ZV(new, "ImportMap"))
    return ZV(L.fresh("popped_value"), None)


R.METHODS[("ImportMap", "pop")] = _im_pop

# ---- names inside a qualified name
last_name = declare_pred("last_name_of", L.V, L.V, tag="str")           # qualname.split(".")[-1]
class_path = declare_pred("class_path_of", L.V, L.V, tag="str")         # ".".join(qualname.split(".")[:-1])
in_class = declare_pred("in_class_q", L.V, L.B)                         # the qualified name has at least one dot
_q = L.const("st_q")
_parts = lambda qq: PATH.str_split(qq, S("."))
str_join = L.fn("str_join", L.S, L.V, L.S)
ax("last-name-def", L.FA(_q, last_name(_q) == L.nth(_parts(_q), L.len_(_parts(_q)) - 1), [last_name(_q)]))
ax("in-class-def", L.FA(_q, in_class(_q) == (L.len_(_parts(_q)) > 1), [in_class(_q)]))
ax("class-path-def", L.FA(_q, class_path(_q) == L.box_str(str_join(z3.StringVal("."), L.seq_slice(_parts(_q), z3.IntVal(0), L.len_(_parts(_q)) - 1))), [class_path(_q)]))
ax("split-nonempty", L.FA([_q, _a1], L.len_(PATH.str_split(_q, _a1)) >= 1, [PATH.str_split(_q, _a1)]))
ax("split-strs", L.FA([_q, _a1, L.const("i", L.I)], L.is_str(L.nth(PATH.str_split(_q, _a1), L.const("i", L.I))), [L.nth(PATH.str_split(_q, _a1), L.const("i", L.I))]))

# ---- sorted(...) with a key / reverse: an unspecified permutation of the argument (order abstracted: stated assumption, enough for membership reasoning)
sorted_ = L.fn("sorted_", L.V, L.V, L.B, L.V)
_sq, _kf, _x = L.const("st_sq"), L.const("st_kf"), L.const("st_x")
ax("sorted-len", L.FA([_sq, _kf, _b], L.len_(sorted_(_sq, _kf, _b)) == L.len_(_sq), [sorted_(_sq, _kf, _b)]))
ax("sorted-has", L.FA([_sq, _kf, _b, _x], L.has(sorted_(_sq, _kf, _b), _x) == L.has(_sq, _x), [L.has(sorted_(_sq, _kf, _b), _x)]))


def _sorted(ip, a, kw, node):
    import ast as _ast
    if len(a) != 1 or set(kw) - {"key", "reverse"}:
        raise Unsupported("sorted(...) form")
    key = kw.get("key")
    if key is None:
        katom = L.atom("keyfn", "identity")
    elif isinstance(key, GlobalRef):
        katom = L.atom("keyfn", key.path)
    elif isinstance(key, Closure):
        katom = L.atom("keyfn", _ast.dump(key.node))
    else:
        raise Unsupported("sorted key %r" % (key,))
    rev = kw.get("reverse", PyC(False))
    sv = ip.seq_of(a[0])
    return ZV(sorted_(sv.term, katom, as_bool(rev)), sv.tag if (sv.tag or "").startswith("Seq[") else "seq")


R.EXTERNALS["builtins.sorted"] = R.ExtFn(_sorted)

# ---- re.sub / re.escape: uninterpreted text functions; the prefix stripping of FunctionStub.render as a fold over the module list
re_sub = L.fn("re_sub", L.S, L.S, L.S, L.S)
re_escape = L.fn("re_escape", L.S, L.S)
R.EXTERNALS["re.sub"] = R.ExtFn(lambda ip, a, kw, node: ZS(re_sub(as_str(a[0]), as_str(a[1]), as_str(a[2]))))
R.EXTERNALS["re.escape"] = R.ExtFn(lambda ip, a, kw, node: ZS(re_escape(as_str(a[0]))))
stripn = L.fn("stripn", L.S, L.V, L.I, L.S)
_s0, _ii = L.const("st_s0", L.S), L.const("i", L.I)
_PAT = lambda mod: z3.Concat(z3.StringVal(r"(?<![\w.])"), re_escape(L.unbox_str(mod)), z3.StringVal(r"\."))
ax("stripn-0", L.FA([_s0, _sq], stripn(_s0, _sq, 0) == _s0, [stripn(_s0, _sq, 0)]))
ax("stripn-step", L.FA([_s0, _sq, _ii], z3.Implies(_ii >= 0, stripn(_s0, _sq, _ii + 1) == re_sub(_PAT(L.nth(_sq, _ii)), z3.StringVal(""), stripn(_s0, _sq, _ii))),
                       [(stripn(_s0, _sq, _ii), L.nth(_sq, _ii))]))


R.SPEC["re_sub_"] = SpecFn(lambda ip, a, kw: ZS(re_sub(as_str(a[0]), as_str(a[1]), as_str(a[2]))), "re_sub_")


@spec("stripn_")
def _stripn_spec(ip, a, kw):
    return ZS(stripn(as_str(a[0]), as_v(a[1]), as_int(a[2])))


@spec("sorted_by_len_desc_")
def _sorted_spec(ip, a, kw):
    return ZV(sorted_(as_v(a[0]), L.atom("keyfn", "builtins.len"), z3.BoolVal(True)), "Seq[str]")

for _n in ("classmethod", "staticmethod"):
    declare_pred("is_" + _n, L.V, L.B)


@spec("contains_dot")
def _contains_dot(ip, a, kw):
    return ZB(z3.Contains(as_str(a[0]), z3.StringVal(".")))
