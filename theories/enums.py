"""Enum members of the repo exposed to clauses (the members themselves are read from the AST)."""
from pyvc import logic as L
from pyvc import registry as R
from pyvc.values import ZV

for m in ("REPLICATE", "IGNORE", "OMIT"):
    R.SPEC[m] = ZV(L.atom("ExistingAnnotationStrategy", m), "Enum:ExistingAnnotationStrategy")
for m in ("MODULE", "CLASS", "INSTANCE", "STATIC", "PROPERTY", "DJANGO_CACHED_PROPERTY"):
    R.SPEC["FK_" + m] = ZV(L.atom("FunctionKind", m), "Enum:FunctionKind")
