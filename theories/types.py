"""T-TYPES: `typing` objects and runtime values as the repo observes them (assumed contract on
`typing` / `mypy_extensions`, validated against the real library by runtime/validate_theories.py).

Ty terms live in the universal sort V.  kind(t) is one of the atoms below; args(t) is `t.__args__`.
mem(v, t) is the conformance oracle; sub(t, u) := forall v. mem(v,t) => mem(v,u) (semantic)."""
import z3
from pyvc import logic as L
from pyvc import registry as R
from pyvc.values import *
from pyvc.spec import declare_pred, spec

T = "types"
KINDS = ["Any", "Class", "List", "Set", "Dict", "DefaultDict", "Tuple", "TupleVar", "Type", "Iterator", "Generator",
         "Callable", "Union", "TD", "NamedTD", "ForwardRef", "TypeVar", "Other"]
K = {k: L.atom("K", k) for k in KINDS}
GENERIC_KINDS = ["List", "Set", "Dict", "DefaultDict", "Tuple", "TupleVar", "Type", "Iterator", "Generator", "Callable", "Union"]
# name_of_generic(t) for the kinds the repo dispatches on ("rewrite_" + name)
GENERIC_NAME = {"List": "List", "Set": "Set", "Dict": "Dict", "DefaultDict": "DefaultDict", "Tuple": "Tuple", "TupleVar": "Tuple",
                "Type": "Type", "Iterator": "Iterator", "Generator": "Generator", "Callable": "Callable", "Union": "Union"}

kind = declare_pred("kind", L.V, L.V, tag="Kind")
args = declare_pred("args", L.V, L.V, tag="Seq[Ty]")
is_ty = declare_pred("is_ty", L.V, L.B)
ANY = L.atom("typing", "Any")
NONETYPE = L.atom("cls", "NoneType")
STR = L.atom("cls", "str")
OBJECT = L.atom("cls", "object")
ELLIPSIS = L.atom("py", "Ellipsis")
# fixed-arity constructors
List_ = declare_pred("List_", L.V, L.V, tag="Ty")
Set_ = declare_pred("Set_", L.V, L.V, tag="Ty")
Dict_ = declare_pred("Dict_", L.V, L.V, L.V, tag="Ty")
DefaultDict_ = declare_pred("DefaultDict_", L.V, L.V, L.V, tag="Ty")
Iterator_ = declare_pred("Iterator_", L.V, L.V, tag="Ty")
Generator_ = declare_pred("Generator_", L.V, L.V, L.V, L.V, tag="Ty")
Type_ = declare_pred("Type_", L.V, L.V, tag="Ty")
Tuple_ = declare_pred("Tuple_", L.V, L.V, tag="Ty")          # Tuple[a1..an], argument = sequence of element types
TupleVar_ = declare_pred("TupleVar_", L.V, L.V, tag="Ty")    # Tuple[a, ...]
Union_ = declare_pred("Union_", L.V, L.V, tag="Ty")          # typing.Union[seq]: flatten, dedupe, collapse singleton
CALLABLE = L.atom("typing", "Callable")
TD_ = declare_pred("TD_", L.V, L.V, L.V, tag="Ty")           # anonymous TypedDict(required: Dict[str,Ty], optional: Dict[str,Ty])
td_req = declare_pred("td_req", L.V, L.V, tag="Dict[str,Ty]")
td_opt = declare_pred("td_opt", L.V, L.V, tag="Dict[str,Ty]")
umember = declare_pred("umember", L.V, L.V, L.B)             # m is a (non-union) alternative of t; for non-unions: m == t

R.SPEC["ANY"] = ZV(ANY, "Ty")
R.SPEC["NONETYPE"] = ZV(NONETYPE, "Ty")
R.SPEC["NoneType"] = ZV(NONETYPE, "Ty")
R.SPEC["CALLABLE"] = ZV(CALLABLE, "Ty")
R.SPEC["STR"] = ZV(STR, "Ty")
for k in KINDS:
    R.SPEC["K_" + k] = ZV(K[k], "Kind")

t, u, a, b, c, m, sq = (L.const(n) for n in ("ty_t", "ty_u", "ty_a", "ty_b", "ty_c", "ty_m", "ty_sq"))
i = L.const("i", L.I)


def _ax():
    ax = lambda n, e: L.axiom(T, n, e)
    ax("kind-any", kind(ANY) == K["Any"])
    ax("kind-nonetype", kind(NONETYPE) == K["Class"])
    ax("kind-str", kind(STR) == K["Class"])
    ax("kind-object", kind(OBJECT) == K["Class"])
    ax("kind-callable", z3.And(kind(CALLABLE) == K["Callable"]))
    ax("List", L.FA(a, z3.And(kind(List_(a)) == K["List"], args(List_(a)) == L.mk_tuple([a])), [List_(a)]))
    ax("Set", L.FA(a, z3.And(kind(Set_(a)) == K["Set"], args(Set_(a)) == L.mk_tuple([a])), [Set_(a)]))
    ax("Iterator", L.FA(a, z3.And(kind(Iterator_(a)) == K["Iterator"], args(Iterator_(a)) == L.mk_tuple([a])), [Iterator_(a)]))
    ax("Type", L.FA(a, z3.And(kind(Type_(a)) == K["Type"], args(Type_(a)) == L.mk_tuple([a])), [Type_(a)]))
    ax("TupleVar", L.FA(a, z3.And(kind(TupleVar_(a)) == K["TupleVar"], args(TupleVar_(a)) == L.mk_tuple([a, ELLIPSIS])), [TupleVar_(a)]))
    ax("Dict", L.FA([a, b], z3.And(kind(Dict_(a, b)) == K["Dict"], args(Dict_(a, b)) == L.mk_tuple([a, b])), [Dict_(a, b)]))
    ax("DefaultDict", L.FA([a, b], z3.And(kind(DefaultDict_(a, b)) == K["DefaultDict"], args(DefaultDict_(a, b)) == L.mk_tuple([a, b])),
                         [DefaultDict_(a, b)]))
    ax("Generator", L.FA([a, b, c], z3.And(kind(Generator_(a, b, c)) == K["Generator"], args(Generator_(a, b, c)) == L.mk_tuple([a, b, c])),
                       [Generator_(a, b, c)]))
    ax("Tuple", L.FA(sq, z3.And(kind(Tuple_(sq)) == K["Tuple"], L.len_(args(Tuple_(sq))) == L.len_(sq),
                                L.FA(i, z3.Implies(z3.And(0 <= i, i < L.len_(sq)), L.nth(args(Tuple_(sq)), i) == L.nth(sq, i)),
                                     [L.nth(args(Tuple_(sq)), i)])), [Tuple_(sq)]))
    ax("TD", L.FA([a, b], z3.And(kind(TD_(a, b)) == K["TD"], td_req(TD_(a, b)) == a, td_opt(TD_(a, b)) == b), [TD_(a, b)]))
    # inversion for the fixed-arity kinds
    ax("inv-List", L.FA(t, z3.Implies(kind(t) == K["List"], t == List_(L.nth(args(t), 0))), [kind(t)]))
    ax("inv-Set", L.FA(t, z3.Implies(kind(t) == K["Set"], t == Set_(L.nth(args(t), 0))), [kind(t)]))
    ax("inv-Dict", L.FA(t, z3.Implies(kind(t) == K["Dict"], t == Dict_(L.nth(args(t), 0), L.nth(args(t), 1))), [kind(t)]))
    ax("inv-DefaultDict", L.FA(t, z3.Implies(kind(t) == K["DefaultDict"], t == DefaultDict_(L.nth(args(t), 0), L.nth(args(t), 1))), [kind(t)]))
    ax("inv-Iterator", L.FA(t, z3.Implies(kind(t) == K["Iterator"], t == Iterator_(L.nth(args(t), 0))), [kind(t)]))
    ax("inv-Type", L.FA(t, z3.Implies(kind(t) == K["Type"], t == Type_(L.nth(args(t), 0))), [kind(t)]))
    ax("inv-Generator", L.FA(t, z3.Implies(kind(t) == K["Generator"],
                                           t == Generator_(L.nth(args(t), 0), L.nth(args(t), 1), L.nth(args(t), 2))), [kind(t)]))
    ax("inv-TupleVar", L.FA(t, z3.Implies(kind(t) == K["TupleVar"], t == TupleVar_(L.nth(args(t), 0))), [kind(t)]))
    ax("inv-TD", L.FA(t, z3.Implies(kind(t) == K["TD"], t == TD_(td_req(t), td_opt(t))), [kind(t)]))
    ax("inv-Any", L.FA(t, z3.Implies(kind(t) == K["Any"], t == ANY), [kind(t)]))
    # unions: members are non-union alternatives
    ax("umember-nonunion", L.FA([t, m], z3.Implies(kind(t) != K["Union"], umember(t, m) == (m == t)), [umember(t, m)]))
    ax("umember-union", L.FA([t, m], z3.Implies(kind(t) == K["Union"], umember(t, m) == L.has(args(t), m)), [umember(t, m)]))
    ax("union-members-flat", L.FA([t, i], z3.Implies(z3.And(kind(t) == K["Union"], 0 <= i, i < L.len_(args(t))),
                                                      kind(L.nth(args(t), i)) != K["Union"]), [L.nth(args(t), i)]))
    ax("union-size", L.FA(t, z3.Implies(kind(t) == K["Union"], z3.And(L.len_(args(t)) >= 2, L.is_dictlike(args(t)))), [kind(t)]))
    # Union[seq]: alternatives of the result = alternatives of the elements (typing flattens, dedupes, collapses a singleton)
    ax("Union-members", L.FA([sq, m], z3.Implies(L.len_(sq) >= 1,
                                                  umember(Union_(sq), m) == z3.Exists([i], z3.And(0 <= i, i < L.len_(sq), umember(L.nth(sq, i), m)))),
                           [umember(Union_(sq), m)]))
    ax("Union-member-intro", L.FA([sq, i, m], z3.Implies(z3.And(0 <= i, i < L.len_(sq), umember(L.nth(sq, i), m)), umember(Union_(sq), m)),
                                [(Union_(sq), umember(L.nth(sq, i), m))]))
    # (stated on the first element: a trigger pairing Union_(sq) with every kind(m) term instantiates quadratically)
    ax("Union-single", L.FA([sq], z3.Implies(z3.And(L.len_(sq) >= 1, kind(L.nth(sq, 0)) != K["Union"],
                                                      L.FA(i, z3.Implies(z3.And(0 <= i, i < L.len_(sq)), L.nth(sq, i) == L.nth(sq, 0)))),
                                               Union_(sq) == L.nth(sq, 0)), [Union_(sq)]))
    # a type with one alternative is that alternative; a Union_ result with >= 2 distinct alternatives has kind Union
    ax("Union-kind", L.FA([sq, a, b], z3.Implies(z3.And(L.len_(sq) >= 1, umember(Union_(sq), a), umember(Union_(sq), b), a != b),
                                                  kind(Union_(sq)) == K["Union"]), [(umember(Union_(sq), a), umember(Union_(sq), b))]))
    ax("umember-self", L.FA([t, m], z3.Implies(umember(t, m), kind(m) != K["Union"]), [umember(t, m)]))


_ax()


def union_of(ip, items, node=None):
    """typing.Union[items] with items a seq value; TypeError on the empty tuple."""
    sv = ip.seq_of(items) if not isinstance(items, PySeq) else ZV(as_v(items), "seq")
    ip.partial(L.len_(sv.term) >= 1, "TypeError", node, "Union[()]")
    return ZV(Union_(sv.term), "Ty")


def _sub1(ctor):
    def f(ip, a, kw, node):
        x = a[0]
        if isinstance(x, PySeq) and len(x.items) == 1:
            x = x.items[0]
        return ZV(ctor(as_v(x)), "Ty")
    return R.ExtFn(f)


def _subn(ctor, n):
    def f(ip, a, kw, node):
        x = a[0]
        if isinstance(x, PySeq):
            if len(x.items) != n:
                raise RaisedEx_(ip, "TypeError", node)
            return ZV(ctor(*[as_v(it) for it in x.items]), "Ty")
        sv = ip.seq_of(x)
        ip.partial(L.len_(sv.term) == n, "TypeError", node, "generic-arity")
        return ZV(ctor(*[L.nth(sv.term, z3.IntVal(q)) for q in range(n)]), "Ty")
    return R.ExtFn(f)


def RaisedEx_(ip, cls, node):
    from pyvc.state import RaisedEx
    return RaisedEx(ExcVal(cls), getattr(node, "lineno", 0))


def _tuple_sub(ip, a, kw, node):
    x = a[0]
    if isinstance(x, PySeq) and len(x.items) == 2 and isinstance(x.items[1], PyC) and x.items[1].value is Ellipsis:
        return ZV(TupleVar_(as_v(x.items[0])), "Ty")
    if isinstance(x, PySeq):
        return ZV(Tuple_(as_v(PySeq(x.items))), "Ty")
    sv = ip.seq_of(x)
    return ZV(Tuple_(sv.term), "Ty")


def _union_sub(ip, a, kw, node):
    x = a[0]
    if not isinstance(x, PySeq) and isinstance(x, ZV) and base_tag(x.tag) == "Ty":
        x = PySeq([x])
    return union_of(ip, x, node)


def _optional_sub(ip, a, kw, node):
    return union_of(ip, PySeq([a[0], ZV(NONETYPE, "Ty")]), node)


for name, h in {"List": _sub1(List_), "Set": _sub1(Set_), "Iterator": _sub1(Iterator_), "Type": _sub1(Type_),
                "Dict": _subn(Dict_, 2), "DefaultDict": _subn(DefaultDict_, 2), "Generator": _subn(Generator_, 3),
                "Tuple": R.ExtFn(_tuple_sub), "Union": R.ExtFn(_union_sub), "Optional": R.ExtFn(_optional_sub)}.items():
    R.EXTERNALS["typing.%s.__getitem__" % name] = h
R.EXTERNALS["typing.Any"] = ZV(ANY, "Ty")
R.EXTERNALS["typing.Callable"] = ZV(CALLABLE, "Ty")
R.EXTERNALS["monkeytype.typing:NoneType"] = ZV(NONETYPE, "Ty")

R.ATTRS[("Ty", "__args__")] = lambda ip, r: _args_attr(ip, r)


def _args_attr(ip, r):
    # plain classes and Any have no __args__ (AttributeError)
    ip.partial(z3.Or(*[kind(r.term) == K[k] for k in GENERIC_KINDS if k != "Callable"]), "AttributeError", None, "__args__")
    return ZV(args(r.term), "Seq[Ty]")


# bool(t): typing objects (aliases, Any, Callable) are always true; a plain class is true unless its *metaclass* defines __bool__ / __len__
# (then `x or y` on classes takes the other branch): unknown, the uninterpreted `truthy`
import pyvc.values as _v0
_v0.TRUTH_FN["Ty"] = lambda term: z3.Or(kind(term) != K["Class"], L.truthy(term))


# ---- bare typing objects, origins, isinstance on typing internals
UNION_BARE = L.atom("typing", "Union")
EMPTY = L.atom("inspect", "_empty")
origin = declare_pred("origin", L.V, L.V, tag="Origin")
ORIGIN = {k: L.atom("origin", k) for k in ["list", "set", "dict", "defaultdict", "tuple", "type", "Iterator", "Generator", "Callable"]}
ORIGIN["Union"] = UNION_BARE
KIND_ORIGIN = {"List": "list", "Set": "set", "Dict": "dict", "DefaultDict": "defaultdict", "Tuple": "tuple", "TupleVar": "tuple",
               "Type": "type", "Iterator": "Iterator", "Generator": "Generator", "Callable": "Callable", "Union": "Union"}
is_galias = declare_pred("is_galias", L.V, L.B)      # isinstance(t, typing._GenericAlias): subscripted generic (incl. unions)
is_special = declare_pred("is_special", L.V, L.B)    # isinstance(t, typing._SpecialGenericAlias): bare List, Dict, Callable ...
is_tdmeta = declare_pred("is_tdmeta", L.V, L.B)      # isinstance(t, mypy_extensions._TypedDictMeta)
is_class = declare_pred("is_class", L.V, L.B)        # isinstance(t, type)
is_typevar = declare_pred("is_typevar", L.V, L.B)
R.SPEC["EMPTY"] = ZV(EMPTY, "Anno")
R.SPEC["UNION_BARE"] = ZV(UNION_BARE, "Ty")
import pyvc.values as _vals
_vals.TAG_ALIAS["Anno"] = "Ty"


def _ax2():
    ax = lambda n, e: L.axiom(T, n, e)
    ax("kind-empty", kind(EMPTY) == K["Other"])
    ax("kind-none", kind(L.NONE) == K["Other"])
    ax("kind-union-bare", kind(UNION_BARE) == K["Other"])
    ax("kind-enum", L.FA(t, z3.Or(*[kind(t) == K[k] for k in KINDS]), [kind(t)]))
    subscripted = [k for k in GENERIC_KINDS if k != "Callable"]
    ax("galias", L.FA(t, is_galias(t) == z3.Or(*[kind(t) == K[k] for k in subscripted]), [is_galias(t)]))
    ax("special", L.FA(t, z3.Implies(is_special(t), z3.Or(kind(t) == K["Callable"], kind(t) == K["Other"])), [is_special(t)]))
    ax("special-callable", L.FA(t, z3.Implies(kind(t) == K["Callable"], is_special(t)), [kind(t)]))
    ax("special-not-empty", z3.And(z3.Not(is_special(EMPTY)), z3.Not(is_special(L.NONE)), z3.Not(is_special(UNION_BARE)),
                                  z3.Not(is_special(ANY)), z3.Not(is_special(NONETYPE))))
    ax("special-origin", L.FA(t, z3.Implies(is_special(t), origin(t) != UNION_BARE), [is_special(t)]))
    ax("tdmeta", L.FA(t, is_tdmeta(t) == z3.Or(kind(t) == K["TD"], kind(t) == K["NamedTD"]), [is_tdmeta(t)]))
    ax("class", L.FA(t, is_class(t) == z3.Or(kind(t) == K["Class"], kind(t) == K["TD"], kind(t) == K["NamedTD"]), [is_class(t)]))
    ax("typevar", L.FA(t, is_typevar(t) == (kind(t) == K["TypeVar"]), [is_typevar(t)]))
    for k, o in KIND_ORIGIN.items():
        ax("origin-" + k, L.FA(t, z3.Implies(kind(t) == K[k], origin(t) == ORIGIN[o]), [origin(t)]))
    ax("origin-union-inv", L.FA(t, z3.Implies(z3.And(is_galias(t), origin(t) == UNION_BARE), kind(t) == K["Union"]), [origin(t)]))
    ax("origin-dict-inv", L.FA(t, z3.Implies(z3.And(is_galias(t), origin(t) == ORIGIN["dict"]), kind(t) == K["Dict"]), [origin(t)]))
    ax("origin-tuple-inv", L.FA(t, z3.Implies(z3.And(is_galias(t), origin(t) == ORIGIN["tuple"]),
                                              z3.Or(kind(t) == K["Tuple"], kind(t) == K["TupleVar"])), [origin(t)]))


_ax2()

R.EXTERNALS["typing.Union"] = ZV(UNION_BARE, "Ty")
ISINSTANCE = {
    "typing._GenericAlias": lambda ip, o: is_galias(as_v(o)),
    "typing._SpecialGenericAlias": lambda ip, o: is_special(as_v(o)),
    "mypy_extensions._TypedDictMeta": lambda ip, o: is_tdmeta(as_v(o)),
    "typing.TypeVar": lambda ip, o: is_typevar(as_v(o)),
    "builtins.type": lambda ip, o: is_class(as_v(o)),
}


def _isinstance(ip, a, kw, node):
    obj, cls = a
    items = cls.items if isinstance(cls, PySeq) else [cls]
    outs = []
    for c in items:
        # objects of a family with its own isinstance reading (program values: the effect discipline; looked-up objects) go through it first
        h = isinstance(obj, ZV) and R.METHODS.get((base_tag(obj.tag), "__isinstance__"))
        if h and base_tag(obj.tag) in ("Val", "Callee"):
            outs.append(as_bool(h(ip, obj, [c], {}, node)))
            continue
        if not isinstance(c, GlobalRef) or c.path not in ISINSTANCE:
            if h:
                outs.append(as_bool(h(ip, obj, [c], {}, node)))
                continue
            raise Unsupported("isinstance(%r, %r) (line %s)" % (obj, c, getattr(node, "lineno", "?")))
        outs.append(ISINSTANCE[c.path](ip, obj))
    return ZB(z3.Or(*outs) if len(outs) > 1 else outs[0])


R.EXTERNALS["builtins.isinstance"] = R.ExtFn(_isinstance)


def _origin_attr(ip, r):
    ip.partial(z3.Or(is_galias(r.term), is_special(r.term)), "AttributeError", None, "__origin__")
    return ZV(origin(r.term), "Origin")


R.ATTRS[("Ty", "__origin__")] = _origin_attr
for _n, _o in [("Dict", "dict"), ("List", "list"), ("Tuple", "tuple"), ("Set", "set")]:
    # bare generics used as `gen` in is_generic_of(typ, Dict): only their __origin__ is read
    R.EXTERNALS["typing." + _n] = ZV(L.atom("typing", _n), "Ty")
    L.axiom(T, "bare-" + _n, z3.And(is_special(L.atom("typing", _n)), origin(L.atom("typing", _n)) == ORIGIN[_o],
                                    kind(L.atom("typing", _n)) == K["Other"]))

# ---- names of generics, well-formed (inferable) types
gname = declare_pred("gname", L.V, L.V, tag="str")
wf_ty = declare_pred("wf_ty", L.V, L.B)      # not a bare special generic other than Callable, not the bare Union
R.SPEC["EMPTY_DICT_"] = ZV(L.EMPTY_DICT, "Dict[str,Ty]")


def _ax3():
    ax = lambda n, e: L.axiom(T, n, e)
    for k, nm in GENERIC_NAME.items():
        ax("gname-" + k, L.FA(t, z3.Implies(kind(t) == K[k], gname(t) == L.box_str(z3.StringVal(nm))), [gname(t)]))
    ax("gname-str", L.FA(t, L.is_str(gname(t)), [gname(t)]))
    ax("wf-def", L.FA(t, wf_ty(t) == z3.And(t != UNION_BARE, z3.Or(z3.Not(is_special(t)), kind(t) == K["Callable"]),
                                           z3.Implies(kind(t) == K["Other"], z3.And(z3.Not(is_galias(t)), z3.Not(is_special(t))))), [wf_ty(t)]))
    ax("wf-consts", z3.And(wf_ty(ANY), wf_ty(NONETYPE), wf_ty(CALLABLE)))


_ax3()


def _field_annotations(ip, a, kw, node):
    td = a[0]
    ip.partial(kind(as_v(td)) == K["TD"], "KeyError", node, "field_annotations")
    return PySeq([ZV(td_req(as_v(td)), "Dict[str,Ty]"), ZV(td_opt(as_v(td)), "Dict[str,Ty]")], "tuple")


R.EXTERNALS["monkeytype.typing:field_annotations"] = R.ExtFn(_field_annotations)

# ---- subscription of a constructor held in a variable (container_type[element]), module / name attributes
subscript = declare_pred("subscript", L.V, L.V, L.V, tag="Ty")
tmodule = declare_pred("tmodule", L.V, L.V, tag="str")
cname = declare_pred("cname", L.V, L.V, tag="str")              # __name__ of a plain class
BARE = {n: L.atom("typing", n) for n in ("Dict", "List", "Tuple", "Set", "DefaultDict")}
BARE["Generator"] = L.atom("typing", "Generator")
BARE["Union"] = UNION_BARE
for _n in BARE:
    R.SPEC["BARE_" + _n] = ZV(BARE[_n], "Ty")
R.EXTERNALS["typing.Generator"] = ZV(BARE["Generator"], "Ty")
R.EXTERNALS["typing.DefaultDict"] = ZV(BARE["DefaultDict"], "Ty")
ctor_of = declare_pred("ctor_of", L.V, L.V, tag="Ty")          # the bare constructor a rewrite_X method passes for kind X


def _ax4():
    ax = lambda n, e: L.axiom(T, n, e)
    e1 = L.const("ty_e")
    ax("sub-List", L.FA(sq, z3.Implies(L.len_(sq) == 1, subscript(BARE["List"], sq) == List_(L.nth(sq, 0))), [subscript(BARE["List"], sq)]))
    ax("sub-Set", L.FA(sq, z3.Implies(L.len_(sq) == 1, subscript(BARE["Set"], sq) == Set_(L.nth(sq, 0))), [subscript(BARE["Set"], sq)]))
    ax("sub-Dict", L.FA(sq, z3.Implies(L.len_(sq) == 2, subscript(BARE["Dict"], sq) == Dict_(L.nth(sq, 0), L.nth(sq, 1))), [subscript(BARE["Dict"], sq)]))
    ax("sub-DefaultDict", L.FA(sq, z3.Implies(L.len_(sq) == 2, subscript(BARE["DefaultDict"], sq) == DefaultDict_(L.nth(sq, 0), L.nth(sq, 1))), [subscript(BARE["DefaultDict"], sq)]))
    ax("sub-Generator", L.FA(sq, z3.Implies(L.len_(sq) == 3, subscript(BARE["Generator"], sq) == Generator_(L.nth(sq, 0), L.nth(sq, 1), L.nth(sq, 2))),
                            [subscript(BARE["Generator"], sq)]))
    ax("sub-Tuple", L.FA(sq, z3.Implies(z3.Not(z3.And(L.len_(sq) == 2, L.nth(sq, 1) == ELLIPSIS)), subscript(BARE["Tuple"], sq) == Tuple_(sq)),
                        [subscript(BARE["Tuple"], sq)]))
    ax("sub-TupleVar", L.FA(sq, z3.Implies(z3.And(L.len_(sq) == 2, L.nth(sq, 1) == ELLIPSIS), subscript(BARE["Tuple"], sq) == TupleVar_(L.nth(sq, 0))),
                           [subscript(BARE["Tuple"], sq)]))
    ax("sub-Union", L.FA(sq, z3.Implies(L.len_(sq) >= 1, subscript(UNION_BARE, sq) == Union_(sq)), [subscript(UNION_BARE, sq)]))
    for k, b in (("List", "List"), ("Set", "Set"), ("Dict", "Dict"), ("DefaultDict", "DefaultDict"), ("Generator", "Generator"), ("Tuple", "Tuple"), ("TupleVar", "Tuple"), ("Union", "Union")):
        ax("ctor-" + k, L.FA(t, z3.Implies(kind(t) == K[k], ctor_of(t) == BARE[b]), [ctor_of(t)]))
    for k in GENERIC_KINDS:
        ax("module-" + k, L.FA(t, z3.Implies(kind(t) == K[k], tmodule(t) == L.box_str(z3.StringVal("typing"))), [tmodule(t)]))
    ax("module-any", tmodule(ANY) == L.box_str(z3.StringVal("typing")))
    ax("module-str", L.FA(t, L.is_str(tmodule(t)), [tmodule(t)]))
    ax("arity-List", L.FA(t, z3.Implies(z3.Or(kind(t) == K["List"], kind(t) == K["Set"], kind(t) == K["Iterator"], kind(t) == K["Type"]), L.len_(args(t)) == 1), [args(t)]))
    ax("arity-Dict", L.FA(t, z3.Implies(z3.Or(kind(t) == K["Dict"], kind(t) == K["DefaultDict"], kind(t) == K["TupleVar"]), L.len_(args(t)) == 2), [args(t)]))
    ax("arity-Generator", L.FA(t, z3.Implies(kind(t) == K["Generator"], L.len_(args(t)) == 3), [args(t)]))
    ax("tuplevar-ellipsis", L.FA(t, z3.Implies(kind(t) == K["TupleVar"], L.nth(args(t), 1) == ELLIPSIS), [args(t)]))
    ax("inv-Tuple", L.FA(t, z3.Implies(kind(t) == K["Tuple"], t == Tuple_(args(t))), [kind(t)]))
    ax("inv-Union", L.FA(t, z3.Implies(kind(t) == K["Union"], t == Union_(args(t))), [kind(t)]))
    ax("ellipsis-kind", kind(ELLIPSIS) == K["Other"])
    # (args-not-none and tuple-no-ellipsis are stated on well-formed types only: theories/rewriters.py - the constructors are total)


_ax4()
R.ATTRS[("Ty", "__module__")] = lambda ip, r: ZV(tmodule(r.term), "str")
has_args = lambda t_: z3.Or(*[kind(t_) == K[k] for k in GENERIC_KINDS if k != "Callable"])
def _args_default(ip, r, default):
    if not ip.st.qctx:
        if ip.branch(has_args(r.term), 0):
            return ZV(args(r.term), "Seq[Ty]")
        return default
    return ZV(z3.If(has_args(r.term), args(r.term), as_v(default)), "Opt[Seq[Ty]]")


R.ATTRS[("Ty", "__args__?")] = _args_default
R.ATTRS[("Ty", "__name__?")] = lambda ip, r, default: ZV(z3.If(is_class(r.term), cname(r.term), as_v(default)), "Opt[str]")
R.ATTRS[("Ty", "__name__")] = lambda ip, r: (ip.partial(is_class(r.term), "AttributeError", None, "__name__"), ZV(cname(r.term), "str"))[1]
L.axiom(T, "cname-str", L.FA(t, L.is_str(cname(t)), [cname(t)]))


def _ty_getitem(ip, r, a, kw, node):
    """container_type[elems] where container_type is a bare constructor held in a variable."""
    x = a[0]
    sv = ip.seq_of(x) if not (isinstance(x, ZV) and base_tag(x.tag) == "Ty") else ZV(L.mk_tuple([x.term]), "seq")
    ctor = r.term
    ok = z3.Or(z3.And(z3.Or(ctor == BARE["List"], ctor == BARE["Set"]), L.len_(sv.term) == 1),
               z3.And(z3.Or(ctor == BARE["Dict"], ctor == BARE["DefaultDict"]), L.len_(sv.term) == 2), z3.And(ctor == BARE["Generator"], L.len_(sv.term) == 3),
               ctor == BARE["Tuple"], z3.And(ctor == UNION_BARE, L.len_(sv.term) >= 1))
    ip.partial(ok, "TypeError", node, "subscript-arity")
    return ZV(subscript(ctor, sv.term), "Ty")


R.METHODS[("Ty", "__getitem__")] = _ty_getitem


@spec("has_args_")
def _has_args_spec(ip, a, kw):
    return ZB(has_args(as_v(a[0])))

R.EXTERNALS["builtins.Ellipsis"] = ZV(ELLIPSIS, "Ty")
