"""Rewriter objects: method resolution over the class bodies of the current source (the 'rewrite_' + name dispatch
table is rebuilt from the AST on every run), instance creation of the shipped rewriter classes."""
import ast
import z3
from pyvc import logic as L
from pyvc import registry as R
from pyvc import source
from pyvc.values import *
from pyvc.spec import declare_pred, spec
from theories import types as TY

T = "types"
declare_always_truthy("Rewriter")
R.TAG_CLASS["Rewriter"] = "monkeytype.typing:TypeRewriter"
has_method = declare_pred("has_method", L.V, L.V, L.B)   # ghost: the instance's class defines / inherits this attribute


def rewriter_classes():
    """All classes of typing.py / stubs.py deriving (transitively) from GenericTypeRewriter, from the AST."""
    out = []
    for mod in ("monkeytype.typing", "monkeytype.stubs"):
        mi = source.load(mod)
        for q in mi.classes:
            mro = source.class_mro(mod + ":" + q)
            if any(c == "GenericTypeRewriter" for _, c in mro):
                out.append(mod + ":" + q)
    return out


def dispatch_names(family="monkeytype.typing"):
    names = set()
    for c in rewriter_classes():
        if not c.startswith(family + ":"):
            continue
        names.update(n[len("rewrite_"):] for n in source.method_table(c, "rewrite_"))
    # helper methods that happen to share the prefix but are not kind handlers are still reachable by name
    return sorted(names)


def current_class(ip):
    tgt = ip.contract.target
    mod, q = tgt.split(":")
    return mod + ":" + q.rsplit(".", 1)[0] if "." in q else None


REWRITER_TAGS = {"Rewriter"}


def _dyn_getattr(ip, a, kw, node):
    obj, name = a[0], a[1]
    default = a[2] if len(a) > 2 else None
    if not (isinstance(obj, ZV) and base_tag(obj.tag) in REWRITER_TAGS):
        raise Unsupported("dynamic getattr on %r" % (obj,))
    # name must be "rewrite_" + typname
    t = z3.simplify(as_str(name))
    prefix, rest = None, None
    if t.decl().kind() == z3.Z3_OP_SEQ_CONCAT and z3.is_string_value(t.arg(0)):
        prefix = t.arg(0).as_string()
        rest = t.arg(1) if t.num_args() == 2 else z3.Concat(*[t.arg(q) for q in range(1, t.num_args())])
    elif z3.is_string_value(t):
        s = t.as_string()
        if s.startswith("rewrite_"):
            prefix, rest = "rewrite_", z3.StringVal(s[len("rewrite_"):])
    if prefix != "rewrite_":
        raise Unsupported("dynamic getattr with name %s" % t)
    cls = current_class(ip)
    names = dispatch_names()
    # ghost predicate of the carve-out: is the string one of the handler suffixes?
    ip.st.assume(z3.And(*[is_dispatch_name(L.box_str(z3.StringVal(x))) for x in names]))
    for x in names:
        if ip.branch(rest == z3.StringVal(x), getattr(node, "lineno", 0)):
            # the instance may or may not have this handler (subclasses add / inherit them)
            tgt = source.resolve_method(cls, "rewrite_" + x) if cls else None
            generic = source.resolve_method("monkeytype.typing:TypeRewriter", "rewrite_" + x)
            if generic is None:
                # only some subclasses define it: ghost choice
                if ip.branch(has_method(obj.term, L.box_str(z3.StringVal("rewrite_" + x))), getattr(node, "lineno", 0)):
                    return BoundM(obj, "rewrite_" + x, None)
                return default if default is not None else PyC(None)
            return BoundM(obj, "rewrite_" + x, None)
    if default is None:
        from pyvc.state import RaisedEx
        raise RaisedEx(ExcVal("AttributeError"), getattr(node, "lineno", 0))
    return default


def _dyn_dispatch(ip, a, kw, node):
    for h in getattr(R, "DYN_GETATTR", []):
        r = h(ip, a, kw, node)
        if r is not None:
            return r
    return _dyn_getattr(ip, a, kw, node)


R.EXTERNALS["builtins.getattr:dynamic"] = R.ExtFn(_dyn_dispatch)


is_noop = declare_pred("is_noop", L.V, L.B)


def _instantiate(path):
    def f(ip, a, kw, node):
        obj = ZV(L.fresh("rw_" + path.split(":")[1]), "Rewriter")
        ip.st.assume(obj.term != L.NONE)
        if path.endswith(":NoOpRewriter"):
            ip.st.assume(is_noop(obj.term))
        ip.st.assume(L.fn("rewriter_class", L.V, L.V)(obj.term) == L.atom("rwclass", path))
        return obj
    return R.ExtFn(f)


for _c in ("RemoveEmptyContainers", "RewriteConfigDict", "RewriteLargeUnion", "RewriteAnonymousTypedDictToDict", "RewriteGenerator",
           "RewriteMostSpecificCommonBase", "NoOpRewriter", "TypeRewriter"):
    R.EXTERNALS["monkeytype.typing:" + _c] = _instantiate("monkeytype.typing:" + _c)
R.add_field({"Rewriter"}, "max_union_len", "int", "Rewriter.max_union_len")
R.add_field({"Rewriter"}, "rewriters", "Seq[Rewriter]", "Rewriter.rewriters")

wf_rw = declare_pred("wf_rw", L.V, L.B)          # types a rewriter may meet: inferable types and what shipped rewriters produce (+ Ellipsis inside Tuple[T, ...])
is_dispatch_name = declare_pred("is_dispatch_name", L.V, L.B)
no_clash_deep = declare_pred("no_clash_deep", L.V, L.B)
R.SPEC["ELLIPSIS_"] = ZV(TY.ELLIPSIS, "Ty")
_t, _i, _k = L.const("rt"), L.const("i", L.I), L.const("rk")
ax = lambda n, e: L.axiom(T, n, e)
ax("wf-rw-shallow", L.FA(_t, z3.Implies(wf_rw(_t), z3.And(z3.Or(TY.wf_ty(_t), _t == TY.ELLIPSIS), TY.kind(_t) != TY.K["NamedTD"], TY.kind(_t) != TY.K["TypeVar"],
                                                            TY.kind(_t) != TY.K["ForwardRef"])), [wf_rw(_t)]))
ax("wf-rw-args", L.FA([_t, _i], z3.Implies(z3.And(wf_rw(_t), 0 <= _i, _i < L.len_(TY.args(_t)), TY.has_args(_t)), wf_rw(L.nth(TY.args(_t), _i))),
                      [(wf_rw(_t), L.nth(TY.args(_t), _i))]))
ax("wf-rw-td", L.FA([_t, _k], z3.Implies(z3.And(wf_rw(_t), TY.kind(_t) == TY.K["TD"]),
                                          z3.And(z3.Implies(L.has(TY.td_req(_t), _k), z3.And(wf_rw(L.get(TY.td_req(_t), _k)), L.get(TY.td_req(_t), _k) != TY.ELLIPSIS)),
                                                 z3.Implies(L.has(TY.td_opt(_t), _k), z3.And(wf_rw(L.get(TY.td_opt(_t), _k)), L.get(TY.td_opt(_t), _k) != TY.ELLIPSIS)))),
                    [(wf_rw(_t), L.get(TY.td_req(_t), _k)), (wf_rw(_t), L.get(TY.td_opt(_t), _k))]))
# Python >= 3.11: Tuple[()].__args__ == () (never ((),)); stated on the well-formedness predicate only
ax("wf-rw-no-legacy-empty-tuple", L.FA(_t, z3.Implies(wf_rw(_t), TY.args(_t) != L.mk_tuple([L.EMPTY_SEQ])), [wf_rw(_t)]))
ax("ellipsis-not-wf-ty", z3.And(TY.kind(TY.ELLIPSIS) == TY.K["Other"], z3.Not(TY.is_galias(TY.ELLIPSIS)), z3.Not(TY.is_special(TY.ELLIPSIS)),
                               z3.Not(TY.is_class(TY.ELLIPSIS)), TY.ELLIPSIS != TY.UNION_BARE, TY.ELLIPSIS != TY.ANY))


@spec("subscript_ok")
def _subscript_ok(ip, a, kw):
    ctor, sv = as_v(a[0]), as_v(a[1])
    B = TY.BARE
    return ZB(z3.Or(z3.And(z3.Or(ctor == B["List"], ctor == B["Set"]), L.len_(sv) == 1), z3.And(z3.Or(ctor == B["Dict"], ctor == B["DefaultDict"]), L.len_(sv) == 2),
                    z3.And(ctor == B["Generator"], L.len_(sv) == 3), ctor == B["Tuple"], z3.And(ctor == TY.UNION_BARE, L.len_(sv) >= 1)))


@spec("old_typ")
def _old_typ(ip, a, kw):
    return ip.entry_env["typ"]

_sq = L.const("rsq")
ax("ellipsis-only-in-tuplevar", L.FA([_t, _i], z3.Implies(z3.And(wf_rw(_t), TY.has_args(_t), 0 <= _i, _i < L.len_(TY.args(_t)), L.nth(TY.args(_t), _i) == TY.ELLIPSIS),
                                                          z3.And(TY.kind(_t) == TY.K["TupleVar"], _i == 1)), [(wf_rw(_t), L.nth(TY.args(_t), _i))]))
ax("Union-of-types-not-ellipsis", L.FA(_sq, z3.Implies(z3.And(L.len_(_sq) >= 1, L.FA(_i, z3.Implies(z3.And(0 <= _i, _i < L.len_(_sq)), L.nth(_sq, _i) != TY.ELLIPSIS))),
                                                       TY.Union_(_sq) != TY.ELLIPSIS), [TY.Union_(_sq)]))

# introduction rules (wf_rw is the deep well-formedness predicate; any predicate closed under these and the eliminations is a model)
_a, _b, _c = L.const("ra"), L.const("rb"), L.const("rc")
_ty = lambda x: z3.And(wf_rw(x), x != TY.ELLIPSIS)
ax("wf-intro-consts", z3.And(wf_rw(TY.ANY), wf_rw(TY.NONETYPE), wf_rw(TY.CALLABLE), wf_rw(TY.ELLIPSIS), wf_rw(TY.STR)))
ax("wf-intro-class", L.FA(_t, z3.Implies(TY.kind(_t) == TY.K["Class"], wf_rw(_t)), [wf_rw(_t)]))
ax("wf-intro-List", L.FA(_a, z3.Implies(_ty(_a), wf_rw(TY.List_(_a))), [TY.List_(_a)]))
ax("wf-intro-Set", L.FA(_a, z3.Implies(_ty(_a), wf_rw(TY.Set_(_a))), [TY.Set_(_a)]))
ax("wf-intro-Iterator", L.FA(_a, z3.Implies(_ty(_a), wf_rw(TY.Iterator_(_a))), [TY.Iterator_(_a)]))
ax("wf-intro-Type", L.FA(_a, z3.Implies(_ty(_a), wf_rw(TY.Type_(_a))), [TY.Type_(_a)]))
ax("wf-intro-TupleVar", L.FA(_a, z3.Implies(_ty(_a), wf_rw(TY.TupleVar_(_a))), [TY.TupleVar_(_a)]))
ax("wf-intro-Dict", L.FA([_a, _b], z3.Implies(z3.And(_ty(_a), _ty(_b)), wf_rw(TY.Dict_(_a, _b))), [TY.Dict_(_a, _b)]))
ax("wf-intro-DefaultDict", L.FA([_a, _b], z3.Implies(z3.And(_ty(_a), _ty(_b)), wf_rw(TY.DefaultDict_(_a, _b))), [TY.DefaultDict_(_a, _b)]))
ax("wf-intro-Generator", L.FA([_a, _b, _c], z3.Implies(z3.And(_ty(_a), _ty(_b), _ty(_c)), wf_rw(TY.Generator_(_a, _b, _c))), [TY.Generator_(_a, _b, _c)]))
_allty = lambda sq_: L.FA(_i, z3.Implies(z3.And(0 <= _i, _i < L.len_(sq_)), _ty(L.nth(sq_, _i))), [L.nth(sq_, _i)])
ax("wf-intro-Tuple", L.FA(_sq, z3.Implies(_allty(_sq), wf_rw(TY.Tuple_(_sq))), [TY.Tuple_(_sq)]))
ax("wf-intro-Union", L.FA(_sq, z3.Implies(z3.And(L.len_(_sq) >= 1, _allty(_sq)), _ty(TY.Union_(_sq))), [TY.Union_(_sq)]))
_allf = lambda d_: L.FA(_k, z3.Implies(L.has(d_, _k), _ty(L.get(d_, _k))), [L.get(d_, _k)])
_disj = lambda a_, b_: L.FA(_k, z3.Not(z3.And(L.has(a_, _k), L.has(b_, _k))), [L.has(a_, _k)])
ax("wf-intro-TD", L.FA([_a, _b], z3.Implies(z3.And(_allf(_a), _allf(_b), _disj(_a, _b), L.is_dictlike(_a), L.is_dictlike(_b)), wf_rw(TY.TD_(_a, _b))), [TY.TD_(_a, _b)]))
ax("wf-rw-td-dictlike", L.FA(_t, z3.Implies(z3.And(wf_rw(_t), TY.kind(_t) == TY.K["TD"]), z3.And(L.is_dictlike(TY.td_req(_t)), L.is_dictlike(TY.td_opt(_t)))), [wf_rw(_t), TY.td_req(_t)]))
ax("wf-rw-td-disjoint", L.FA([_t, _k], z3.Implies(z3.And(wf_rw(_t), TY.kind(_t) == TY.K["TD"], L.has(TY.td_req(_t), _k)), z3.Not(L.has(TY.td_opt(_t), _k))),
                             [(wf_rw(_t), L.has(TY.td_req(_t), _k))]))
ax("empty-dict-no-keys", L.FA(_k, z3.Not(L.has(L.EMPTY_DICT, _k)), [L.has(L.EMPTY_DICT, _k)]))
# derived from wf-rw-td + values-nth (stated for the values() view the rewriters iterate)
ax("wf-rw-td-values-req", L.FA([_t, _i], z3.Implies(z3.And(wf_rw(_t), TY.kind(_t) == TY.K["TD"], 0 <= _i, _i < L.len_(TY.td_req(_t))),
                                                    _ty(L.nth(L.dict_values(TY.td_req(_t)), _i))), [(wf_rw(_t), L.nth(L.dict_values(TY.td_req(_t)), _i))]))
ax("wf-rw-td-values-opt", L.FA([_t, _i], z3.Implies(z3.And(wf_rw(_t), TY.kind(_t) == TY.K["TD"], 0 <= _i, _i < L.len_(TY.td_opt(_t))),
                                                    _ty(L.nth(L.dict_values(TY.td_opt(_t)), _i))), [(wf_rw(_t), L.nth(L.dict_values(TY.td_opt(_t)), _i))]))

ax("wf-rw-args-not-none", L.FA([_t, _i], z3.Implies(z3.And(wf_rw(_t), 0 <= _i, _i < L.len_(TY.args(_t))), L.nth(TY.args(_t), _i) != L.NONE),
                              [(wf_rw(_t), L.nth(TY.args(_t), _i))]))

ax("Union-of-types-not-none", L.FA(_sq, z3.Implies(z3.And(L.len_(_sq) >= 1, L.FA(_i, z3.Implies(z3.And(0 <= _i, _i < L.len_(_sq)), L.nth(_sq, _i) != L.NONE))),
                                                   TY.Union_(_sq) != L.NONE), [TY.Union_(_sq)]))
ax("wf-rw-not-none-kinds", L.FA(_t, z3.Implies(z3.Or(*[TY.kind(_t) == TY.K[k_] for k_ in TY.KINDS if k_ != "Other"]), _t != L.NONE), [TY.kind(_t)]))
ax("wf-rw-not-none", z3.Not(wf_rw(L.NONE)))

# ---- wf_ann: annotation types as stub generation hands them on - wf_rw with forward references (to generated TypedDict classes) allowed at any depth.
# Same eliminations as wf_rw except that a node may be a ForwardRef leaf; every wf_rw type is one; closed under the same constructors.
wf_ann = declare_pred("wf_ann", L.V, L.B)
is_fwd = lambda x: TY.kind(x) == TY.K["ForwardRef"]
ax("wf-ann-from-rw", L.FA(_t, z3.Implies(wf_rw(_t), wf_ann(_t)), [wf_rw(_t)]))
ax("wf-ann-fwd", L.FA(_t, z3.Implies(is_fwd(_t), wf_ann(_t)), [wf_ann(_t)]))
ax("fwd-leaf", L.FA(_t, z3.Implies(is_fwd(_t), z3.And(z3.Not(TY.has_args(_t)), _t != TY.ELLIPSIS, _t != L.NONE, _t != TY.UNION_BARE, _t != TY.ANY, _t != TY.NONETYPE)), [TY.kind(_t)]))
ax("wf-ann-shallow", L.FA(_t, z3.Implies(wf_ann(_t), z3.And(z3.Or(TY.wf_ty(_t), _t == TY.ELLIPSIS, is_fwd(_t)), TY.kind(_t) != TY.K["NamedTD"], TY.kind(_t) != TY.K["TypeVar"])), [wf_ann(_t)]))
ax("wf-ann-args", L.FA([_t, _i], z3.Implies(z3.And(wf_ann(_t), 0 <= _i, _i < L.len_(TY.args(_t)), TY.has_args(_t)), wf_ann(L.nth(TY.args(_t), _i))),
                       [(wf_ann(_t), L.nth(TY.args(_t), _i))]))
ax("wf-ann-td", L.FA([_t, _k], z3.Implies(z3.And(wf_ann(_t), TY.kind(_t) == TY.K["TD"]),
                                           z3.And(z3.Implies(L.has(TY.td_req(_t), _k), z3.And(wf_ann(L.get(TY.td_req(_t), _k)), L.get(TY.td_req(_t), _k) != TY.ELLIPSIS)),
                                                  z3.Implies(L.has(TY.td_opt(_t), _k), z3.And(wf_ann(L.get(TY.td_opt(_t), _k)), L.get(TY.td_opt(_t), _k) != TY.ELLIPSIS)))),
                     [(wf_ann(_t), L.get(TY.td_req(_t), _k)), (wf_ann(_t), L.get(TY.td_opt(_t), _k))]))
ax("wf-ann-no-legacy-empty-tuple", L.FA(_t, z3.Implies(wf_ann(_t), TY.args(_t) != L.mk_tuple([L.EMPTY_SEQ])), [wf_ann(_t)]))
ax("wf-ann-ellipsis-only-in-tuplevar", L.FA([_t, _i], z3.Implies(z3.And(wf_ann(_t), TY.has_args(_t), 0 <= _i, _i < L.len_(TY.args(_t)), L.nth(TY.args(_t), _i) == TY.ELLIPSIS),
                                                                 z3.And(TY.kind(_t) == TY.K["TupleVar"], _i == 1)), [(wf_ann(_t), L.nth(TY.args(_t), _i))]))
ax("wf-ann-args-not-none", L.FA([_t, _i], z3.Implies(z3.And(wf_ann(_t), 0 <= _i, _i < L.len_(TY.args(_t))), L.nth(TY.args(_t), _i) != L.NONE), [(wf_ann(_t), L.nth(TY.args(_t), _i))]))
ax("wf-ann-not-none", z3.Not(wf_ann(L.NONE)))
ax("wf-ann-td-dictlike", L.FA(_t, z3.Implies(z3.And(wf_ann(_t), TY.kind(_t) == TY.K["TD"]), z3.And(L.is_dictlike(TY.td_req(_t)), L.is_dictlike(TY.td_opt(_t)))), [wf_ann(_t), TY.td_req(_t)]))
_tya = lambda x: z3.And(wf_ann(x), x != TY.ELLIPSIS)
ax("wfa-intro-List", L.FA(_a, z3.Implies(_tya(_a), wf_ann(TY.List_(_a))), [TY.List_(_a)]))
ax("wfa-intro-Set", L.FA(_a, z3.Implies(_tya(_a), wf_ann(TY.Set_(_a))), [TY.Set_(_a)]))
ax("wfa-intro-Iterator", L.FA(_a, z3.Implies(_tya(_a), wf_ann(TY.Iterator_(_a))), [TY.Iterator_(_a)]))
ax("wfa-intro-Type", L.FA(_a, z3.Implies(_tya(_a), wf_ann(TY.Type_(_a))), [TY.Type_(_a)]))
ax("wfa-intro-TupleVar", L.FA(_a, z3.Implies(_tya(_a), wf_ann(TY.TupleVar_(_a))), [TY.TupleVar_(_a)]))
ax("wfa-intro-Dict", L.FA([_a, _b], z3.Implies(z3.And(_tya(_a), _tya(_b)), wf_ann(TY.Dict_(_a, _b))), [TY.Dict_(_a, _b)]))
ax("wfa-intro-DefaultDict", L.FA([_a, _b], z3.Implies(z3.And(_tya(_a), _tya(_b)), wf_ann(TY.DefaultDict_(_a, _b))), [TY.DefaultDict_(_a, _b)]))
ax("wfa-intro-Generator", L.FA([_a, _b, _c], z3.Implies(z3.And(_tya(_a), _tya(_b), _tya(_c)), wf_ann(TY.Generator_(_a, _b, _c))), [TY.Generator_(_a, _b, _c)]))
_alltya = lambda sq_: L.FA(_i, z3.Implies(z3.And(0 <= _i, _i < L.len_(sq_)), _tya(L.nth(sq_, _i))), [L.nth(sq_, _i)])
ax("wfa-intro-Tuple", L.FA(_sq, z3.Implies(_alltya(_sq), wf_ann(TY.Tuple_(_sq))), [TY.Tuple_(_sq)]))
ax("wfa-intro-Union", L.FA(_sq, z3.Implies(z3.And(L.len_(_sq) >= 1, _alltya(_sq)), _tya(TY.Union_(_sq))), [TY.Union_(_sq)]))

# ---- C06 deep invariant: every anonymous TypedDict node inside t has between 1 and k keys in total (k <= 0: there is none)
td_okd = declare_pred("td_okd", L.V, L.I, L.B)
_kk = L.const("rkk", L.I)
_tdsize = lambda x: L.len_(TY.td_req(x)) + L.len_(TY.td_opt(x))
ax("tdok-td", L.FA([_t, _kk], z3.Implies(z3.And(td_okd(_t, _kk), TY.kind(_t) == TY.K["TD"]), z3.And(_tdsize(_t) >= 1, _tdsize(_t) <= _kk)), [td_okd(_t, _kk)]))
ax("tdok-td-fields", L.FA([_t, _kk, _k], z3.Implies(z3.And(td_okd(_t, _kk), TY.kind(_t) == TY.K["TD"]),
                                                    z3.And(z3.Implies(L.has(TY.td_req(_t), _k), td_okd(L.get(TY.td_req(_t), _k), _kk)),
                                                           z3.Implies(L.has(TY.td_opt(_t), _k), td_okd(L.get(TY.td_opt(_t), _k), _kk)))),
                           [(td_okd(_t, _kk), L.get(TY.td_req(_t), _k)), (td_okd(_t, _kk), L.get(TY.td_opt(_t), _k))]))
ax("tdok-args", L.FA([_t, _kk, _i], z3.Implies(z3.And(td_okd(_t, _kk), TY.has_args(_t), 0 <= _i, _i < L.len_(TY.args(_t))), td_okd(L.nth(TY.args(_t), _i), _kk)),
                     [(td_okd(_t, _kk), L.nth(TY.args(_t), _i))]))
# introduction rules
ax("tdok-consts", L.FA(_kk, z3.And(td_okd(TY.ANY, _kk), td_okd(TY.CALLABLE, _kk), td_okd(TY.ELLIPSIS, _kk), td_okd(TY.NONETYPE, _kk)), [td_okd(TY.ANY, _kk)]))
ax("tdok-consts2", L.FA(_kk, td_okd(TY.CALLABLE, _kk), [td_okd(TY.CALLABLE, _kk)]))
ax("tdok-consts3", L.FA(_kk, td_okd(TY.ELLIPSIS, _kk), [td_okd(TY.ELLIPSIS, _kk)]))
ax("tdok-class", L.FA([_t, _kk], z3.Implies(TY.kind(_t) == TY.K["Class"], td_okd(_t, _kk)), [td_okd(_t, _kk)]))
for _nm, _ctor in (("List", TY.List_), ("Set", TY.Set_), ("Iterator", TY.Iterator_), ("Type", TY.Type_), ("TupleVar", TY.TupleVar_)):
    ax("tdok-" + _nm, L.FA([_a, _kk], z3.Implies(td_okd(_a, _kk), td_okd(_ctor(_a), _kk)), [td_okd(_ctor(_a), _kk)]))
for _nm, _ctor in (("Dict", TY.Dict_), ("DefaultDict", TY.DefaultDict_)):
    ax("tdok-" + _nm, L.FA([_a, _b, _kk], z3.Implies(z3.And(td_okd(_a, _kk), td_okd(_b, _kk)), td_okd(_ctor(_a, _b), _kk)), [td_okd(_ctor(_a, _b), _kk)]))
ax("tdok-Generator", L.FA([_a, _b, _c, _kk], z3.Implies(z3.And(td_okd(_a, _kk), td_okd(_b, _kk), td_okd(_c, _kk)), td_okd(TY.Generator_(_a, _b, _c), _kk)), [td_okd(TY.Generator_(_a, _b, _c), _kk)]))
_allok = lambda sq_, k_: L.FA(_i, z3.Implies(z3.And(0 <= _i, _i < L.len_(sq_)), td_okd(L.nth(sq_, _i), k_)), [L.nth(sq_, _i)])
ax("tdok-Tuple", L.FA([_sq, _kk], z3.Implies(_allok(_sq, _kk), td_okd(TY.Tuple_(_sq), _kk)), [td_okd(TY.Tuple_(_sq), _kk)]))
ax("tdok-Union", L.FA([_sq, _kk], z3.Implies(z3.And(L.len_(_sq) >= 1, _allok(_sq, _kk)), td_okd(TY.Union_(_sq), _kk)), [td_okd(TY.Union_(_sq), _kk)]))
_allfok = lambda d_, k_: L.FA(_k, z3.Implies(L.has(d_, _k), td_okd(L.get(d_, _k), k_)), [L.get(d_, _k)])
ax("tdok-TD", L.FA([_a, _b, _kk], z3.Implies(z3.And(L.len_(_a) + L.len_(_b) >= 1, L.len_(_a) + L.len_(_b) <= _kk, _allfok(_a, _kk), _allfok(_b, _kk)), td_okd(TY.TD_(_a, _b), _kk)),
                   [td_okd(TY.TD_(_a, _b), _kk)]))
ax("tdok-subscript", L.FA([_a, _sq, _kk], z3.Implies(_allok(_sq, _kk), td_okd(TY.subscript(_a, _sq), _kk)), [td_okd(TY.subscript(_a, _sq), _kk)]))


@spec("forall_int")
def _forall_int(ip, a, kw):
    clo = a[0]
    vs = [L.fresh(x.arg, L.I) for x in clo.node.args.args]
    return ZB(z3.ForAll(vs, as_bool(ip.call_closure(clo, [ZI(v) for v in vs]))))
