"""T-SQL: the fragment of SQL the store emits, read off the query text that the real code builds on each path.
A small parser (specification, in the checker) maps WHERE / GROUP BY / LIMIT to logic. SQLite semantics assumed:
== on TEXT is byte equality; substr/length as documented; LIKE is left uninterpreted (ASCII case-insensitive with
_ and % wildcards: NOT equivalent to a prefix test); GROUP BY over all selected columns = DISTINCT; LIMIT n = any n rows.
ACID behaviour of SQLite across connections, processes and crashes is assumed, not verified."""
import re
import z3
from pyvc import logic as L
from pyvc import registry as R
from pyvc.values import *
from pyvc.state import RaisedEx
from pyvc.spec import declare_pred, spec

T = "sql"
like = L.fn("sql_like", L.S, L.S, L.B)


def pieces(term):
    """Flatten a z3 string term built by concatenation into python strings and symbolic leaves."""
    term = z3.simplify(term)
    if z3.is_string_value(term):
        return [term.as_string()]
    if term.decl().kind() == z3.Z3_OP_SEQ_CONCAT:
        out = []
        for c in term.children():
            out.extend(pieces(c))
        return out
    return [term]


def query_text(term):
    """Query text with every symbolic piece replaced by an identifier placeholder §k."""
    syms = []
    txt = ""
    for p in pieces(term):
        if isinstance(p, str):
            txt += p
        else:
            syms.append(p)
            txt += "§%d" % (len(syms) - 1)
    return txt, syms


TOKEN = re.compile(r"\s*(==|\|\||<=|>=|!=|<>|[(),?=<>]|'(?:[^']|'')*'|[A-Za-z_§][A-Za-z_0-9§]*|\d+)")


def tokenize(txt):
    txt = re.sub(r"--[^\n]*", "", txt)
    pos, out = 0, []
    txt = txt.strip().rstrip(";")
    while pos < len(txt):
        m = TOKEN.match(txt, pos)
        if not m:
            raise Unsupported("SQL token at %r" % txt[pos:pos + 20])
        out.append(m.group(1))
        pos = m.end()
    return out


class Parsed:
    pass


def parse_select(txt):
    toks = tokenize(txt)
    up = [t.upper() for t in toks]
    P = Parsed()

    def find(word, start=0):
        for i in range(start, len(up)):
            if up[i] == word:
                return i
        return -1
    if up[0] != "SELECT":
        raise Unsupported("not a SELECT")
    i_from = find("FROM")
    P.columns = [t for t in toks[1:i_from] if t != ","]
    P.table = toks[i_from + 1]
    i_where, i_group, i_order, i_limit = find("WHERE"), find("GROUP"), find("ORDER"), find("LIMIT")
    ends = sorted(x for x in (i_group, i_order, i_limit, len(toks)) if x > 0)
    P.where = toks[i_where + 1:min(e for e in ends if e > i_where)] if i_where > 0 else []
    P.group = []
    if i_group > 0:
        end = min(e for e in ends if e > i_group)
        P.group = [t for t in toks[i_group + 2:end] if t != ","]
    P.order = toks[i_order + 2:min(e for e in ends if e > i_order)] if i_order > 0 else []
    P.limit = toks[i_limit + 1:] if i_limit > 0 else None
    # count ? placeholders in textual order per clause
    P.n_params_before_limit = sum(1 for t in toks[:i_limit if i_limit > 0 else len(toks)] if t == "?")
    P.n_params = sum(1 for t in toks if t == "?")
    return P


class WhereEval:
    """Denotation of a WHERE expression over one symbolic row (columns -> z3 strings) and the bound values."""

    def __init__(self, toks, row, values):
        self.toks, self.i, self.row, self.values, self.k = toks, 0, row, values, 0

    def peek(self):
        return self.toks[self.i] if self.i < len(self.toks) else None

    def eat(self, t=None):
        x = self.peek()
        if t is not None and (x is None or x.upper() != t):
            raise Unsupported("SQL: expected %s, got %s" % (t, x))
        self.i += 1
        return x

    def expr(self):
        e = self.conj()
        while self.peek() and self.peek().upper() == "OR":
            self.eat()
            e = z3.Or(e, self.conj())
        return e

    def conj(self):
        e = self.cmp()
        while self.peek() and self.peek().upper() == "AND":
            self.eat()
            e = z3.And(e, self.cmp())
        return e

    def cmp(self):
        if self.peek() == "(":
            self.eat()
            e = self.expr()
            self.eat(")")
            return e
        a = self.concat()
        op = self.eat().upper()
        b = self.concat()
        if op in ("==", "="):
            return a == b
        if op in ("!=", "<>"):
            return a != b
        if op == "LIKE":
            return like(a, b)
        if op == "GLOB":
            return L.fn("sql_glob", L.S, L.S, L.B)(a, b)
        if op in ("<", "<=", ">", ">="):
            # TEXT comparison under BINARY collation: left uninterpreted (not needed for the store's own query)
            return L.fn("sql_cmp_" + {"<": "lt", "<=": "le", ">": "gt", ">=": "ge"}[op], L.S, L.S, L.B)(a, b)
        raise Unsupported("SQL operator %s" % op)

    def concat(self):
        a = self.atom()
        while self.peek() == "||":
            self.eat()
            a = z3.Concat(a, self.atom())
        return a

    def atom(self):
        t = self.eat()
        if t == "?":
            v = self.values[self.k]
            self.k += 1
            return as_str(v)
        if t.startswith("'"):
            return z3.StringVal(t[1:-1].replace("''", "'"))
        if t.lower() in ("substr", "length"):
            self.eat("(")
            args = [self.arith()]
            while self.peek() == ",":
                self.eat()
                args.append(self.arith())
            self.eat(")")
            if t.lower() == "length":
                return ("len", z3.Length(args[0]))
            s, start, ln = args
            return z3.SubString(s, _int(start) - 1, _int(ln))
        if t in self.row:
            return self.row[t]
        raise Unsupported("SQL atom %s" % t)

    def arith(self):
        a = self.atom()
        return a


def _int(x):
    if isinstance(x, tuple) and x[0] == "len":
        return x[1]
    if z3.is_string_value(x) or z3.is_seq(x):
        raise Unsupported("SQL: string where int expected")
    return x


# numeric literal atoms
_old_atom = WhereEval.atom


def _atom(self):
    t = self.peek()
    if t is not None and t.isdigit():
        self.eat()
        return z3.IntVal(int(t))
    return _old_atom(self)


WhereEval.atom = _atom


def _parse(ip, qv):
    txt, syms = query_text(as_str(qv))
    return parse_select(txt), syms


@spec("sql_where")
def _sql_where(ip, args, kw):
    """sql_where(query, values, row_module, row_qualname): does the row satisfy the WHERE clause?"""
    P, syms = _parse(ip, args[0])
    values = args[1]
    if not isinstance(values, PySeq):
        raise Unsupported("symbolic parameter list")
    row = {"module": as_str(args[2]), "qualname": as_str(args[3])}
    ev = WhereEval(P.where, row, values.items)
    e = ev.expr()
    if ev.i != len(P.where):
        raise Unsupported("SQL: trailing tokens in WHERE")
    return ZB(e)


@spec("sql_distinct_rows")
def _sql_distinct(ip, args, kw):
    """GROUP BY lists exactly the selected columns (so the result rows are pairwise distinct)."""
    P, syms = _parse(ip, args[0])
    return ZB(bool(P.group) and set(P.group) == set(P.columns))


@spec("sql_columns")
def _sql_columns(ip, args, kw):
    P, syms = _parse(ip, args[0])
    return PySeq([PyC(c) for c in P.columns], "list")


@spec("sql_limit_is")
def _sql_limit_is(ip, args, kw):
    """LIMIT ? is present and bound to the given value."""
    P, syms = _parse(ip, args[0])
    values = args[1]
    if P.limit != ["?"] or not isinstance(values, PySeq) or P.n_params != len(values.items):
        return ZB(False)
    return ZB(eq(values.items[P.n_params_before_limit], args[2]))


@spec("sql_table_is")
def _sql_table_is(ip, args, kw):
    P, syms = _parse(ip, args[0])
    m = re.fullmatch(r"§(\d+)", P.table)
    if not m:
        return ZB(eq(PyC(P.table), args[1]))
    return ZB(syms[int(m.group(1))] == as_str(args[1]))


# ---- sqlite3 connection as an effect-trace object
declare_always_truthy("Conn", "Cursor", "Row", "Store")


def _conn_with(ip, cm):
    def enter():
        ip.st.effects = L.seq_append(ip.st.effects, L.mk_tuple([as_v(PyC("begin")), cm.term]))
        return cm

    def exit_ok():
        ip.st.effects = L.seq_append(ip.st.effects, L.mk_tuple([as_v(PyC("commit")), cm.term]))

    def exit_exc():
        ip.st.effects = L.seq_append(ip.st.effects, L.mk_tuple([as_v(PyC("rollback")), cm.term]))
    return enter, exit_ok, exit_exc


R.METHODS[("Conn", "__with__")] = _conn_with


def _exec(kind):
    def f(ip, r, a, kw, node):
        if ip.branch(L.fresh("sqlite_raises", L.B), getattr(node, "lineno", 0)):
            raise RaisedEx(ExcVal("sqlite3.Error", exact=False), getattr(node, "lineno", 0))
        conn = r.term if base_tag(r.tag) == "Conn" else L.fn("cursor_conn", L.V, L.V)(r.term)
        ip.st.effects = L.seq_append(ip.st.effects, L.mk_tuple([as_v(PyC(kind)), conn, as_v(a[0]), as_v(a[1]) if len(a) > 1 else L.NONE]))
        ip.st.last_exec = (a[0], a[1] if len(a) > 1 else None)
        ip.st.exec_log = getattr(ip.st, "exec_log", []) + [a[0]]
        return ZV(L.fresh("cursor"), "Cursor")
    return f


R.METHODS[("Conn", "execute")] = _exec("execute")
R.METHODS[("Conn", "executemany")] = _exec("executemany")
R.METHODS[("Cursor", "execute")] = _exec("execute")
R.METHODS[("Conn", "cursor")] = lambda ip, r, a, k, n: ZV(L.fn("conn_cursor", L.V, L.V)(r.term), "Cursor")
L.axiom(T, "cursor-conn", L.FA(L.const("cn"), L.fn("cursor_conn", L.V, L.V)(L.fn("conn_cursor", L.V, L.V)(L.const("cn"))) == L.const("cn"),
                              [L.fn("conn_cursor", L.V, L.V)(L.const("cn"))]))
fetched = declare_pred("fetched", L.V, L.V, tag="Seq[RowT]")   # rows the last executed query returns (5-tuples)


def _fetchall(ip, r, a, kw, node):
    ip.st.env["ghost_eff_at_fetch"] = ZV(ip.st.effects, "seq")
    return ZV(fetched(ip.st.effects), "Seq[seq]")


R.METHODS[("Cursor", "fetchall")] = _fetchall
R.EXTERNALS["datetime.datetime.now"] = R.ExtFn(lambda ip, a, kw, node: ZV(L.fresh("now"), "Time"))
R.add_field({"SQLiteStore"}, "conn", "Conn", "SQLiteStore.conn")
R.add_field({"SQLiteStore"}, "table", "str", "SQLiteStore.table")
declare_always_truthy("SQLiteStore")

# ---- rows / row encoding of traces
ROW = declare_pred("ROW", L.V, L.V, tag="Row")                  # CallTraceRow.from_trace(t) when it succeeds
encodable = declare_pred("encodable", L.V, L.B)                # from_trace(t) does not raise
SER = declare_pred("SER", L.V, L.I, L.V, tag="Seq[Row]")        # rows of the serialisable traces among the first i
mk_row = L.fn("mk_row", L.V, L.V, L.V, L.V, L.V, L.V)
_ROWF = ("module", "qualname", "arg_types", "return_type", "yield_type")
_ROWT = {"module": "str", "qualname": "str", "arg_types": "str", "return_type": "Opt[str]", "yield_type": "Opt[str]"}
_rf = {a: L.fn("row_" + a, L.V, L.V) for a in _ROWF}
for _a in _ROWF:
    R.ATTRS[("Row", _a)] = (lambda a_: lambda ip, r: ZV(_rf[a_](r.term), _ROWT[a_]))(_a)
    declare_pred("row_" + _a, L.V, L.V, tag=_ROWT[_a])
_xs = [L.const("rw%d" % k) for k in range(5)]
L.axiom(T, "mk-row", L.FA(_xs, z3.And(*[_rf[a](mk_row(*_xs)) == _xs[k] for k, a in enumerate(_ROWF)]), [mk_row(*_xs)]))


def _mk_row(ip, a, kw, node):
    if len(a) == 1 and isinstance(a[0], tuple) and a[0][0] == "*":
        sv = ip.seq_of(a[0][1])
        ip.partial(L.len_(sv.term) == 5, "TypeError", node, "row-arity")
        a = [ZV(L.nth(sv.term, z3.IntVal(k)), None) for k in range(5)]
    if len(a) != 5 or kw:
        raise Unsupported("CallTraceRow(...) arity")
    return ZV(mk_row(*[as_v(x) for x in a]), "Row")


R.EXTERNALS["monkeytype.encoding:CallTraceRow"] = R.ExtFn(_mk_row)
_t, _i = L.const("trs"), L.const("i", L.I)
L.axiom(T, "SER-0", L.FA(_t, SER(_t, 0) == L.EMPTY_SEQ, [SER(_t, 0)]))
L.axiom(T, "SER-step", L.FA([_t, _i], z3.Implies(z3.And(0 <= _i, _i < L.len_(_t)),
                                                  SER(_t, _i + 1) == z3.If(encodable(L.nth(_t, _i)), L.seq_append(SER(_t, _i), ROW(L.nth(_t, _i))), SER(_t, _i))),
                             [(SER(_t, _i), L.nth(_t, _i))]))


@spec("sql_is_insert")
def _sql_is_insert(ip, args, kw):
    """The statement is INSERT INTO <table> VALUES (?, ..., ?) with n placeholders."""
    txt, syms = query_text(as_str(args[0]))
    m = re.fullmatch(r"\s*INSERT INTO (§\d+|\w+) VALUES \(((?:\?\s*,\s*)*\?)\)\s*", txt)
    if not m:
        return ZB(False)
    n = m.group(2).count("?")
    tm = re.fullmatch(r"§(\d+)", m.group(1))
    tbl_ok = (syms[int(tm.group(1))] == as_str(args[1])) if tm else z3.BoolVal(m.group(1) == args[1].value if isinstance(args[1], PyC) else False)
    return ZB(z3.And(tbl_ok, z3.BoolVal(n == args[2].value)))


@spec("last_stmt")
def _last_stmt(ip, args, kw):
    le = getattr(ip.st, "last_exec", None)
    if le is None:
        raise Unsupported("no SQL statement executed on this path")
    return le[0]


@spec("last_params")
def _last_params(ip, args, kw):
    le = getattr(ip.st, "last_exec", None)
    if le is None or le[1] is None:
        raise Unsupported("no SQL parameters on this path")
    return le[1]


def _store_add(ip, r, a, kw, node):
    if ip.branch(L.fresh("store_add_raises", L.B), getattr(node, "lineno", 0)):
        raise RaisedEx(ExcVal("Exception", exact=False), getattr(node, "lineno", 0))
    ip.st.effects = L.seq_append(ip.st.effects, L.mk_tuple([as_v(PyC("store.add")), r.term, as_v(a[0])]))
    return PyC(None)


R.METHODS[("Store", "add")] = _store_add


# ---- sqlite3.connect: the connection's transaction control is the default one iff no isolation / autocommit option is passed
default_txn = declare_pred("default_txn", L.V, L.B)


def _connect(ip, a, kw, node):
    conn = ZV(L.fresh("conn"), "Conn")
    ip.st.assume(conn.term != L.NONE)
    ip.st.assume(L.fn("conn_path", L.V, L.V)(conn.term) == as_v(a[0]))
    plain = len(a) == 1 and not (set(kw) & {"isolation_level", "autocommit"})
    ip.st.assume(default_txn(conn.term) == z3.BoolVal(plain))
    ip.st.effects = L.seq_append(ip.st.effects, L.mk_tuple([as_v(PyC("connect")), conn.term]))
    return conn


R.EXTERNALS["sqlite3.connect"] = R.ExtFn(_connect)
declare_pred("conn_path", L.V, L.V)


@spec("sql_is_ddl")
def _sql_is_ddl(ip, args, kw):
    """CREATE TABLE / CREATE INDEX ... IF NOT EXISTS (idempotent DDL)."""
    txt, syms = query_text(as_str(args[0]))
    t = re.sub(r"--[^\n]*", "", txt).strip().upper()
    return ZB(bool(re.match(r"CREATE (TABLE|INDEX) IF NOT EXISTS", t)))


@spec("last_effect_")
def _last_effect2(ip, a, kw):
    e = ip.st.effects
    return ZV(L.nth(e, L.len_(e) - 1), "seq")


R.INLINE_CTORS["monkeytype.db.sqlite:SQLiteStore"] = "SQLiteStore"


@spec("executed")
def _executed(ip, a, kw):
    """executed(k): text of the k-th SQL statement executed on this path (ghost)."""
    log = getattr(ip.st, "exec_log", [])
    k = a[0].value
    if k >= len(log):
        return PyC("")
    return log[k]


@spec("n_executed")
def _n_executed(ip, a, kw):
    return PyC(len(getattr(ip.st, "exec_log", [])))


@spec("sql_no_where")
def _sql_no_where(ip, args, kw):
    """The SELECT has no WHERE clause (every row of the table takes part) and no LIMIT."""
    P, syms = _parse(ip, args[0])
    return ZB(not P.where and P.limit is None)

# ---- Connection.in_transaction / rollback(): whether a transaction is open is a function of the connection and of what has been done so far
conn_in_txn = declare_pred("conn_in_txn", L.V, L.V, L.B)
R.ATTRS[("Conn", "in_transaction")] = lambda ip, r: ZB(conn_in_txn(r.term, ip.st.effects))


def _conn_rollback(ip, r, a, kw, node):
    if ip.branch(L.fresh("sqlite_raises", L.B), getattr(node, "lineno", 0)):
        raise RaisedEx(ExcVal("sqlite3.Error", exact=False), getattr(node, "lineno", 0))
    ip.st.effects = L.seq_append(ip.st.effects, L.mk_tuple([as_v(PyC("rollback")), r.term]))
    return PyC(None)


R.METHODS[("Conn", "rollback")] = _conn_rollback
R.TAG_CLASS["SQLiteStore"] = "monkeytype.db.sqlite:SQLiteStore"
