"""T-IMPORTS (C11): which names an annotation uses in a stub, and the ImportMap (defaultdict(set)) that has to provide them.

`uses(t, m, n)`: rendering the annotation t mentions the name n that has to be imported from module m. Written from the rendering rules
of the property (Any / Optional / Union / generics come from `typing` under their typing name; a class is referred to by the root of its
qualified name, imported from its module; builtins, NoneType and forward references to classes the stub itself defines need nothing).
Opaque with a reveal marker (recursive definition)."""
import z3
from pyvc import logic as L
from pyvc import registry as R
from pyvc.values import *
from pyvc.spec import declare_pred, spec
from theories import types as TY
from theories import path as PATH
from theories import enc_th as ENC

T = "imports"
ax = lambda n, e: L.axiom(T, n, e)
kind, args, K = TY.kind, TY.args, TY.K
S = lambda s: L.box_str(z3.StringVal(s))
t, m, n, d, e, k, x, q = (L.const("im_" + v) for v in ("t", "m", "n", "d", "e", "k", "x", "q"))
i = L.const("i", L.I)

root = declare_pred("root_name", L.V, L.V, tag="str")                 # qualname.split(".")[0]
ax("root-def", L.FA(q, root(q) == L.nth(PATH.str_split(q, S(".")), 0), [root(q)]))
uses = declare_pred("uses", L.V, L.V, L.V, L.B)
reveal_uses = declare_pred("reveal_uses", L.V, L.B)
ax("reveal-uses-true", L.FA(t, reveal_uses(t), [reveal_uses(t)]))
_named = lambda y: z3.Or(*[kind(y) == K[kk] for kk in TY.GENERIC_NAME])
_typing = lambda mm, nn, name: z3.And(mm == S("typing"), nn == S(name))
_renderable = lambda y: z3.And(y != TY.EMPTY, z3.Or(TY.is_class(y), y == TY.ANY, _named(y)), TY.tmodule(y) != S("builtins"))
_argsuse = lambda y, mm, nn, skip_none: z3.Exists([i], z3.And(0 <= i, i < L.len_(args(y)), z3.BoolVal(True) if not skip_none else L.nth(args(y), i) != TY.NONETYPE,
                                                             uses(L.nth(args(y), i), mm, nn)))
# the two builtin types that `builtins` does not provide by name are rendered and imported from `types` (C11)
_NIT, _MP = ENC.HIDDEN["NotImplementedType"], ENC.HIDDEN["mappingproxy"]
from theories import values_th as _VT0
ax("hidden-type-objects", z3.And(_VT0.cls_of(L.atom("global", "builtins.NotImplemented")) == _NIT, _VT0.cls_of(L.atom("global", "builtins.type.__dict__")) == _MP, _NIT != _MP))
ax("uses-hidden", L.FA([m, n], z3.And(uses(_NIT, m, n) == z3.And(m == S("types"), n == S("NotImplementedType")),
                                      uses(_MP, m, n) == z3.And(m == S("types"), n == S("MappingProxyType"))), [uses(_NIT, m, n)]))
ax("uses-hidden2", L.FA([m, n], z3.And(uses(_NIT, m, n) == z3.And(m == S("types"), n == S("NotImplementedType")),
                                       uses(_MP, m, n) == z3.And(m == S("types"), n == S("MappingProxyType"))), [uses(_MP, m, n)]))
ax("uses-def", L.FA([t, m, n], z3.Implies(z3.And(t != _NIT, t != _MP), uses(t, m, n) == z3.And(
    _renderable(t),
    z3.If(t == TY.ANY, _typing(m, n, "Any"),
          z3.If(kind(t) == K["Union"],
                z3.If(TY.umember(t, TY.NONETYPE),
                      z3.Or(_typing(m, n, "Optional"), z3.And(L.len_(args(t)) >= 3, _typing(m, n, "Union")), _argsuse(t, m, n, True)),
                      z3.Or(_typing(m, n, "Union"), _argsuse(t, m, n, False))),
                z3.If(_named(t),
                      z3.Or(z3.And(m == TY.tmodule(t), n == root(TY.gname(t))), z3.And(TY.has_args(t), _argsuse(t, m, n, False))),
                      z3.And(m == TY.tmodule(t), n == root(z3.If(TY.is_tdmeta(t), ENC.td_name(t), ENC.cqual(t))))))))), [(uses(t, m, n), reveal_uses(t))]))
# introduction through an argument (the existential above, as a rule E-matching can use)
ax("uses-arg-intro", L.FA([t, i, m, n], z3.Implies(z3.And(_renderable(t), kind(t) != K["Union"], _named(t), TY.has_args(t), 0 <= i, i < L.len_(args(t)), uses(L.nth(args(t), i), m, n)),
                                                    uses(t, m, n)), [(uses(L.nth(args(t), i), m, n), reveal_uses(t))]))
ax("uses-union-arg-intro", L.FA([t, i, m, n], z3.Implies(z3.And(_renderable(t), kind(t) == K["Union"], 0 <= i, i < L.len_(args(t)), uses(L.nth(args(t), i), m, n)),
                                                          uses(t, m, n)), [(uses(L.nth(args(t), i), m, n), reveal_uses(t))]))
ax("nonetype-builtins", TY.tmodule(TY.NONETYPE) == S("builtins"))
from theories import values_th as VT
_sq = L.const("im_sq")
# nesting depth of a union built from a sequence of types is at most one more than the deepest of them (typing flattens, never nests deeper)
ax("Union-depth", L.FA(_sq, z3.Implies(L.len_(_sq) >= 1, VT.depth(TY.Union_(_sq)) <= 1 + VT.mdepth(_sq)), [TY.Union_(_sq)]))

# ---------------------------------------------------------------- ImportMap: defaultdict(set), pure-update semantics
declare_always_truthy("ImportMap")
R.EXTERNALS["monkeytype.stubs:ImportMap"] = R.ExtFn(lambda ip, a, kw, node: ZV(L.EMPTY_DICT, "ImportMap"))


def _im_getitem(ip, r, a, kw, node):
    kk = as_v(a[0])
    return ZV(z3.If(L.has(r.term, kk), L.get(r.term, kk), L.EMPTY_SET), "set")


def _im_merge(ip, r, a, kw, node):
    """ImportMap.merge(other), as its contract states it (membership view); the body is verified against the same clauses."""
    other = as_v(a[0])
    new = L.fresh("merged")
    mm, xx = L.fresh("m"), L.fresh("x")
    g = lambda dd, key: z3.If(L.has(dd, key), L.get(dd, key), L.EMPTY_SET)
    ip.st.assume(z3.ForAll([mm], L.has(new, mm) == z3.Or(L.has(r.term, mm), L.has(other, mm)), patterns=[L.has(new, mm)]))
    ip.st.assume(z3.ForAll([mm, xx], L.has(g(new, mm), xx) == z3.Or(L.has(g(r.term, mm), xx), L.has(g(other, mm), xx)), patterns=[L.has(L.get(new, mm), xx)]))
    ip.st.assume(new != L.NONE)
    if node is None:
        raise Unsupported("merge on a temporary ImportMap")
    ip.assign(node, ZV(new, "ImportMap"))      # `node` is the receiver expression: in-place mutation as a pure update of that variable
    return PyC(None)


R.METHODS[("ImportMap", "merge")] = _im_merge


R.METHODS[("ImportMap", "__getitem__")] = _im_getitem
R.METHODS[("ImportMap", "items")] = lambda ip, r, a, k_, n_: ZV(L.dict_items(r.term), "Seq[Pair[str,set]]")
R.METHODS[("ImportMap", "keys")] = lambda ip, r, a, k_, n_: ZV(r.term, "Seq[str]")


@spec("getd_set")
def _getd_set(ip, a, kw):
    dd, key = as_v(a[0]), as_v(a[1])
    return ZV(z3.If(L.has(dd, key), L.get(dd, key), L.EMPTY_SET), "set")


@spec("provides")
def _provides(ip, a, kw):
    """provides(imports, m, n): the import map has the name n under module m."""
    dd, mm, nn = as_v(a[0]), as_v(a[1]), as_v(a[2])
    return ZB(z3.And(L.has(dd, mm), L.has(L.get(dd, mm), nn)))


@spec("forall_mn")
def _forall_mn(ip, a, kw):
    clo = a[0]
    vs = [L.fresh(v.arg) for v in clo.node.args.args]
    return ZB(z3.ForAll(vs, as_bool(ip.call_closure(clo, [ZV(v, "str") for v in vs]))))
