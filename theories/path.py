"""T-PATH: pathlib / os.environ / sysconfig as config.py uses them (assumed; validated by runtime/props/c17.py)."""
import z3
from pyvc import logic as L
from pyvc import registry as R
from pyvc.values import *
from pyvc.state import RaisedEx
from pyvc.spec import declare_pred, spec

T = "path"
path_of = declare_pred("path_of", L.V, L.V, tag="Path")          # pathlib.Path(str)
resolve = declare_pred("resolve", L.V, L.V, tag="Path")
under = declare_pred("under", L.V, L.V, L.B)                     # b's components are a prefix of a's (a == b counts)
rel = declare_pred("rel", L.V, L.V, L.V, tag="Path")             # a.relative_to(b), defined when under(a, b)
stem = declare_pred("stem", L.V, L.V, tag="str")
parts = declare_pred("parts", L.V, L.V, tag="Seq[str]")
env_var = declare_pred("env_var", L.V, L.V, tag="Opt[str]")      # os.environ.get(name): constant during a run
str_split = declare_pred("str_split", L.V, L.V, L.V, tag="Seq[str]")
LIB_PATHS = L.const("LIB_PATHS")
R.SPEC["LIB_PATHS"] = ZV(LIB_PATHS, "Seq[Path]")
declare_always_truthy("Path")          # bool(PurePath) is always True

p = L.const("pth")
L.axiom(T, "resolve-idem", L.FA(p, resolve(resolve(p)) == resolve(p), [resolve(p)]))
L.axiom(T, "under-refl", L.FA(p, under(p, p), [under(p, p)]))

R.EXTERNALS["pathlib.Path"] = R.ExtFn(lambda ip, a, kw, node: ZV(path_of(as_v(a[0])), "Path"))
R.EXTERNALS["pathlib.Path.__getitem__"] = None
del R.EXTERNALS["pathlib.Path.__getitem__"]
R.EXTERNALS["monkeytype.config:LIB_PATHS"] = ZV(LIB_PATHS, "Seq[Path]")
R.METHODS[("Path", "resolve")] = lambda ip, r, a, k, n: ZV(resolve(r.term), "Path")


def _relative_to(ip, r, a, kw, node):
    b = as_v(a[0])
    ip.partial(under(r.term, b), "ValueError", node, "relative_to")
    return ZV(rel(r.term, b), "Path")


R.METHODS[("Path", "relative_to")] = _relative_to
R.ATTRS[("Path", "stem")] = lambda ip, r: ZV(stem(r.term), "str")
R.ATTRS[("Path", "parts")] = lambda ip, r: ZV(parts(r.term), "Seq[str]")
R.ATTRS[("Code", "co_filename")] = lambda ip, r: ZS(L.fn("co_filename", L.V, L.S)(r.term))
R.SPEC["co_filename"] = SpecFn(lambda ip, a, kw: ZS(L.fn("co_filename", L.V, L.S)(as_v(a[0]))), "co_filename")


def _environ_get(ip, a, kw, node):
    return ZV(env_var(as_v(a[0])), "Opt[str]")


R.EXTERNALS["os.environ.get"] = R.ExtFn(_environ_get)


def _split(ip, r, a, kw, node):
    return ZV(str_split(as_v(r), as_v(a[0])), "Seq[str]")


R.METHODS[("str", "split")] = _split
