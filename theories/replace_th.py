"""T-REPLACE: vocabulary for ReplaceTypedDictsWithStubs (stubs.py): forward references, the class / attribute stubs it creates as immutable
records (the class never assigns a field of a stub after creating it - checked by an AST scan below), the instance itself on the heap."""
import ast
import z3
from pyvc import logic as L
from pyvc import registry as R
from pyvc import source
from pyvc.values import *
from pyvc.spec import declare_pred, spec
from theories import types as TY
from theories import rewriters as RW

T = "replace"
declare_always_truthy("Replacer", "TDStub", "AttrStub")
R.TAG_CLASS["Replacer"] = "monkeytype.stubs:ReplaceTypedDictsWithStubs"
R.INLINE_CTORS["monkeytype.stubs:ReplaceTypedDictsWithStubs"] = "Replacer"
R.add_field({"Replacer"}, "stubs", "Seq[TDStub]", "Replacer.stubs")
R.add_field({"Replacer"}, "_class_name_hint", "str", "Replacer._class_name_hint")

fwd_ref = L.fn("fwd_ref", L.V, L.V)                 # typing.ForwardRef(name)
fwd_name = declare_pred("fwd_name", L.V, L.V, tag="str")
mk_cstub = L.fn("mk_cstub", L.V, L.V, L.V)          # ClassStub(name, function_stubs=[], attribute_stubs=attrs) as a value
cs_name = declare_pred("cs_name", L.V, L.V, tag="str")
cs_attrs = declare_pred("cs_attrs", L.V, L.V, tag="Seq[AttrStub]")
mk_attr = L.fn("mk_attr", L.V, L.V, L.V)            # AttributeStub(name, typ)
at_name = declare_pred("at_name", L.V, L.V, tag="str")
at_typ = declare_pred("at_typ", L.V, L.V, tag="Ty")
td_class_name = declare_pred("td_class_name", L.V, L.V, tag="str")   # get_typed_dict_class_name(hint): PascalCase(hint) + "TypedDict__RENAME_ME__" (text: uninterpreted)
x, y = L.const("rpx"), L.const("rpy")
L.axiom(T, "fwd-ref", L.FA(x, z3.And(TY.kind(fwd_ref(x)) == TY.K["ForwardRef"], fwd_name(fwd_ref(x)) == x, fwd_ref(x) != L.NONE), [fwd_ref(x)]))
L.axiom(T, "mk-cstub", L.FA([x, y], z3.And(cs_name(mk_cstub(x, y)) == x, cs_attrs(mk_cstub(x, y)) == y, mk_cstub(x, y) != L.NONE), [mk_cstub(x, y)]))
L.axiom(T, "mk-attr", L.FA([x, y], z3.And(at_name(mk_attr(x, y)) == x, at_typ(mk_attr(x, y)) == y, mk_attr(x, y) != L.NONE), [mk_attr(x, y)]))
L.axiom(T, "td-class-name-str", L.FA(x, L.is_str(td_class_name(x)), [td_class_name(x)]))
# a forward reference has no TypedDict node inside (it is a leaf)
_k = L.const("rpk", L.I)
L.axiom(T, "tdok-fwd", L.FA([x, _k], z3.Implies(TY.kind(x) == TY.K["ForwardRef"], RW.td_okd(x, _k)), [RW.td_okd(x, _k)]))

R.EXTERNALS["monkeytype.compat:make_forward_ref"] = R.ExtFn(lambda ip, a, kw, node: ZV(fwd_ref(as_v(a[0])), "Ty"))
R.EXTERNALS["monkeytype.stubs:AttributeStub"] = R.ExtFn(lambda ip, a, kw, node: ZV(mk_attr(as_v(a[0]), as_v(a[1])), "AttrStub"))
R.ATTRS[("TDStub", "name")] = lambda ip, r: ZV(cs_name(r.term), "str")
R.ATTRS[("TDStub", "attribute_stubs")] = lambda ip, r: ZV(cs_attrs(r.term), "Seq[AttrStub]")
R.ATTRS[("AttrStub", "name")] = lambda ip, r: ZV(at_name(r.term), "str")
R.ATTRS[("AttrStub", "typ")] = lambda ip, r: ZV(at_typ(r.term), "Ty")


def _class_stub_record(ip, a, kw, node):
    """ClassStub(name=..., function_stubs=[], attribute_stubs=...) inside ReplaceTypedDictsWithStubs: an immutable value."""
    name = kw.get("name", a[0] if a else None)
    fs = kw.get("function_stubs", a[1] if len(a) > 1 else None)
    attrs = kw.get("attribute_stubs", a[2] if len(a) > 2 else None)
    if name is None or attrs is None or not (isinstance(fs, PySeq) and not fs.items):
        raise Unsupported("ClassStub(...) of another shape inside ReplaceTypedDictsWithStubs (line %s)" % getattr(node, "lineno", "?"))
    bad = _replacer_never_mutates_stubs()
    if bad:
        raise Unsupported("a stub created by ReplaceTypedDictsWithStubs may be mutated (%s): the record model does not apply" % ", ".join(bad[:3]))
    av = ip.seq_of(attrs)
    # `attribute_stubs or []`: an empty list is replaced by a new empty list - the same value
    return ZV(mk_cstub(as_v(name), av.term), "TDStub")


R.EXTERNALS["monkeytype.stubs:ClassStub:record"] = R.ExtFn(_class_stub_record)


_SCAN = {}


def _replacer_never_mutates_stubs():
    """The record model of ClassStub / AttributeStub inside ReplaceTypedDictsWithStubs is sound only if the class never assigns an attribute of anything
    but `self`, and nothing in the package assigns `attribute_stubs` / `typ` of a stub outside a constructor (checked on the current source on every run)."""
    import os
    key = source.REPO
    if key not in _SCAN:
        bad = []
        mi = source.load("monkeytype.stubs")
        cls = mi.classes.get("ReplaceTypedDictsWithStubs")
        for n in (ast.walk(cls) if cls is not None else ()):
            tgts = n.targets if isinstance(n, ast.Assign) else [n.target] if isinstance(n, (ast.AugAssign, ast.AnnAssign)) else []
            for t_ in tgts:
                for sub in ast.walk(t_):
                    if isinstance(sub, ast.Attribute) and not (isinstance(sub.value, ast.Name) and sub.value.id == "self"):
                        bad.append("stubs.py:%d" % sub.lineno)
        pkg = os.path.join(source.REPO, "monkeytype")
        for root, _, files in os.walk(pkg):
            for f in files:
                if f.endswith(".py"):
                    for fn in ast.walk(ast.parse(open(os.path.join(root, f)).read())):
                        if isinstance(fn, (ast.FunctionDef, ast.AsyncFunctionDef)) and fn.name != "__init__":
                            for n in ast.walk(fn):
                                tg = n.targets if isinstance(n, ast.Assign) else ([n.target] if isinstance(n, (ast.AugAssign, ast.AnnAssign)) else [])
                                bad += ["%s:%d" % (f, n.lineno) for t_ in tg if isinstance(t_, ast.Attribute) and t_.attr in ("attribute_stubs", "typ")]
        _SCAN[key] = bad
    return _SCAN[key]


for _n, _f, _tag in (("fwd_ref", fwd_ref, "Ty"), ("mk_cstub", mk_cstub, "TDStub"), ("mk_attr", mk_attr, "AttrStub")):
    R.SPEC[_n] = SpecFn((lambda f_, tg: lambda ip, a, kw: ZV(f_(*[as_v(v) for v in a]), tg))(_f, _tag), _n)

# the rewrite_<kind> dispatch of GenericTypeRewriter.rewrite for instances of this class
RW.REWRITER_TAGS.add("Replacer")

# tdpos(t): every TypedDict node of t is reachable through the containers the traversal enters (List / Set / Dict / DefaultDict / Tuple / Generator / Union and
# TypedDict fields); under any other node (Iterator, Type, Callable, classes, Any ...) there is none. A hypothesis of the replacement clause (eliminations only):
# get_type / shrink_types never put a TypedDict elsewhere (validated on every inferred type by the bounded tier).
tdpos = declare_pred("tdpos", L.V, L.B)
_TRAV = ("List", "Set", "Dict", "DefaultDict", "Tuple", "TupleVar", "Generator", "Union")
_trav = lambda t_: z3.Or(*[TY.kind(t_) == TY.K[k_] for k_ in _TRAV])
_i = L.const("rpi", L.I)
L.axiom(T, "tdpos-args", L.FA([x, _i], z3.Implies(z3.And(tdpos(x), _trav(x), 0 <= _i, _i < L.len_(TY.args(x))), tdpos(L.nth(TY.args(x), _i))), [(tdpos(x), L.nth(TY.args(x), _i))]))
L.axiom(T, "tdpos-td", L.FA([x, y], z3.Implies(z3.And(tdpos(x), TY.kind(x) == TY.K["TD"]),
                                              z3.And(z3.Implies(L.has(TY.td_req(x), y), tdpos(L.get(TY.td_req(x), y))), z3.Implies(L.has(TY.td_opt(x), y), tdpos(L.get(TY.td_opt(x), y))))),
                            [(tdpos(x), L.get(TY.td_req(x), y)), (tdpos(x), L.get(TY.td_opt(x), y))]))
L.axiom(T, "tdpos-other", L.FA(x, z3.Implies(z3.And(tdpos(x), z3.Not(_trav(x)), TY.kind(x) != TY.K["TD"]), RW.td_okd(x, 0)), [tdpos(x)]))

# td_ne(t): no anonymous TypedDict node of t is empty (C06's lower bound; an empty one makes rewrite_anonymous_TypedDict raise). Implied by td_okd(t, k) for any k.
td_ne = declare_pred("td_ne", L.V, L.B)
L.axiom(T, "tdne-from-okd", L.FA([x, _k], z3.Implies(RW.td_okd(x, _k), td_ne(x)), [RW.td_okd(x, _k)]))
L.axiom(T, "tdne-args", L.FA([x, _i], z3.Implies(z3.And(td_ne(x), TY.has_args(x), 0 <= _i, _i < L.len_(TY.args(x))), td_ne(L.nth(TY.args(x), _i))), [(td_ne(x), L.nth(TY.args(x), _i))]))
L.axiom(T, "tdne-td", L.FA([x, y], z3.Implies(z3.And(td_ne(x), TY.kind(x) == TY.K["TD"]),
                                             z3.And(L.len_(TY.td_req(x)) + L.len_(TY.td_opt(x)) >= 1,
                                                    z3.Implies(L.has(TY.td_req(x), y), td_ne(L.get(TY.td_req(x), y))), z3.Implies(L.has(TY.td_opt(x), y), td_ne(L.get(TY.td_opt(x), y))))),
                           [(td_ne(x), L.get(TY.td_req(x), y)), (td_ne(x), L.get(TY.td_opt(x), y))]))
L.axiom(T, "tdne-td-size", L.FA(x, z3.Implies(z3.And(td_ne(x), TY.kind(x) == TY.K["TD"]), L.len_(TY.td_req(x)) + L.len_(TY.td_opt(x)) >= 1), [td_ne(x)]))

# __args__ is a tuple: one without elements is the empty tuple (what `args == ()` tests)
L.axiom(T, "args-empty-tuple", L.FA(x, z3.Implies(L.len_(TY.args(x)) == 0, TY.args(x) == L.EMPTY_SEQ), [TY.args(x)]))
L.axiom(T, "args-is-a-tuple", L.FA(x, z3.Implies(TY.has_args(x), TY.args(x) != L.NONE), [TY.args(x)]))

# td_okd_fields(d, k): every field type of the field dict d is within the limit (an atomic name for `forall n in d: td_okd(d[n], k)`, so that clauses
# quantified over k have a ground antecedent). Eliminated field-wise; holds of the required / optional fields of a TypedDict node within the limit (tdok-td-fields).
td_okd_fields = declare_pred("td_okd_fields", L.V, L.I, L.B)
L.axiom(T, "tdokf-elim", L.FA([x, y, _k], z3.Implies(z3.And(td_okd_fields(x, _k), L.has(x, y)), RW.td_okd(L.get(x, y), _k)), [(td_okd_fields(x, _k), L.get(x, y))]))
L.axiom(T, "tdokf-of-td", L.FA([x, _k], z3.Implies(z3.And(RW.td_okd(x, _k), TY.kind(x) == TY.K["TD"]), z3.And(td_okd_fields(TY.td_req(x), _k), td_okd_fields(TY.td_opt(x), _k))),
                               [(RW.td_okd(x, _k), TY.td_req(x)), (RW.td_okd(x, _k), TY.td_opt(x))]))

# ---- FunctionDefinition built by from_callable / from_callable_and_traced_types: the read-only record of theories/stubs_th.py with its constructor
from theories import sig as SG
mk_fd = L.fn("mk_fd", L.V, L.V, L.V, L.V, L.B, L.V, L.V)     # FunctionDefinition(module, qualname, kind, signature, is_async, typed_dict_class_stubs)
_fd = lambda a_: L.fn("fd_" + a_, L.V, L.V)
_fa = [L.const("fda%d" % q_) for q_ in range(5)]
_fb = L.const("fdb", L.B)
_app = mk_fd(_fa[0], _fa[1], _fa[2], _fa[3], _fb, _fa[4])
# stated for string module / qualname only: mk_fd is a total function symbol and T-STUBS says every definition's module and qualname are strings
# (unguarded, mk_fd(None, ...) made the axiom set unsatisfiable - found by tools/consistency.py in the thorough tier)
L.axiom(T, "mk-fd", L.FA(_fa + [_fb], z3.Implies(z3.And(L.is_str(_fa[0]), L.is_str(_fa[1])),
                                                 z3.And(_fd("module")(_app) == _fa[0], _fd("qualname")(_app) == _fa[1], _fd("kind")(_app) == _fa[2], _fd("signature")(_app) == _fa[3],
                                                        L.fn("fd_is_async", L.V, L.B)(_app) == _fb, _fd("typed_dict_class_stubs")(_app) == _fa[4], _app != L.NONE)), [_app]))


def _fd_ctor(ip, a, kw, node):
    if kw or len(a) not in (5, 6):
        raise Unsupported("FunctionDefinition(...) arity")
    stubs = a[5] if len(a) == 6 else PySeq([], "list")
    # `typed_dict_class_stubs or []`: an empty list either way
    return ZV(mk_fd(as_v(a[0]), as_v(a[1]), as_v(a[2]), as_v(a[3]), as_bool(a[4]), ip.seq_of(stubs).term), "FunctionDefinition")


R.EXTERNALS["monkeytype.stubs:FunctionDefinition"] = R.ExtFn(_fd_ctor)
kind_has_self = declare_pred("kind_has_self", L.V, L.B)        # kind in FunctionDefinition._KIND_WITH_SELF (CLASS, INSTANCE, PROPERTY, DJANGO_CACHED_PROPERTY)
R.ATTRS[("FunctionDefinition", "has_self")] = lambda ip, r: ZB(kind_has_self(_fd("kind")(r.term)))
sig_of = declare_pred("sig_of", L.V, L.V, tag="Sig")           # inspect.Signature.from_callable(func): a valid signature (for what cannot be inspected it raises: ValueError / TypeError)
is_coro_fn = declare_pred("is_coro_fn", L.V, L.B)              # asyncio.iscoroutinefunction(func)
L.axiom(T, "sig-of-valid", L.FA(x, SG.is_valid_sig(sig_of(x)), [sig_of(x)]))


sig_unavailable = declare_pred("sig_unavailable", L.V, L.B)    # inspect cannot produce a signature (some builtins / extension callables)


def _sig_from_callable(ip, a, kw, node):
    ln = getattr(node, "lineno", 0)
    if ip.branch(sig_unavailable(as_v(a[0])), ln):
        raise RaisedEx(ExcVal("ValueError", exact=False), ln)
    return ZV(sig_of(as_v(a[0])), "Sig")


from pyvc.state import RaisedEx
R.EXTERNALS["inspect.Signature.from_callable"] = R.ExtFn(_sig_from_callable)
R.EXTERNALS["asyncio.iscoroutinefunction"] = R.ExtFn(lambda ip, a, kw, node: ZB(is_coro_fn(as_v(a[0]))))
str_replace = L.fn("str_replace", L.S, L.S, L.S, L.S)          # str.replace(old, new): text, uninterpreted
R.METHODS[("str", "replace")] = lambda ip, r, a, kw, node: ZS(str_replace(as_str(r), as_str(a[0]), as_str(a[1])))

_fo = L.const("rp_fo")
L.axiom(T, "func-names-str", L.FA(_fo, z3.And(L.is_str(L.fn("func_module", L.V, L.V)(_fo)), L.is_str(L.fn("func_qualname", L.V, L.V)(_fo))), [L.fn("func_module", L.V, L.V)(_fo)]))
L.axiom(T, "func-names-str2", L.FA(_fo, z3.And(L.is_str(L.fn("func_module", L.V, L.V)(_fo)), L.is_str(L.fn("func_qualname", L.V, L.V)(_fo))), [L.fn("func_qualname", L.V, L.V)(_fo)]))
# td_okd_fields is *defined* as the field-wise statement: introduction through a Skolem witness (a field outside the limit, if the predicate fails)
_tdokf_w = L.fn("tdokf_witness", L.V, L.I, L.V)
L.axiom(T, "tdokf-intro", L.FA([x, _k], z3.Or(td_okd_fields(x, _k), z3.And(L.has(x, _tdokf_w(x, _k)), z3.Not(RW.td_okd(L.get(x, _tdokf_w(x, _k)), _k)))), [td_okd_fields(x, _k)]))
