"""T-SIG: inspect.Signature / inspect.Parameter as the repo uses them (assumed contract on `inspect`,
validated against the real library by runtime/validate_theories.py)."""
import z3
from pyvc import logic as L
from pyvc import registry as R
from pyvc.values import *
from pyvc.spec import declare_pred, spec

T = "sig"
EMPTY = L.atom("inspect", "_empty")
KINDS = ["POSITIONAL_ONLY", "POSITIONAL_OR_KEYWORD", "VAR_POSITIONAL", "KEYWORD_ONLY", "VAR_KEYWORD"]
KIND = {k: L.atom("kind", k) for k in KINDS}

params_of = declare_pred("params_of", L.V, L.V, tag="Seq[Param]")
ret_of = declare_pred("ret_of", L.V, L.V, tag="Anno")
names_of = declare_pred("names_of", L.V, L.V, tag="Seq[str]")
param_by_name = L.fn("param_by_name", L.V, L.V, L.V)
pname = declare_pred("pname", L.V, L.V, tag="str")
pkind = declare_pred("pkind", L.V, L.V, tag="Kind")
pdefault = declare_pred("pdefault", L.V, L.V, tag="Default")
panno = declare_pred("panno", L.V, L.V, tag="Anno")
kind_rank = declare_pred("kind_rank", L.V, L.I)
is_valid_sig = declare_pred("is_valid_sig", L.V, L.B)
is_param = declare_pred("is_param", L.V, L.B)
param_with_anno = L.fn("param_with_anno", L.V, L.V, L.V)
sig_with_params = L.fn("sig_with_params", L.V, L.V, L.V)
sig_with_ret = L.fn("sig_with_ret", L.V, L.V, L.V)

R.SPEC["EMPTY"] = ZV(EMPTY, "Anno")
for k in KINDS:
    R.SPEC[k] = ZV(KIND[k], "Kind")

declare_always_truthy("Sig", "Param", "Ty", "Kind", "Strategy", "ParamMap")

s, p, a, ps, nm = (L.const(n) for n in ("sg", "pp", "aa", "pps", "nm"))
i, j = L.const("i", L.I), L.const("j", L.I)

L.axiom(T, "names-len", L.FA(s, L.len_(names_of(s)) == L.len_(params_of(s)), [names_of(s)]))
L.axiom(T, "names-nth", L.FA([s, i], z3.Implies(z3.And(0 <= i, i < L.len_(params_of(s))),
                                                  L.nth(names_of(s), i) == pname(L.nth(params_of(s), i))),
                              [L.nth(names_of(s), i)]))
L.axiom(T, "valid-names-distinct", L.FA([s, i, j], z3.Implies(z3.And(is_valid_sig(s), 0 <= i, i < j, j < L.len_(params_of(s))),
                                                                 pname(L.nth(params_of(s), i)) != pname(L.nth(params_of(s), j))),
                                         [(L.nth(params_of(s), i), L.nth(params_of(s), j))]))
L.axiom(T, "by-name", L.FA([s, i], z3.Implies(z3.And(is_valid_sig(s), 0 <= i, i < L.len_(params_of(s))),
                                                param_by_name(s, pname(L.nth(params_of(s), i))) == L.nth(params_of(s), i)),
                            [L.nth(params_of(s), i)]))
L.axiom(T, "valid-kinds-ordered", L.FA([s, i, j], z3.Implies(z3.And(is_valid_sig(s), 0 <= i, i < j, j < L.len_(params_of(s))),
                                                                kind_rank(pkind(L.nth(params_of(s), i))) <= kind_rank(pkind(L.nth(params_of(s), j)))),
                                        [(L.nth(params_of(s), i), L.nth(params_of(s), j))]))
L.axiom(T, "valid-one-var", L.FA([s, i, j], z3.Implies(z3.And(is_valid_sig(s), 0 <= i, i < j, j < L.len_(params_of(s)),
                                                                pkind(L.nth(params_of(s), i)) == pkind(L.nth(params_of(s), j))),
                                                         z3.And(pkind(L.nth(params_of(s), i)) != KIND["VAR_POSITIONAL"],
                                                                pkind(L.nth(params_of(s), i)) != KIND["VAR_KEYWORD"])),
                                  [(L.nth(params_of(s), i), L.nth(params_of(s), j))]))
L.axiom(T, "valid-kinds-enum", L.FA([s, i], z3.Implies(z3.And(is_valid_sig(s), 0 <= i, i < L.len_(params_of(s))),
                                                         z3.Or(*[pkind(L.nth(params_of(s), i)) == KIND[k] for k in KINDS])),
                                     [L.nth(params_of(s), i)]))
for r, k in enumerate(KINDS):
    L.axiom(T, "kind-rank-%s" % k, kind_rank(KIND[k]) == r)
L.axiom(T, "param-replace", L.FA([p, a], z3.And(panno(param_with_anno(p, a)) == a,
                                                 pname(param_with_anno(p, a)) == pname(p),
                                                 pkind(param_with_anno(p, a)) == pkind(p),
                                                 pdefault(param_with_anno(p, a)) == pdefault(p)),
                                  [param_with_anno(p, a)]))
L.axiom(T, "sig-replace-params", L.FA([s, ps], z3.And(params_of(sig_with_params(s, ps)) == ps,
                                                       ret_of(sig_with_params(s, ps)) == ret_of(s)),
                                       [sig_with_params(s, ps)]))
L.axiom(T, "sig-replace-ret", L.FA([s, a], z3.And(params_of(sig_with_ret(s, a)) == params_of(s),
                                                   ret_of(sig_with_ret(s, a)) == a),
                                    [sig_with_ret(s, a)]))

# ---- library names
R.EXTERNALS["inspect.Parameter.empty"] = ZV(EMPTY, "Anno")
R.EXTERNALS["inspect.Signature.empty"] = ZV(EMPTY, "Anno")
for k in KINDS:
    R.EXTERNALS["inspect.Parameter." + k] = ZV(KIND[k], "Kind")

# ---- attributes
R.ATTRS[("Sig", "parameters")] = lambda ip, r: ZV(r.term, "ParamMap")
R.ATTRS[("Sig", "return_annotation")] = lambda ip, r: ZV(ret_of(r.term), "Anno")
R.ATTRS[("Param", "annotation")] = lambda ip, r: ZV(panno(r.term), "Anno")
R.ATTRS[("Param", "name")] = lambda ip, r: ZV(pname(r.term), "str")
R.ATTRS[("Param", "kind")] = lambda ip, r: ZV(pkind(r.term), "Kind")
R.ATTRS[("Param", "default")] = lambda ip, r: ZV(pdefault(r.term), "Default")

# ---- ParamMap (sig.parameters): ordered mapping name -> Parameter
R.METHODS[("ParamMap", "__iter__")] = lambda ip, r, a, k, n: ZV(names_of(r.term), "Seq[str]")
R.METHODS[("ParamMap", "__len__")] = lambda ip, r, a, k, n: ZI(L.len_(params_of(r.term)))
R.METHODS[("ParamMap", "values")] = lambda ip, r, a, k, n: ZV(params_of(r.term), "Seq[Param]")
R.METHODS[("ParamMap", "keys")] = lambda ip, r, a, k, n: ZV(names_of(r.term), "Seq[str]")


def _pm_getitem(ip, r, args, kw, node):
    key = as_v(args[0])
    ip.partial(L.has(names_of(r.term), key), "KeyError", node, "param-name")
    return ZV(param_by_name(r.term, key), "Param")


R.METHODS[("ParamMap", "__getitem__")] = _pm_getitem


def _replace(ip, r, args, kw, node):
    if args:
        raise Unsupported("positional replace()")
    tag = base_tag(r.tag)
    if tag == "Param" and set(kw) == {"annotation"}:
        return ZV(param_with_anno(r.term, as_v(kw["annotation"])), "Param")
    if tag == "Sig" and set(kw) == {"parameters"}:
        return ZV(sig_with_params(r.term, ip.seq_of(kw["parameters"]).term), "Sig")
    if tag == "Sig" and set(kw) == {"return_annotation"}:
        return ZV(sig_with_ret(r.term, as_v(kw["return_annotation"])), "Sig")
    raise Unsupported("replace(%s) on %s" % (sorted(kw), tag))


R.METHODS[("Param", "replace")] = _replace
R.METHODS[("Sig", "replace")] = _replace

# ---- ghost counting functions on a valid signature (kinds are sorted by rank)
npo = declare_pred("npo", L.V, L.I)        # number of positional-only parameters
npos = declare_pred("npos", L.V, L.I)      # number of PO + POK parameters = index of the first *args / kw-only / **kw parameter
_rk = lambda s_, i_: kind_rank(pkind(L.nth(params_of(s_), i_)))
L.axiom(T, "npo-range", L.FA(s, z3.Implies(is_valid_sig(s), z3.And(0 <= npo(s), npo(s) <= npos(s), npos(s) <= L.len_(params_of(s)))), [npo(s)], ))
L.axiom(T, "npos-range", L.FA(s, z3.Implies(is_valid_sig(s), z3.And(0 <= npo(s), npo(s) <= npos(s), npos(s) <= L.len_(params_of(s)))), [npos(s)], ))
L.axiom(T, "npo-def", L.FA([s, i], z3.Implies(z3.And(is_valid_sig(s), 0 <= i, i < L.len_(params_of(s))),
                                                z3.And((i < npo(s)) == (_rk(s, i) == 0), (i < npos(s)) == (_rk(s, i) <= 1))),
                            [L.nth(params_of(s), i)]))
