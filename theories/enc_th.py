"""T-ENC (C08): vocabulary for the encode / decode round trip.

* raw TypedDict layer: `mypy_extensions.TypedDict(name, fields)` as a constructor `named_td` with observers
  (`__name__`/`__qualname__`, `__annotations__`); the anonymous TypedDict TD_(req, opt) of T-TYPES *is* the nested value
  make_typed_dict builds (so make_typed_dict / field_annotations / is_anonymous_typed_dict are verified, not assumed);
* `encodes(d, t)`: the JSON-able dict d is the wire form of the type t (relation, defined by cases on the kind of t -
  written from the format comment at the top of encoding.py and the property statement, not from the encoder's body);
* `teq(t, u)`: structural equality of types (least congruence: only introduction rules, so a proof of teq holds in
  particular in the intended model where teq is structural identity);
* importability: the name-lookup environment (`module_exists`, `has_attr`, `attr_of` of T-CLI) restricted to what the
  property assumes: classes can be looked up by (module, qualname); the `typing` module provides its generics;
* json: loads(dumps(d)) is d up to key order (`jsame`), and `encodes` does not depend on key order.

Everything here is assumed (trusted base) and validated against the real libraries by the bounded tier (runtime/props/c08.py)."""
import z3
from pyvc import logic as L
from pyvc import registry as R
from pyvc.values import *
from pyvc.state import RaisedEx
from pyvc.spec import declare_pred, spec
from theories import types as TY
from theories import cli_th as CLI
from theories import values_th as VT
from theories import path as PATH

T = "enc"
ax = lambda n, e: L.axiom(T, n, e)
kind, args, K = TY.kind, TY.args, TY.K
S = lambda s: L.box_str(z3.StringVal(s))
t, u, d, e, n, f, g, k, sq, sq2, o, a, b, m, q = (L.const("en_" + x) for x in ("t", "u", "d", "e", "n", "f", "g", "k", "sq", "sq2", "o", "a", "b", "m", "q"))
i = L.const("i", L.I)

# ---------------------------------------------------------------- JSON objects are Python dicts
jhas, jget = CLI.jhas, CLI.jget
ax("jhas-has", L.FA([d, k], jhas(d, k) == L.has(d, k), [jhas(d, k)]))
ax("jget-get", L.FA([d, k], jget(d, k) == L.get(d, k), [jget(d, k)]))

# ---------------------------------------------------------------- raw TypedDict classes
named_td = L.fn("named_td", L.V, L.V, L.V)
R.SPEC["named_td"] = SpecFn(lambda ip, a_, kw: ZV(named_td(as_v(a_[0]), as_v(a_[1])), "Ty"), "named_td")
td_name = declare_pred("td_name", L.V, L.V, tag="str")
td_ann = declare_pred("td_ann", L.V, L.V, tag="Dict[str,Ty]")
td_shape = declare_pred("td_shape", L.V, L.B)           # the annotations dict has the shape make_typed_dict builds
sh_req = L.fn("sh_req", L.V, L.V)
sh_opt = L.fn("sh_opt", L.V, L.V)
DUMMY, DREQ, DOPT = S("DUMMY_NAME"), S("REQUIRED_TYPED_DICT_NAME"), S("OPTIONAL_TYPED_DICT_NAME")
KREQ, KOPT = S("required_fields"), S("optional_fields")


def raw_fields(r_, o_):
    return L.dict_set(L.dict_set(L.EMPTY_DICT, KREQ, named_td(DREQ, r_)), KOPT, named_td(DOPT, o_))


# (named_td is a total function symbol: only a string name makes a TypedDict class)
ax("ntd-obs", L.FA([n, f], z3.And(td_name(named_td(n, f)) == n, td_ann(named_td(n, f)) == f, z3.Implies(L.is_str(n), TY.is_tdmeta(named_td(n, f)))), [named_td(n, f)]))
ax("ntd-inv", L.FA(t, z3.Implies(TY.is_tdmeta(t), t == named_td(td_name(t), td_ann(t))), [TY.is_tdmeta(t)]))
ax("td-shape-def", L.FA(f, td_shape(f) == (f == raw_fields(sh_req(f), sh_opt(f))), [td_shape(f)]))
ax("td-shape-intro", L.FA([a, b], td_shape(raw_fields(a, b)), [raw_fields(a, b)]))
# kind TD is *defined* as: a TypedDict class named DUMMY_NAME whose annotations have the make_typed_dict shape
ax("td-kind", L.FA(t, z3.Implies(TY.is_tdmeta(t), (kind(t) == K["TD"]) == z3.And(td_name(t) == DUMMY, td_shape(td_ann(t)))), [TY.is_tdmeta(t)]))
ax("TD-raw", L.FA([a, b], TY.TD_(a, b) == named_td(DUMMY, raw_fields(a, b)), [TY.TD_(a, b)]))
ax("tdmeta-name", L.FA(t, z3.Implies(TY.is_tdmeta(t), z3.And(L.is_str(td_name(t)), TY.cname(t) == td_name(t))), [TY.is_tdmeta(t)]))
ax("inner-names-distinct", z3.And(DREQ != DUMMY, DOPT != DUMMY, KREQ != KOPT))


def _ty_annotations(ip, r):
    ip.partial(TY.is_tdmeta(r.term), "AttributeError", None, "__annotations__")
    return ZV(td_ann(r.term), "Dict[str,Ty]")


cqual = declare_pred("cqual", L.V, L.V, tag="str")      # __qualname__ of a plain class (dotted for nested classes)
ax("cqual-str", L.FA(t, L.is_str(cqual(t)), [cqual(t)]))


def _ty_qualname(ip, r):
    ip.partial(TY.is_class(r.term), "AttributeError", None, "__qualname__")
    return ZV(z3.If(TY.is_tdmeta(r.term), td_name(r.term), cqual(r.term)), "str")


R.ATTRS[("Ty", "__annotations__")] = _ty_annotations
R.ATTRS[("Ty", "__qualname__")] = _ty_qualname

# ---------------------------------------------------------------- typing internals read by name_of_generic / qualname_of_generic
tname = declare_pred("tname", L.V, L.V, tag="Opt[str]")     # getattr(t, "_name", None)
for kk, nm in TY.GENERIC_NAME.items():
    # (Python 3.12: a subscripted Union has `_name` None - or "Optional" for Union[X, None] - ; otherwise its name is found on `__origin__`, the bare typing.Union)
    if kk != "Union":
        ax("tname-" + kk, L.FA(t, z3.Implies(kind(t) == K[kk], tname(t) == S(nm)), [tname(t)]))
ax("tname-Union", L.FA(t, z3.Implies(kind(t) == K["Union"], z3.Or(tname(t) == L.NONE, tname(t) == S("Optional"))), [tname(t)]))   # Optional[X] is named "Optional"
ax("origin-name-union", L.fn("origin_name", L.V, L.V)(TY.UNION_BARE) == S("Union"))
R.ATTRS[("Ty", "_name?")] = lambda ip, r, default: ZV(z3.If(z3.Or(TY.is_galias(r.term), TY.is_special(r.term)), tname(r.term), as_v(default)), "Opt[str]")

# ---------------------------------------------------------------- bare constructors of every generic kind; t == ctor[args]
for _n in ("Type", "Iterator"):
    TY.BARE[_n] = L.atom("typing", _n)
    R.SPEC["BARE_" + _n] = ZV(TY.BARE[_n], "Ty")
for kk, bn in (("Type", "Type"), ("Iterator", "Iterator")):
    ax("ctor-" + kk, L.FA(t, z3.Implies(kind(t) == K[kk], TY.ctor_of(t) == TY.BARE[bn]), [TY.ctor_of(t)]))
ax("sub-Type", L.FA(sq, z3.Implies(L.len_(sq) == 1, TY.subscript(TY.BARE["Type"], sq) == TY.Type_(L.nth(sq, 0))), [TY.subscript(TY.BARE["Type"], sq)]))
ax("sub-Iterator", L.FA(sq, z3.Implies(L.len_(sq) == 1, TY.subscript(TY.BARE["Iterator"], sq) == TY.Iterator_(L.nth(sq, 0))), [TY.subscript(TY.BARE["Iterator"], sq)]))
ax("sub-inv", L.FA(t, z3.Implies(TY.has_args(t), t == TY.subscript(TY.ctor_of(t), args(t))), [TY.ctor_of(t)]))
for _n, _b in TY.BARE.items():
    if _n != "Union":
        ax("bare-special-" + _n, z3.And(TY.is_special(_b), kind(_b) == K["Other"], z3.Not(TY.is_class(_b)), z3.Not(TY.is_tdmeta(_b)), _b != TY.ANY))
ax("bare-union-plain", z3.And(z3.Not(TY.is_class(TY.UNION_BARE)), z3.Not(TY.is_special(TY.UNION_BARE)), z3.Not(TY.is_galias(TY.UNION_BARE)), TY.UNION_BARE != TY.ANY))
ax("callable-bare", L.FA(t, z3.Implies(kind(t) == K["Callable"], t == TY.CALLABLE), [kind(t)]))
ax("any-plain", z3.And(z3.Not(TY.is_special(TY.ANY)), z3.Not(TY.is_galias(TY.ANY)), z3.Not(TY.is_tdmeta(TY.ANY))))

# ---------------------------------------------------------------- structural well-formedness of what the encoder is given
wf_st = declare_pred("wf_st", L.V, L.B)
ENC_KINDS = ["Any", "Class", "List", "Set", "Dict", "DefaultDict", "Tuple", "Type", "Iterator", "Generator", "Callable", "Union", "TD", "NamedTD"]
ax("wf-st-shallow", L.FA(t, z3.Implies(wf_st(t), z3.And(z3.Or(*[kind(t) == K[x] for x in ENC_KINDS]), TY.wf_ty(t), t != L.NONE,
                                                        args(t) != L.mk_tuple([L.EMPTY_SEQ]), args(t) != L.NONE)), [wf_st(t)]))
ax("wf-st-args", L.FA([t, i], z3.Implies(z3.And(wf_st(t), TY.has_args(t), 0 <= i, i < L.len_(args(t))), wf_st(L.nth(args(t), i))), [(wf_st(t), L.nth(args(t), i))]))
ax("wf-st-ann", L.FA([t, k], z3.Implies(z3.And(wf_st(t), TY.is_tdmeta(t), L.has(td_ann(t), k)), z3.And(wf_st(L.get(td_ann(t), k)), L.is_str(k))),
                     [(wf_st(t), L.get(td_ann(t), k))]))
ax("wf-st-ann-dict", L.FA(t, z3.Implies(z3.And(wf_st(t), TY.is_tdmeta(t)), L.is_dictlike(td_ann(t))), [wf_st(t), td_ann(t)]))
ax("wf-st-ann-items", L.FA([t, i], z3.Implies(z3.And(wf_st(t), TY.is_tdmeta(t), 0 <= i, i < L.len_(td_ann(t))),
                                              z3.And(wf_st(L.get(td_ann(t), L.nth(td_ann(t), i))), L.is_str(L.nth(td_ann(t), i)))),
                           [(wf_st(t), L.nth(td_ann(t), i))]))
# nesting depth also through raw annotations (termination measure of the encoder)
ax("depth-ann", L.FA([t, k], z3.Implies(z3.And(TY.is_tdmeta(t), L.has(td_ann(t), k)), VT.depth(L.get(td_ann(t), k)) < VT.depth(t)), [(TY.is_tdmeta(t), L.get(td_ann(t), k))]))

# ---------------------------------------------------------------- the wire format
encodes = declare_pred("encodes", L.V, L.V, L.B)
# opaque / reveal: the definition of `encodes` is instantiated only for pairs (d, t) that a clause marks with reveal_enc(d, t)
# (reveal_enc is identically true; it exists to be a trigger - a recursive definition unfolded eagerly makes z3 diverge)
reveal_enc = declare_pred("reveal_enc", L.V, L.V, L.B)
ax("reveal-true", L.FA([d, t], reveal_enc(d, t), [reveal_enc(d, t)]))
encq = declare_pred("encq", L.V, L.V, tag="str")
_named = lambda x: z3.Or(*[kind(x) == K[kk] for kk in TY.GENERIC_NAME])
ax("encq-def", L.FA(t, encq(t) == z3.If(TY.is_tdmeta(t), td_name(t), z3.If(t == TY.ANY, S("Any"), z3.If(_named(t), TY.gname(t), cqual(t)))), [encq(t)]))
KM, KQ, KE, KT = S("module"), S("qualname"), S("elem_types"), S("is_typed_dict")
_E = lambda dd: L.get(dd, KE)
ax("encodes-def", L.FA([d, t], encodes(d, t) == z3.And(
    L.has(d, KM), L.get(d, KM) == TY.tmodule(t), L.has(d, KQ), L.get(d, KQ) == encq(t),
    z3.If(TY.is_tdmeta(t),
          z3.And(L.has(d, KT), L.truthy(L.get(d, KT)), L.has(d, KE), L.is_dictlike(_E(d)), _E(d) != L.NONE,
                 L.FA(k, L.has(_E(d), k) == L.has(td_ann(t), k), [L.has(_E(d), k), L.has(td_ann(t), k)]),
                 L.FA(k, z3.Implies(L.has(td_ann(t), k), encodes(L.get(_E(d), k), L.get(td_ann(t), k))), [L.get(_E(d), k), L.get(td_ann(t), k)])),
          z3.And(z3.Not(L.has(d, KT)), L.has(d, KE) == TY.has_args(t),
                 z3.Implies(TY.has_args(t), z3.And(L.len_(_E(d)) == L.len_(args(t)), _E(d) != L.NONE,
                                                   L.FA(i, z3.Implies(z3.And(0 <= i, i < L.len_(args(t))), encodes(L.nth(_E(d), i), L.nth(args(t), i))),
                                                        [L.nth(_E(d), i), L.nth(args(t), i)])))))), [(encodes(d, t), reveal_enc(d, t))]))
# arg_types: a JSON object name -> encoded type
encodes_args = declare_pred("encodes_args", L.V, L.V, L.B)
ax("encodes-args-def", L.FA([d, a], encodes_args(d, a) == z3.And(
    L.is_dictlike(d), L.FA(k, L.has(d, k) == L.has(a, k), [L.has(d, k), L.has(a, k)]),
    L.FA(k, z3.Implies(L.has(a, k), encodes(L.get(d, k), L.get(a, k))), [L.get(d, k), L.get(a, k)])), [encodes_args(d, a)]))

# ---------------------------------------------------------------- structural equality (least congruence)
teq = declare_pred("teq", L.V, L.V, L.B)
ax("teq-refl", L.FA(t, teq(t, t), [teq(t, t)]))
_pw = lambda s1, s2: z3.And(L.len_(s1) == L.len_(s2), L.FA(i, z3.Implies(z3.And(0 <= i, i < L.len_(s1)), teq(L.nth(s1, i), L.nth(s2, i))), [L.nth(s2, i)]))
ax("teq-subscript", L.FA([o, sq, sq2], z3.Implies(_pw(sq, sq2), teq(TY.subscript(o, sq), TY.subscript(o, sq2))), [(TY.subscript(o, sq), TY.subscript(o, sq2))]))
_dw = lambda f1, f2: z3.And(L.is_dictlike(f1), L.is_dictlike(f2), L.FA(k, L.has(f1, k) == L.has(f2, k), [L.has(f2, k)]),
                            L.FA(k, z3.Implies(L.has(f1, k), teq(L.get(f1, k), L.get(f2, k))), [L.get(f2, k)]))
ax("teq-td", L.FA([n, f, g], z3.Implies(_dw(f, g), teq(named_td(n, f), named_td(n, g))), [(named_td(n, f), named_td(n, g))]))
teq_args = declare_pred("teq_args", L.V, L.V, L.B)
ax("teq-args-def", L.FA([a, b], teq_args(a, b) == _dw(a, b), [teq_args(a, b)]))

# ---------------------------------------------------------------- the lookup environment: what "importable" means
walk = L.fn("walk", L.V, L.V, L.I, L.V)                 # object reached from o after following the first i names
R.SPEC["walk_"] = SpecFn(lambda ip, a_, kw: ZV(walk(as_v(a_[0]), as_v(a_[1]), as_int(a_[2])), "Obj"), "walk_")
imported = L.fn("imported", L.V, L.V)
R.SPEC["imported_"] = SpecFn(lambda ip, a_, kw: ZV(imported(as_v(a_[0])), "Obj"), "imported_")
R.SPEC["str_split_"] = SpecFn(lambda ip, a_, kw: ZV(PATH.str_split(as_v(a_[0]), as_v(a_[1])), "Seq[str]"), "str_split_")
ax("walk-0", L.FA([o, sq], walk(o, sq, 0) == o, [walk(o, sq, 0)]))
ax("walk-step", L.FA([o, sq, i], z3.Implies(i >= 0, walk(o, sq, i + 1) == CLI.attr_of(walk(o, sq, i), L.nth(sq, i))), [(walk(o, sq, i), CLI.attr_of(walk(o, sq, i), L.nth(sq, i)))]))   # (a trigger on walk(o, sq, i) alone is a matching loop)
resolvable = declare_pred("resolvable", L.V, L.V, L.B)  # importing m succeeds and every name of the dotted path q is found
_parts = lambda qq: PATH.str_split(qq, S("."))
ax("resolvable-def", L.FA([m, q], resolvable(m, q) == z3.And(CLI.module_exists(m),
                                                                L.FA(i, z3.Implies(z3.And(0 <= i, i < L.len_(_parts(q))),
                                                                                   CLI.has_attr(walk(imported(m), _parts(q), i), L.nth(_parts(q), i))),
                                                                     [walk(imported(m), _parts(q), i)])), [resolvable(m, q)]))
lookup_ = declare_pred("lookup_", L.V, L.V, L.V, tag="Obj")
ax("lookup-def", L.FA([m, q], lookup_(m, q) == walk(imported(m), _parts(q), L.len_(_parts(q))), [lookup_(m, q)]))
ax("split-len", L.FA([m, q], L.len_(PATH.str_split(m, q)) >= 1, [PATH.str_split(m, q)]))
# the typing module provides what the encoder names
ax("typing-exists", CLI.module_exists(S("typing")))
_TYPING = dict(TY.BARE)
_TYPING["Any"] = TY.ANY
_TYPING["Callable"] = TY.CALLABLE
for _n, _obj in _TYPING.items():
    ax("typing-" + _n, z3.And(resolvable(S("typing"), S(_n)), lookup_(S("typing"), S(_n)) == _obj))
ax("builtins-ellipsis", z3.And(resolvable(S("builtins"), S("Ellipsis")), lookup_(S("builtins"), S("Ellipsis")) == TY.ELLIPSIS))     # builtins.Ellipsis is the `...` object, not a class
# the three builtin types that cannot be looked up by name
HIDDEN = {"NoneType": TY.NONETYPE, "NotImplementedType": L.atom("cls", "NotImplementedType"), "mappingproxy": L.atom("cls", "mappingproxy")}
importable = declare_pred("importable", L.V, L.B)       # every class mentioned in t can be looked up by (module, qualname) and is itself
_hidden_case = lambda x: z3.And(TY.tmodule(x) == S("builtins"), z3.Or(*[cqual(x) == S(h) for h in HIDDEN]))
ax("importable-class", L.FA(t, z3.Implies(z3.And(importable(t), kind(t) == K["Class"]),
                                          z3.If(_hidden_case(t), z3.And(*[z3.Implies(cqual(t) == S(h), t == HIDDEN[h]) for h in HIDDEN]),
                                                z3.And(resolvable(TY.tmodule(t), cqual(t)), lookup_(TY.tmodule(t), cqual(t)) == t))), [importable(t)]))
ax("importable-args", L.FA([t, i], z3.Implies(z3.And(importable(t), TY.has_args(t), 0 <= i, i < L.len_(args(t))), importable(L.nth(args(t), i))),
                           [(importable(t), L.nth(args(t), i))]))
ax("importable-ann", L.FA([t, k], z3.Implies(z3.And(importable(t), TY.is_tdmeta(t), L.has(td_ann(t), k)), importable(L.get(td_ann(t), k))),
                          [(importable(t), L.get(td_ann(t), k))]))
for _h, _obj in HIDDEN.items():
    ax("hidden-" + _h, z3.And(kind(_obj) == K["Class"], TY.is_class(_obj), z3.Not(TY.is_tdmeta(_obj)), TY.tmodule(_obj) == S("builtins"), cqual(_obj) == S(_h)))

# ---------------------------------------------------------------- json
json_dumps = L.fn("json_dumps", L.V, L.S)
json_loads = L.fn("json_loads", L.S, L.V)
jsame = declare_pred("jsame", L.V, L.V, L.B)


def _json_dumps(ip, a_, kw, node):
    if set(kw) - {"sort_keys"}:
        raise Unsupported("json.dumps keywords %s" % sorted(kw))
    return ZS(json_dumps(as_v(a_[0])))


R.EXTERNALS["json.dumps"] = R.ExtFn(_json_dumps)
R.SPEC["json_dumps_"] = SpecFn(lambda ip, a_, kw: ZS(json_dumps(as_v(a_[0]))), "json_dumps_")
ax("json-roundtrip", L.FA(d, jsame(d, json_loads(json_dumps(d))), [json_dumps(d)]))
ax("jsame-encodes", L.FA([d, e, t], z3.Implies(z3.And(jsame(d, e), encodes(d, t)), encodes(e, t)), [(jsame(d, e), encodes(d, t))]))
ax("jsame-args", L.FA([d, e, a], z3.Implies(z3.And(jsame(d, e), encodes_args(d, a)), encodes_args(e, a)), [(jsame(d, e), encodes_args(d, a))]))
# a JSON document that is an object does not read "null" (maybe_decode_type's sentinel)
ax("dumps-not-null", L.FA(d, json_dumps(d) != z3.StringVal("null"), [json_dumps(d)]))


@spec("forall_ty")
def _forall_ty(ip, a_, kw):
    clo = a_[0]
    names = [x.arg for x in clo.node.args.args]
    vs = [L.fresh(x) for x in names]
    body = as_bool(ip.call_closure(clo, [ZV(v, "Ty") for v in vs]))
    return ZB(z3.ForAll(vs, body))


@spec("exists_ty")
def _exists_ty(ip, a_, kw):
    clo = a_[0]
    names = [x.arg for x in clo.node.args.args]
    vs = [L.fresh(x) for x in names]
    body = as_bool(ip.call_closure(clo, [ZV(v, "Ty") for v in vs]))
    return ZB(z3.Exists(vs, body))

# attributes of the __origin__ object that (qual)name_of_generic falls back to when `_name` is missing (unreachable for named generics)
R.ATTRS[("Origin", "_name?")] = lambda ip, r, default: ZV(L.fn("origin_name", L.V, L.V)(r.term), "Opt[str]")
R.ATTRS[("Origin", "__qualname__")] = lambda ip, r: ZV(L.fn("origin_qualname", L.V, L.V)(r.term), "str")
R.ATTRS[("Origin", "__name__")] = lambda ip, r: ZV(L.fn("origin_qualname", L.V, L.V)(r.term), "str")

# ---------------------------------------------------------------- function values passed by reference (maybe_encode_type / maybe_decode_type)
apply1 = declare_pred("apply1", L.V, L.V, L.V)
R.SPEC["apply1_"] = R.SPEC["apply1"]
fn_raises = declare_pred("fn_raises", L.V, L.V, L.B)
R.SPEC["fn_raises_"] = R.SPEC["fn_raises"]


def _encoder_call(ip, r, a_, kw, node):
    x = as_v(a_[0])
    if ip.branch(fn_raises(r.term, x), getattr(node, "lineno", 0)):
        raise RaisedEx(ExcVal("Exception", exact=False), getattr(node, "lineno", 0))
    return ZV(apply1(r.term, x), "str")


def _decoder_call2(ip, r, a_, kw, node):
    # assumption (listed): a decoder passed to maybe_decode_type raises MonkeyTypeError only (true of type_from_json: proved)
    x = as_v(a_[0])
    if ip.branch(fn_raises(r.term, x), getattr(node, "lineno", 0)):
        raise RaisedEx(ExcVal("MonkeyTypeError", exact=False), getattr(node, "lineno", 0))
    return ZV(apply1(r.term, x), "Ty")


R.METHODS[("Encoder", "__call__")] = _encoder_call
R.METHODS[("Decoder", "__call__")] = _decoder_call2
declare_always_truthy("Encoder")


@spec("dec_of")
def _dec_of(ip, a_, kw):
    """dec_of(d, t): d is the wire form of the structurally well-formed, importable type t (macro; reveal_enc is identically true)."""
    dd, tt = as_v(a_[0]), as_v(a_[1])
    return ZB(z3.And(wf_st(tt), importable(tt), encodes(dd, tt), reveal_enc(dd, tt)))


@spec("args_dec_of")
def _args_dec_of(ip, a_, kw):
    """args_dec_of(d, A): d is the wire form of the argument-type mapping A (name -> well-formed importable type)."""
    dd, aa = as_v(a_[0]), as_v(a_[1])
    kk = L.fresh("k")
    return ZB(z3.And(encodes_args(dd, aa), L.is_dictlike(aa),
                     z3.ForAll([kk], z3.Implies(L.has(aa, kk), z3.And(wf_st(L.get(aa, kk)), importable(L.get(aa, kk)))), patterns=[L.get(aa, kk)])))


@spec("forall_args")
def _forall_args(ip, a_, kw):
    clo = a_[0]
    vs = [L.fresh(x.arg) for x in clo.node.args.args]
    return ZB(z3.ForAll(vs, as_bool(ip.call_closure(clo, [ZV(v, "Dict[str,Ty]") for v in vs]))))


@spec("exists_args")
def _exists_args(ip, a_, kw):
    clo = a_[0]
    vs = [L.fresh(x.arg) for x in clo.node.args.args]
    return ZB(z3.Exists(vs, as_bool(ip.call_closure(clo, [ZV(v, "Dict[str,Ty]") for v in vs]))))


@spec("wf_args_")
def _wf_args(ip, a_, kw):
    """wf_args_(A): A maps names to structurally well-formed types (key-indexed form)."""
    aa = as_v(a_[0])
    kk = L.fresh("k")
    return ZB(z3.And(L.is_dictlike(aa), z3.ForAll([kk], z3.Implies(L.has(aa, kk), wf_st(L.get(aa, kk))), patterns=[L.get(aa, kk)])))

# ---------------------------------------------------------------- functions found by name (get_func_in_module) and what "importable function" means
for _k, _v in CLI.OK.items():
    R.SPEC["OK_" + _k] = ZV(_v, "OKind")
unwrapped = declare_pred("unwrapped", L.V, L.V, tag="Obj")
R.SPEC["unwrapped_"] = R.SPEC["unwrapped"]
for _a in ("__func__", "fget", "fset", "fdel", "func"):
    declare_pred("obj_" + _a, L.V, L.V, tag="Opt[Obj]")
R.SPEC["DJANGO_CP"] = ZV(L.const("django_cached_property"), "Opt[Cls]")
# getattr(obj, "__qualname__", default): the object's own qualified name when it has one (functions do: the same symbol as Func.__qualname__)
has_qualname = declare_pred("has_qualname", L.V, L.B)
_fq = L.fn("func_qualname", L.V, L.V)
R.ATTRS[("Obj", "__qualname__?")] = lambda ip, r, default: ZV(z3.If(has_qualname(r.term), _fq(r.term), as_v(default)), "str")
R.ATTRS[("Obj", "__qualname__")] = lambda ip, r: (ip.partial(has_qualname(r.term), "AttributeError", None, "__qualname__"), ZV(_fq(r.term), "str"))[1]


ax("none-has-no-qualname", z3.Not(has_qualname(L.NONE)))
ax("functions-have-qualname", L.FA(o, z3.Implies(CLI.okind(o) == CLI.OK["function"], z3.And(has_qualname(o), o != L.NONE)), [CLI.okind(o)]))


R.SPEC["func_qualname_"] = SpecFn(lambda ip, a_, kw: ZV(_fq(as_v(a_[0])), "str"), "func_qualname_")
R.SPEC["func_module_"] = SpecFn(lambda ip, a_, kw: ZV(L.fn("func_module", L.V, L.V)(as_v(a_[0])), "str"), "func_module_")


@spec("qualname_or")
def _qualname_or(ip, a_, kw):
    """qualname_or(o, d): getattr(o, '__qualname__', d)."""
    return ZV(z3.If(has_qualname(as_v(a_[0])), _fq(as_v(a_[0])), as_v(a_[1])), "str")


R.TAG_CLASS["Row"] = "monkeytype.encoding:CallTraceRow"
ax("subscript-not-none", L.FA([o, sq], TY.subscript(o, sq) != L.NONE, [TY.subscript(o, sq)]))
ax("none-plain", z3.And(z3.Not(TY.is_galias(L.NONE)), z3.Not(TY.is_class(L.NONE)), z3.Not(TY.is_tdmeta(L.NONE)), L.NONE != TY.ANY, L.NONE != TY.UNION_BARE))
from contracts._texts import _FN_OF, _BAD


@spec("importable_func")
def _importable_func(ip, a_, kw):
    """importable_func(f, m, q): looking up the dotted name q in module m finds f itself, a functools.wraps-style wrapper chain
    around it, a bound / class method whose __func__ it is, a read-only property whose getter it is, or a (django) cached_property of it."""
    ff, mm, qq = as_v(a_[0]), as_v(a_[1]), as_v(a_[2])
    ob = unwrapped(lookup_(mm, qq))
    env = {"o": ZV(ob, "Obj")}
    fn_of = ip.spec_eval(_FN_OF, env)
    bad = ip.spec_eval(_BAD, env)
    f_ = as_v(fn_of)
    own = z3.And(_fq(f_) == qq, L.fn("func_module", L.V, L.V)(f_) == mm, CLI.okind(f_) == CLI.OK["function"])     # a Python function defined under exactly this name
    return ZB(z3.And(resolvable(mm, qq), z3.Not(CLI.unwrap_loops(lookup_(mm, qq))), z3.Not(as_bool(bad)), own, f_ == ff))


R.SPEC["FN_OF_TEXT"] = PyC(_FN_OF)
R.SPEC["BAD_KIND_TEXT"] = PyC(_BAD)

_fo = L.const("en_fo")
ax("func-names-str", L.FA(_fo, z3.And(L.is_str(L.fn("func_module", L.V, L.V)(_fo)), L.is_str(L.fn("func_qualname", L.V, L.V)(_fo))), [L.fn("func_module", L.V, L.V)(_fo)]))
ax("func-names-str2", L.FA(_fo, z3.And(L.is_str(L.fn("func_module", L.V, L.V)(_fo)), L.is_str(L.fn("func_qualname", L.V, L.V)(_fo))), [L.fn("func_qualname", L.V, L.V)(_fo)]))

# ---------------------------------------------------------------- structural equality preserves what the later stages need (assumed: each is a theorem by
# induction over teq, which the solver cannot do; the bounded tier checks mem / well-formedness on decoded types directly)
from theories import values_th as _VT2
from theories import rewriters as _RW2
_v = L.const("en_v")
ax("mem-respects-teq", L.FA([_v, t, u], z3.Implies(z3.And(teq(t, u), _VT2.mem(_v, t)), _VT2.mem(_v, u)), [(teq(t, u), _VT2.mem(_v, t))]))
ax("wf-respects-teq", L.FA([t, u], z3.Implies(z3.And(teq(t, u), _RW2.wf_rw(t), t != TY.ELLIPSIS), z3.And(_RW2.wf_rw(u), u != TY.ELLIPSIS)), [(teq(t, u), _RW2.wf_rw(t))]))
