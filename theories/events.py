"""T-EVENTS: frames, code objects and the sys.setprofile protocol of the installed CPython (3.12),
as the tracer observes them.  The ghost `cause` of the current event is what the property talks about
and the tracer cannot see; the protocol axioms relate it to what the tracer can see (event name, opcode
at f_lasti, arg).  Validated against sys.monitoring ground truth by runtime/props/c02.py (bounded)."""
import z3
from pyvc import logic as L
from pyvc import registry as R
from pyvc.values import *
from pyvc.state import RaisedEx
from pyvc.spec import declare_pred, spec

T = "events"
CAUSES = ["start", "resume", "throw", "yield", "await_suspend", "return", "unwind", "c_call", "c_return", "c_exception", "other"]
CAUSE = {c: L.atom("cause", c) for c in CAUSES}
for c in CAUSES:
    R.SPEC["CAUSE_" + c] = ZV(CAUSE[c], "Cause")

code_of = declare_pred("code_of", L.V, L.V, tag="Code")            # frame.f_code / func.__code__
locals_of = declare_pred("locals_of", L.V, L.V, tag="Dict[str,Val]")
globals_of = declare_pred("globals_of", L.V, L.V, tag="Dict[str,Val]")
lasti = declare_pred("lasti", L.V, L.I)
co_name = declare_pred("co_name", L.V, L.V, tag="str")
co_argcount = declare_pred("co_argcount", L.V, L.I)
co_kwonly = declare_pred("co_kwonly", L.V, L.I)
co_varnames = declare_pred("co_varnames", L.V, L.V, tag="Seq[str]")
opcode_at = declare_pred("opcode_at", L.V, L.I, L.I)               # code.co_code[i]
is_coroutine = declare_pred("is_coroutine", L.V, L.B)             # code.co_flags & CO_COROUTINE
cause = declare_pred("cause", L.V, L.V, tag="Cause")              # ghost: why the current event on this frame fired
started_in_scope = declare_pred("started_in_scope", L.V, L.B)     # ghost: the frame's start event was delivered to this tracer, admitted, sampled in and resolvable
filter_accepts = declare_pred("filter_accepts", L.V, L.V, L.B)
rand_draw = L.fn("rand_draw", L.I, L.I)
RAND_BASE = L.const("rand_base", L.I)
OP = {}


def op(name):
    if name not in OP:
        OP[name] = L.const("op_" + name, L.I)
    return OP[name]


for _n in ("RETURN_VALUE", "RETURN_CONST", "YIELD_VALUE"):
    R.SPEC["OP_" + _n] = ZI(op(_n))
L.axiom(T, "opcodes-distinct", z3.Distinct(op("RETURN_VALUE"), op("RETURN_CONST"), op("YIELD_VALUE")))

f = L.const("fr")
ev = L.const("ev")
_op = lambda fr: opcode_at(code_of(fr), lasti(fr))
L.axiom(T, "cause-enum", L.FA(f, z3.Or(*[cause(f) == CAUSE[c] for c in CAUSES]), [cause(f)]))
L.axiom(T, "cause-return-op", L.FA(f, z3.Implies(cause(f) == CAUSE["return"], z3.Or(_op(f) == op("RETURN_VALUE"), _op(f) == op("RETURN_CONST"))), [cause(f)]))
L.axiom(T, "cause-yield-op", L.FA(f, z3.Implies(cause(f) == CAUSE["yield"], z3.And(_op(f) == op("YIELD_VALUE"), z3.Not(is_coroutine(code_of(f))))), [cause(f)]))
L.axiom(T, "cause-await-op", L.FA(f, z3.Implies(cause(f) == CAUSE["await_suspend"], z3.And(_op(f) == op("YIELD_VALUE"), is_coroutine(code_of(f)))), [cause(f)]))
L.axiom(T, "code-counts", L.FA(f, z3.And(co_argcount(f) >= 0, co_kwonly(f) >= 0, co_argcount(f) + co_kwonly(f) <= L.len_(co_varnames(f))), [co_varnames(f)]))


@spec("event_matches")
def _event_matches(ip, args, kw):
    """Protocol: which event string accompanies which cause."""
    fr, evn = as_v(args[0]), args[1]
    is_call = z3.Or(cause(fr) == CAUSE["start"], cause(fr) == CAUSE["resume"], cause(fr) == CAUSE["throw"])
    is_ret = z3.Or(cause(fr) == CAUSE["yield"], cause(fr) == CAUSE["await_suspend"], cause(fr) == CAUSE["return"], cause(fr) == CAUSE["unwind"])
    e = as_str(evn)
    return ZB(z3.And((e == z3.StringVal("call")) == is_call, (e == z3.StringVal("return")) == is_ret,
                     z3.Implies(cause(fr) == CAUSE["c_call"], e == z3.StringVal("c_call")),
                     z3.Implies(cause(fr) == CAUSE["c_return"], e == z3.StringVal("c_return")),
                     z3.Implies(cause(fr) == CAUSE["c_exception"], e == z3.StringVal("c_exception"))))


@spec("draw")
def _draw(ip, args, kw):
    return ZI(rand_draw(RAND_BASE + as_int(args[0])))


@spec("unchanged")
def _unchanged(ip, args, kw):
    """unchanged('field'): no object's `field` was written."""
    fld = args[0].value
    return ZB(ip.heap_array(fld) == ip.st.heap0.get(fld, ip.heap_array(fld)))


@spec("unchanged_except")
def _unchanged_except(ip, args, kw):
    fld = args[0].value
    cur = ip.heap_array(fld)
    old = ip.st.heap0.get(fld, cur)
    o = as_v(args[1])
    return ZB(cur == z3.Store(old, o, z3.Select(cur, o)))


@spec("dict_set_")
def _dict_set(ip, args, kw):
    return ZV(L.dict_set(as_v(args[0]), as_v(args[1]), as_v(args[2])), getattr(args[0], "tag", None))


@spec("dict_del_")
def _dict_del(ip, args, kw):
    return ZV(L.dict_del(as_v(args[0]), as_v(args[1])), getattr(args[0], "tag", None))


declare_always_truthy("Frame", "Code", "Tracer", "Trace", "Logger", "Func", "Filter")

# ---- attributes the tracer reads
R.ATTRS[("Frame", "f_code")] = lambda ip, r: ZV(code_of(r.term), "Code")
R.ATTRS[("Frame", "f_locals")] = lambda ip, r: ZV(locals_of(r.term), "Dict[str,Val]")
R.ATTRS[("Frame", "f_globals")] = lambda ip, r: ZV(globals_of(r.term), "Dict[str,Val]")
R.ATTRS[("Frame", "f_lasti")] = lambda ip, r: ZI(lasti(r.term))
R.ATTRS[("Frame", "f_back")] = lambda ip, r: ZV(L.fn("f_back", L.V, L.V)(r.term), "Opt[Frame]")
R.ATTRS[("Code", "co_name")] = lambda ip, r: ZV(co_name(r.term), "str")
R.ATTRS[("Code", "co_argcount")] = lambda ip, r: ZI(co_argcount(r.term))
R.ATTRS[("Code", "co_kwonlyargcount")] = lambda ip, r: ZI(co_kwonly(r.term))
R.ATTRS[("Code", "co_varnames")] = lambda ip, r: ZV(co_varnames(r.term), "Seq[str]")
R.ATTRS[("Code", "co_code")] = lambda ip, r: ZV(r.term, "CodeBytes")
R.METHODS[("CodeBytes", "__getitem__")] = lambda ip, r, a, k, n: ZI(opcode_at(r.term, as_int(a[0])))
R.ATTRS[("Func", "__module__")] = lambda ip, r: ZV(L.fn("func_module", L.V, L.V)(r.term), "str")
R.ATTRS[("Func", "__qualname__")] = lambda ip, r: ZV(L.fn("func_qualname", L.V, L.V)(r.term), "str")

# tracer configuration and mutable state (all heap fields: the constructor assigns them)
for _a, _t in (("logger", "Logger"), ("sample_rate", "Opt[int]"), ("should_trace", "Opt[Filter]"), ("max_typed_dict_size", "Opt[int]")):
    R.FIELDS[_a] = ({"Tracer"}, _t)
R.FIELDS["traces"] = ({"Tracer"}, "Dict[Frame,Trace]")
R.FIELDS["cache"] = ({"Tracer"}, "Dict[int,CacheEntry]")      # id(code) -> (code, function or None)


def _cache_entry_item(ip, r, a, kw, node):
    i = a[0]
    if not (isinstance(i, PyC) and i.value in (0, 1)):
        raise Unsupported("cache entry index")
    ip.partial(L.len_(r.term) == 2, "IndexError", node, "cache-entry")
    return ZV(L.nth(r.term, i.value), ("Code", "Opt[Func]")[i.value])


R.METHODS[("CacheEntry", "__getitem__")] = _cache_entry_item
R.FIELDS["func"] = ({"Trace"}, "Func")
R.FIELDS["arg_types"] = ({"Trace"}, "Dict[str,Ty]")
R.FIELDS["return_type"] = ({"Trace"}, "Opt[Ty]")
R.FIELDS["yield_type"] = ({"Trace"}, "Opt[Ty]")
R.TAG_CLASS["Tracer"] = "monkeytype.tracing:CallTracer"
R.TAG_CLASS["Trace"] = "monkeytype.tracing:CallTrace"


def _opmap(ip):
    return ZV(L.atom("opcode", "opmap"), "OpMap")


R.EXTERNALS["opcode.opmap"] = _opmap


def _opmap_get(ip, r, a, k, n):
    key = a[0]
    if not (isinstance(key, PyC) and isinstance(key.value, str)):
        raise Unsupported("opmap with dynamic key")
    return ZI(op(key.value))


R.METHODS[("OpMap", "__getitem__")] = _opmap_get
R.METHODS[("OpMap", "__contains__")] = lambda ip, r, a, k, n: ZB(True)   # the opcodes named in the theory exist on 3.12


def _randrange(ip, a, kw, node):
    n = as_int(a[0])
    ip.partial(n >= 1, "ValueError", node, "randrange")
    k = getattr(ip.st, "rand_idx", 0)
    ip.st.rand_idx = k + 1
    d = rand_draw(RAND_BASE + k)
    ip.st.assume(z3.And(0 <= d, d < n))
    return ZI(d)


def _program_randrange(ip, a, kw, node):
    """The module-level random.randrange draws from the *program's* generator: consuming its state changes what a seeded program computes (C03 / C18)."""
    ip.effect("program-rng", z3.BoolVal(False), node)
    return _randrange(ip, a, kw, node)


R.EXTERNALS["random.randrange"] = R.ExtFn(_program_randrange)


def _filter_call(ip, r, a, kw, node):
    return ZB(filter_accepts(r.term, as_v(a[0])))


R.METHODS[("Filter", "__call__")] = _filter_call


def _log(ip, r, a, kw, node):
    """logger.log(trace): an effect; a user logger may raise any Exception."""
    tr = a[0]
    snap = L.mk_tuple([as_v(PyC("log")), as_v(tr)] + [z3.Select(ip.heap_array(fld), as_v(tr)) for fld in ("func", "arg_types", "return_type", "yield_type")])
    ip.st.log_attempted = True
    if ip.branch(L.fresh("log_raises", L.B), getattr(node, "lineno", 0)):
        raise RaisedEx(ExcVal("Exception", exact=False), getattr(node, "lineno", 0))
    ip.st.effects = L.seq_append(ip.st.effects, snap)
    return PyC(None)


R.METHODS[("Logger", "log")] = _log


@spec("log_attempted")
def _log_attempted(ip, args, kw):
    """The function under contract has handed a trace to logger.log on this path, whether or not the logger then failed (ghost)."""
    return ZB(z3.BoolVal(bool(getattr(ip.st, "log_attempted", False))))


@spec("log_entry")
def _log_entry(ip, args, kw):
    """log_entry(trace, func, arg_types, return_type, yield_type): the effect-trace record of one logger.log call."""
    return ZV(L.mk_tuple([as_v(PyC("log"))] + [as_v(x) for x in args]), "seq")


def _flush(ip, r, a, kw, node):
    # the call is recorded (it happened exactly once) whether or not the user's logger then fails
    ip.st.effects = L.seq_append(ip.st.effects, L.mk_tuple([as_v(PyC("flush")), r.term]))
    if ip.branch(L.fresh("flush_raises", L.B), getattr(node, "lineno", 0)):
        raise RaisedEx(ExcVal("Exception", exact=False), getattr(node, "lineno", 0))
    return PyC(None)


R.METHODS[("Logger", "flush")] = _flush

R.INLINE_CTORS["monkeytype.tracing:CallTrace"] = "Trace"

R.INLINE_CTORS["monkeytype.tracing:CallTracer"] = "Tracer"
L.axiom(T, "cause-unwind-op", L.FA(f, z3.Implies(cause(f) == CAUSE["unwind"], z3.And(_op(f) != op("RETURN_VALUE"), _op(f) != op("RETURN_CONST"))), [cause(f)]))

# ---- the profiler slot of the interpreter (sys.getprofile / sys.setprofile) as a ghost cell
SYS = L.atom("sys", "module")
R.FIELDS["profiler"] = (None, "Opt[Profiler]")


def _getprofile(ip, a, kw, node):
    return ZV(z3.Select(ip.heap_array("profiler"), SYS), "Opt[Profiler]")


def _setprofile(ip, a, kw, node):
    ip.st.heap["profiler"] = z3.Store(ip.heap_array("profiler"), SYS, as_v(a[0]))
    return PyC(None)


R.EXTERNALS["sys.getprofile"] = R.ExtFn(_getprofile)
R.EXTERNALS["sys.setprofile"] = R.ExtFn(_setprofile)


@spec("profiler")
def _profiler(ip, args, kw):
    return ZV(z3.Select(ip.heap_array("profiler"), SYS), "Opt[Profiler]")


@spec("no_fault")
def _no_fault(ip, args, kw):
    """No exception was caught by an `except` clause on this path (ghost)."""
    return ZB(getattr(ip.st, "caught", 0) == 0)


def _code_flags(ip, r):
    return ZV(r.term, "CodeFlags")


R.ATTRS[("Code", "co_flags")] = _code_flags
_flag_set = L.fn("flag_set", L.V, L.V, L.B)       # an unspecified bit test of a code object's flags; only CO_COROUTINE is given a meaning
for _bit in ("CO_COROUTINE", "CO_GENERATOR", "CO_ASYNC_GENERATOR", "CO_ITERABLE_COROUTINE", "CO_VARARGS", "CO_VARKEYWORDS", "CO_NESTED", "CO_OPTIMIZED", "CO_NEWLOCALS"):
    R.EXTERNALS["inspect." + _bit] = ZV(L.atom("inspect", _bit), "FlagBit")


def _flags_and(ip, r, a, k, n):
    b = as_v(a[0])
    if b.eq(L.atom("inspect", "CO_COROUTINE")):
        return ZB(is_coroutine(r.term))
    if isinstance(a[0], ZV) and a[0].tag == "FlagBit":
        return ZB(_flag_set(r.term, b))
    raise Unsupported("flag bit")


R.METHODS[("CodeFlags", "__and__")] = _flags_and

L.axiom(T, "co-name-str", L.FA(f, L.is_str(co_name(f)), [co_name(f)]))

R.add_field({"StoreLogger"}, "traces", "Seq[Trace]", "StoreLogger.traces")
R.add_field({"StoreLogger"}, "store", "Store", "StoreLogger.store")
declare_pred("func_module", L.V, L.V, tag="str")
declare_always_truthy("StoreLogger", "Store")
L.axiom(T, "func-module-str", L.FA(f, L.is_str(L.fn("func_module", L.V, L.V)(f)), [L.fn("func_module", L.V, L.V)(f)]))

# candidates of the function lookup: arbitrary objects with (maybe) __code__ / __wrapped__
callee_code = declare_pred("callee_code", L.V, L.V, tag="Opt[Code]")
declare_always_truthy("Callee")
def _callee_getattr(name, fn_, tag_):
    def h(ip, r, default):
        if not (isinstance(default, PyC) and default.value is None):
            raise Unsupported("getattr default")
        # getattr(x, name, None) runs type(x).__getattribute__ / __getattr__: silent only for genuine function objects
        ip.effect("getattr:" + name, is_plain_function(r.term), None)
        return ZV(fn_(r.term), tag_)
    return h


is_plain_function = declare_pred("is_plain_function", L.V, L.B)
R.ATTRS[("Callee", "__code__?")] = _callee_getattr("__code__", callee_code, "Opt[Code]")
R.ATTRS[("Callee", "__wrapped__?")] = _callee_getattr("__wrapped__", L.fn("callee_wrapped", L.V, L.V), "Opt[Callee]")


def _callee_isinstance(ip, r, a, kw, node):
    c = a[0]
    ip.effect("isinstance", z3.BoolVal(False), node)
    name = c.path if isinstance(c, GlobalRef) else ("django_cached_property" if isinstance(c, ZV) else None)
    if name is None:
        raise Unsupported("isinstance(Callee, %r)" % (c,))
    return ZB(L.fn("callee_is_" + name.replace(".", "_"), L.V, L.B)(r.term))


R.METHODS[("Callee", "__isinstance__")] = _callee_isinstance
for _a in ("__func__", "fget", "fset", "fdel", "func"):
    R.ATTRS[("Callee", _a)] = (lambda a_: lambda ip, r: ZV(L.fn("callee_" + a_, L.V, L.V)(r.term), "Opt[Callee]"))(_a)


def _getattr_static3(ip, a, kw, node):
    if len(a) == 3:
        return ZV(L.fn("static_attr", L.V, L.V, L.V)(as_v(a[0]), as_v(a[1])), "Opt[Callee]")
    h = R.EXTERNALS.get("inspect.getattr_static:2")
    if h:
        return h.f(ip, a, kw, node)
    raise Unsupported("getattr_static/2")


_prev_gas = R.EXTERNALS.get("inspect.getattr_static")
if _prev_gas is not None:
    R.EXTERNALS["inspect.getattr_static:2"] = _prev_gas
R.EXTERNALS["inspect.getattr_static"] = R.ExtFn(_getattr_static3)
R.EXTERNALS["builtins.callable"] = R.ExtFn(lambda ip, a, kw, node: ZB(L.fn("is_callable_py", L.V, L.B)(as_v(a[0]))))
R.METHODS[("Val", "__isinstance__:type")] = None
declare_pred("frames_from", L.V, L.V, tag="Seq[Frame]")   # the frame and its callers (f_back chain), innermost first
prev_locals = declare_pred("prev_locals", L.V, L.V, tag="Seq[Callee]")   # values of f_locals of the frame and of all its callers

# a function object's __code__ is what code_of() denotes on resolved functions (one notion for frames, functions and lookup candidates)
L.axiom(T, "callee-code-is-code-of", L.FA(f, z3.Implies(callee_code(f) != L.NONE, callee_code(f) == code_of(f)), [callee_code(f)]))
L.axiom(T, "code-of-not-none", L.FA(f, code_of(f) != L.NONE, [code_of(f)]))

R.INLINE_CTORS["monkeytype.db.base:CallTraceStoreLogger"] = "StoreLogger"

# the installed profiler may be tested for being a CallTracer and then read like one (an edit of trace_calls doing so stays within reach)
is_call_tracer = declare_pred("is_call_tracer", L.V, L.B)
from theories import types as _TYe
_TYe.ISINSTANCE["monkeytype.tracing:CallTracer"] = lambda ip, o: is_call_tracer(as_v(o))
R.TAG_ALIAS = getattr(R, "TAG_ALIAS", {})
R.TAG_ALIAS["Profiler"] = "Tracer"

# the tracer's private random generator (random.Random()): its draws are the ghost sampling draws; nothing of the program's own random state is touched
declare_always_truthy("Rng")
R.EXTERNALS["random.Random"] = R.ExtFn(lambda ip, a, kw, node: (lambda g: (ip.st.assume(g != L.NONE), ZV(g, "Rng"))[1])(L.fresh("private_rng")))
R.add_field({"Tracer"}, "_random", "Rng", "Tracer._random")
R.METHODS[("Rng", "randrange")] = lambda ip, r, a, kw, node: _randrange(ip, a, kw, node)
