#!/bin/sh
# Offline self-check: the two interpreters the checks need.
set -e
python3-vt -c "import z3; assert z3.get_version_string()"
/venv/bin/python -c "import monkeytype"
mkdir -p evidence replays
echo setup-ok
