#!/bin/sh
# usage: tools/seed_eval2.sh <dir with patch.diff demo.py> <PID...>
# 1) confirms the seeded change in a fresh scratch worktree of /repo: applies, test suite unchanged, demo passes without / fails with the change
# 2) runs the given checks (quick) against a scratch copy of the package with the change applied (./check --repo); /repo itself is never touched
SD=$1; shift
P=$SD/patch.diff
S=$(mktemp -d /tmp/seedXXXXXX)
git -C /repo worktree add -q $S/wt HEAD
cp $SD/demo.py $S/wt/seed_demo.py
echo "== demo on clean tree"; (cd $S/wt && PYTHONPATH=$S/wt timeout 900 /venv/bin/python seed_demo.py >/dev/null 2>&1; echo "exit=$?")
git -C $S/wt apply $P || { echo "PATCH DOES NOT APPLY"; }
echo "== tests with change"; (cd $S/wt && PYTHONPATH=$S/wt timeout 1200 /venv/bin/python -m pytest -q -p no:cacheprovider tests 2>&1 | grep -E "passed|failed" | tail -1)
echo "== demo with change"; (cd $S/wt && PYTHONPATH=$S/wt timeout 900 /venv/bin/python seed_demo.py >/dev/null 2>&1; echo "exit=$?")
rm -f $S/wt/seed_demo.py
for pid in "$@"; do
  echo "== ./check $pid"; (cd /verif && timeout 2400 ./check $pid --tier quick --no-evidence --repo $S/wt 2>&1 | grep -v condarc | grep -E "VIOLATION|NOTE|exit=" | cut -c1-300)
done
git -C /repo worktree remove --force $S/wt; rm -rf $S
