#!/usr/bin/env python3
"""Regenerates /verif/MANIFEST.json from the table below (kept as code so that levels / notes stay next to each other)."""
import json
import os

ROOT = os.path.dirname(os.path.dirname(os.path.abspath(__file__)))
BASELINE = "cd /repo && /venv/bin/python -m pytest -ra -q -p no:cacheprovider --timeout=900 --continue-on-collection-errors"
TECH = "contract-based deductive verification: VCs generated from the real source by pyvc (sidecar contracts), discharged by z3/cvc5"
TRUST = ("pyvc lowering and symbolic executor (semantics assumptions of DESIGN.md section 3.4); z3 / cvc5; the theories of DESIGN.md section 4 "
         "(assumed axioms on typing, inspect, sqlite3, the sys.setprofile protocol, pathlib, importlib, json), each listed in the evidence file; ")

CLAIMS = {
    "C02": ("proof", "6.C02",
            "Per-event contracts of CallTracer.__call__ / handle_call / handle_return / _get_func / add_yield_type over the whole tracer view "
            "(traces map, per-trace fields, logger effect trace) with the ghost cause of each profile event: discharged for all frames, "
            "all argument values and all interleavings of events (each event is one step; the step contracts quantify over the whole view); a finished call's per-call state is dropped "
            "also when the logger fails on it (exc:finished-dropped); the function cache maps id(code) to (code, function) with the function's code identical to the entry's; get_func / get_func_in_mro / _has_code: whatever "
            "the lookup stages return has exactly the frame's code object. "
            "Bounded companion: program templates traced by the real tracer against ground truth from sys.monitoring.",
            TRUST + "T-EVENTS (CPython 3.12 profile protocol: cause/opcode relation) assumed and validated by the bounded tier; get_locals_from_previous_frames assumed; "
            "carve-outs for the recorded known findings (unwind at a yield point, code named trace_types, mid-life pickup of generators); two more findings are bounded-only observations: a lookup that fails once is cached for the "
            "lifetime of the tracer (negative cache), and wrappers produced by one decorator share a code object, so the cache returns the first wrapper's function for all."),
    "C03": ("proof", "6.C03",
            "Containment: CallTracer.__call__ is proved to return self and let no Exception escape, whatever get_type / get_func / logger.log raise; "
            "trace_calls is proved to restore the previous profiler and call flush exactly once on normal and exceptional exit, whatever the with-body did to the profiler slot. "
            "T-EFFECT: in get_type / get_dict_type / handle_call / handle_return / the function lookup every operation on a value of the traced program (or on an element, key or view obtained from one, or on the class "
            "returned by type(v)) that could dispatch to user code - attribute access, isinstance, hashing as a dict key, == / in, truthiness, iteration of non-exact containers - is an obligation that must be silent. "
            "Whole-program equivalence is decided by the bounded tier (tripwire objects, traced vs untraced runs, fault injection).",
            TRUST + "T-EFFECT covers the operations listed (an operation the interpreter does not model makes the function leave reach, never pass silently); recorded known findings (carve-outs): flush() raising, "
            "_has_code reading __code__ / __wrapped__ of arbitrary callables, classes with a metaclass __eq__ / __hash__ compared and hashed as type values."),
    "C04": ("proof", "6.C04",
            "get_type and get_dict_type: mem(obj, result) for every finite acyclic value and every size limit, with termination (decreases size(obj)); "
            "shrink_types and shrink_typed_dict_types (four loop invariants over the required / optional bookkeeping, both the merged-TypedDict and the oversize Dict[str, V] path): "
            "every input type is a subtype (for all values) of the result, for every list of well-formed types; make_typed_dict / field_annotations / is_anonymous_typed_dict against the raw "
            "nested-TypedDict encoding; RewriteAnonymousTypedDictToDict widening; shrink_traced_types. Order/multiplicity independence is decided by the bounded tier "
            "(all permutations / duplications of small multisets of inferred types).",
            TRUST + "T-VALUES / T-TYPES axioms (validated against the real typing module by the bounded tier); order independence bounded; recorded known finding: values at a yield position are joined by a bare Union inside one call "
            "(CallTrace.add_yield_type), so with k > 0 the merged yield type of dict-yielding generators depends on how often the call was seen."),
    "C07": ("proof", "6.C07",
            "Every shipped rewriter method (generic traversal with its 'rewrite_' + name dispatch rebuilt from the AST, RemoveEmptyContainers, RewriteConfigDict, "
            "RewriteLargeUnion, RewriteAnonymousTypedDictToDict, RewriteGenerator, RewriteMostSpecificCommonBase with _compute_bases / _merge_common_bases and the functools.reduce fold, "
            "NoOp, Chained) is proved to raise nothing, to terminate (decreases depth; the base-class walk decreases the height in the class hierarchy) and to widen "
            "(for all values: mem(v, t) implies mem(v, rewrite(t))) for all well-formed types of any depth; RemoveEmptyContainers' trigger clause (dropped only next to a "
            "non-empty same-kind sibling) and RewriteMostSpecificCommonBase's (only unions of classes are replaced) are proved at the top level. Trigger clauses of the other classes are decided by the bounded tier.",
            TRUST + "RemoveEmptyContainers' widening holds only relative to observed values (bounded); class hierarchy axioms (instances of a class are instances of its bases, well-founded); "
            "carve-out: no plain class is named like a handler suffix (known finding)."),
    "C09": ("proof", "6.C09",
            "make_query: the WHERE clause read off the SQL text built on each path denotes exactly module == m and qualname starts-with p (byte-wise), GROUP BY = all selected "
            "columns (distinct rows), LIMIT bound to n; SQLiteStore.add: all serialisation precedes one transaction containing exactly one executemany over the rows of the "
            "serialisable traces in order (rollback and nothing else on failure); filter: one read transaction executing that query, one thunk per row; "
            "list_modules (DISTINCT module column of the table, no WHERE clause); serialize_traces and CallTraceStoreLogger.log/flush. Atomicity/durability under concurrency and crashes follow from this shape only under the assumed ACID contract "
            "of SQLite; the bounded tier exercises real stores (collision alphabet, fault injection, concurrent writers).",
            TRUST + "T-SQL (fragment semantics, LIKE uninterpreted), SQLite ACID behaviour across processes and crash points is assumed, not verified."),
    "C10": ("proof", "6.C10",
            "cli.get_stub loop invariant (decoded traces = exactly the decodable thunks in order; failure count; stderr effect trace: one warning per failure with -v, one summary "
            "line with the count otherwise, nothing when none failed), print/apply handlers ('No traces found' iff nothing decodes; file written only after a successful application), "
            "and the exceptional contract of the decode chain (to_trace, type_from_dict, get_func_in_module, get_name_in_module: MonkeyTypeError only) for every stale kind; what get_func_in_module returns is a Python function "
            "(types.FunctionType after unwrapping decorators / property getters) whose own __module__ / __qualname__ are the row's (post:python-function, post:own-name): a name since bound to a class, a builtin, a partial or another function is stale.",
            TRUST + "T-IMPORT (import either succeeds or raises; any exception of the import or of the attribute walk is turned into NameLookupError by the code, proved), rows produced by the encoder; cli.main / argparse bounded."),
    "C12": ("proof", "6.C12",
            "render_signature: for every valid signature of any length the token list equals the parameters in order with exactly one '/' right after the positional-only ones and "
            "one bare '*' before the first keyword-only parameter unless *args precedes it (loop invariant with ghost counting functions), single-line and wrapped forms are joins "
            "of the same tokens; render_parameter text exact. build_module_stubs (heap proof over ModuleStub / ClassStub objects with freshness and injectivity invariants): one module stub per "
            "module that has a definition; every definition appears - at module level under its bare name, or inside the ClassStub named by its class path - with its own signature, kind and async flag; "
            "nothing else appears, also when several modules define classes / functions of the same names. FunctionStub.render (prefix / decorator line by kind, `async ` exactly for coroutine functions, name, the signature rendered by render_signature, `: ...`) "
            "and FunctionKind.from_callable (classmethod / staticmethod / property / cached_property / instance / module by the static attribute) are proved. Decorator text, async keyword and 'parses as Python' are decided by the bounded tier (ast.parse of real renders).",
            TRUST + "T-SIG; T-STUBS (FunctionStub as an immutable record - checked by an AST scan for field assignments outside constructors); render_annotation text is an uninterpreted function of the type at L1 (C11 bounded); "
            "the render methods of the stub classes are bounded; nested-class rendering is a recorded known finding."),
    "C13": ("proof", "6.C13",
            "The full decision table of update_signature_args (per position, any number of parameters) and update_signature_return, the Optional rule of render_parameter, "
            "and the strategy passed by apply (IGNORE means overwrite): every VC is over enumerations, options and an uninterpreted type sort and is decided.",
            TRUST + "T-SIG (inspect.Parameter/Signature.replace); argparse flag wiring is checked by the bounded tier."),
    "C17": ("proof", "6.C17",
            "default_code_filter against the path specification (synthetic file names, library roots, allow-list relative to the first containing root), _startswith, "
            "filter consulted before anything else in CallTracer.__call__ (rejected code leaves the whole tracer view and the logger untouched), __main__ dropped by the store logger.",
            TRUST + "T-PATH (pathlib), LIB_PATHS module constant and os.environ constant during a run (bounded validation); code named trace_types is a recorded known finding."),
    "C18": ("proof", "6.C18",
            "handle_call with the sampling draw as an explicit ghost input: unsampled call leaves the view unchanged, an entry is created only for this frame, with "
            "arg types = get_type of the values bound at that moment, and only when the draw is 0 (or the rate is unset / 0); trace_calls installs, for the duration of the block, a fresh tracer with exactly the given sampling rate "
            "(and logger, filter, limit) and no per-call state; monkeytype.trace threads Config.sample_rate (default proved None) into it; the draw comes from the tracer's own random.Random (the program's generator is "
            "neither consumed nor able to steer it: effect obligation on the module-level generator); handle_return consults the per-call table before it touches the returned value, so an unsampled call's return value is never inspected.",
            TRUST + "uniformity/independence of random.randrange (statistical half bounded); mid-life pickup of generators is a recorded known finding (carve-out on cause)."),
}

CLAIMS["C08"] = ("proof", "6.C08",
    "Round trip proved from the contracts of the real functions: type_to_dict / typed_dict_to_dict ensure encodes(result, typ) - the wire-format relation, written from the format description, "
    "unfolded only where a clause asks (opaque / reveal) - for every structurally well-formed type of any depth (termination by nesting depth); type_from_dict / typed_dict_from_dict ensure, for every "
    "importable type t that d encodes, a structurally equal result (teq, least congruence) and raise MonkeyTypeError only for what is not such a wire form; the JSON layer, maybe_encode / maybe_decode "
    "(absent stays absent, 'null' never produced for a present type), get_name_in_module (= the lookup function of the environment, loop invariant over the dotted path), get_func_in_module "
    "(method / read-only property / cached_property unwrapping), CallTraceRow.from_trace / to_trace; two lemmas stated in the sidecar and verified like bodies: "
    "type_from_json(type_to_json(t)) is teq to t, and from_trace(tr).to_trace() has the same function, teq argument / return / yield types, absent staying absent, neither raising. "
    "Bounded companion: the same round trips on all inferred types / rewritten forms / generated-package traces, the concrete twin of `encodes`, every T-ENC axiom evaluated on the real typing / "
    "mypy_extensions / json (a failing axiom is a checker defect), 'encoding is a function of structure' (two separately built equal types give the same JSON).",
    TRUST + "T-ENC (raw TypedDict layer, typing internals `_name`, t == ctor[args], json loads/dumps up to key order, `encodes` invariant under key order) assumed and validated by the bounded tier; "
    "importability is the hypothesis the property itself makes; 'function of structure' is bounded only.")

CLAIMS["C05"] = ("exploration", "6.C05",
    "Bounded: lock-step tightness walk of the inferred (merged) type against the multiset of values it was inferred from (every union alternative, exact class, Any, "
    "required / optional key witnessed), over generated value multisets x k. Proved extras (reported under coverage.obligations): get_type returns the exact runtime class "
    "for non-containers and never the bare Any; the literal Any is produced only on the empty-input branch of shrink_types, the empty-dict branch of get_dict_type and the "
    "generator branch of get_type (inventory obligations with path conditions); a top-level TypedDict from get_dict_type has exactly the dict's keys, all required, and is built only when every key is an exact str (a str-subclass key gives Dict[<that class>, V]: post:td-exact-str-keys).",
    TRUST + "the witness oracle `tight` of runtime/props/c05.py (reads 'Any as an alternative' as the element type of an observed empty container); the closure lemma over merges is not proved.")
CLAIMS["C06"] = ("proof", "6.C06",
    "Proved: the deep invariant td_okd(t, k) - every TypedDict node of t, at any depth, has between 1 and k keys, none at all for k <= 0 - holds of the result of get_type / get_dict_type for every value, "
    "is preserved by shrink_types / shrink_typed_dict_types (merging any number of types; oversize merges fall back to Dict[str, V]), by every shipped rewriter, by shrink_traced_types and get_updated_definition; "
    "get_dict_type builds a TypedDict only for a non-empty dict with all-string keys and at most k keys; the configured limit is threaded unchanged from Config (defaults proved) through monkeytype.trace / "
    "trace_calls (the tracer the block runs under carries exactly the given limit) / CallTracer into every get_type call and from cli.get_stub into stub generation. In the generated classes: "
    "ReplaceTypedDictsWithStubs (its own methods and the traversal it inherits, verified against this class's contracts) adds one class stub per TypedDict node with exactly that node's fields, so every "
    "class stub of a FunctionDefinition (from_callable_and_traced_types, get_updated_definition post:class-stubs-size) has between 1 and k fields. Bounded: the same invariant through the JSON round trip and in rendered stub text.",
    TRUST + "the invariant on decoded types follows from the C08 round trip up to structural equality (td_okd respects teq: not proved); class / attribute stubs created by ReplaceTypedDictsWithStubs are modelled as "
    "immutable records (a source scan on every run checks that nothing assigns their fields); assumed for stub generation: no *empty* anonymous TypedDict reaches it from a store (none is ever inferred: proved).")
CLAIMS["C14"] = ("exploration", "6.C14",
    "Bounded: one trace multiset written to real sqlite stores in several orders, with duplicates, split into batches over two connections; `stub` run in fresh interpreters with "
    "different PYTHONHASHSEED, k in {0,3}, default and no rewriter: identical stub up to union-member order. Proved extras: make_query groups by all selected columns (distinct rows) "
    "and SQLiteStore.filter returns exactly the query's rows; cli.get_stub builds the stub from the decoded rows in query order with the configured parameters; FunctionStub.render strips module prefixes in one regex pass whose "
    "alternation is sorted (longest first, ties by text), so the text does not depend on set iteration order; RewriteLargeUnion._rewrite_to_tuple compares element types by equality, not identity.",
    TRUST + "determinism of shrink_types / stub builders over sets is not proved in this round (bounded only); recorded known finding: RewriteLargeUnion picks the common base by walking a set of classes (address order) when several bases tie.")

CLAIMS["C11"] = ("exploration", "6.C11",
    "Bounded (decides the statement): for types over classes spread across modules whose names are dotted / textual suffixes of one another, a class named like its module, nested classes, _io types and anonymous "
    "TypedDicts at every container position, one and two annotations per signature, the stub's import block is executed in an empty namespace, generated classes are registered and every annotation is eval-ed and compared "
    "structurally with the rendered type (argument / return / yield positions). Proved part (reported under coverage.obligations): import completeness - get_imports_for_annotation (recursive, all depths), "
    "get_imports_for_signature, _get_optional_elem, ImportMap.merge, _get_import_for_qualname: every (module, name) pair that the rendering rules say an annotation uses - `uses(t, m, n)`: Any / Optional / Union / generics from typing, "
    "a class by the root of its qualified name from its module, Optional[...] for a None default - is in the import map; the relation `uses` itself is validated against the real renderer by the bounded tier "
    "(each annotation evaluated in a namespace that provides only what uses() lists). TypedDict replacement: ReplaceTypedDictsWithStubs.rewrite_and_get_stubs and the methods behind it (class-specialised contracts for the inherited "
    "traversal) are proved to leave no anonymous TypedDict node in the annotation - each becomes a forward reference, its class stub is added with one attribute per field - for every type whose TypedDicts sit under the containers the "
    "traversal enters (validated on every inferred type by the bounded tier), and to produce annotations within the grammar (wf_ann: forward references as leaves at any depth) that the import-completeness contracts are stated for; "
    "FunctionDefinition.from_callable / from_callable_and_traced_types are proved on top of it. The text of an annotation (repr of typing objects, regex stripping) and the *names* of the generated classes are outside the VC generator and both solvers' string fragments.",
    TRUST + "the denotation of the text is bounded only; class names are an uninterpreted function of the hint (uniqueness is not claimed: recorded finding); assumed and listed: the function's own source annotations are within the annotation grammar, "
    "the function resolves under its module / qualified name, no empty TypedDict comes back from a store; four recorded known findings (same class name from two modules; field types of generated TypedDict classes not imported; generated classes of two functions with the same name; a TypedDict under Iterator[...] - the yield position - is not replaced inside the text: `Iterator[ForwardRef('...')]`, which also falsifies the traversal side condition for yield types).")

CLAIMS["C16"] = ("proof", "6.C16",
    "RemoveImportsTransformer.leave_Import / leave_ImportFrom are proved (nested loop invariants) to remove a name only if the ImportItem it denotes (module, object, alias) is in the move list, "
    "to invent nothing, to leave star imports untouched and to remove a statement iff all its names moved; _remove_typing_module is proved never to confine typing or mypy_extensions items "
    "(what generated code needs at import time). cli._all_import_items (exactly the items of the import statements the gatherer saw, star imports as their own item), get_newly_imported_items "
    "(only stub imports that the source does not already have are handed to the mover: post:source-imports-never-moved / only-stub-imports / complete) and apply_stub_using_libcst (the order of the libcst pipeline: "
    "parse, apply annotations, move only the newly imported items, only with confine_new_imports_in_type_checking_block) are proved; MoveImportsToTypeCheckingBlockVisitor._split_module / _add_if_type_checking_block / "
    "transform_module_impl are proved to keep every statement, insert the TYPE_CHECKING block after the leading __future__ / import statements and add `from __future__ import annotations` whenever something is confined. Bounded companion on real libcst: source shapes (incl. names bound again by later imports, except-branch fallbacks, sources with nothing left to annotate) x stubs, "
    "placement of every import on the AST, first statement, result executed in a fresh namespace.",
    TRUST + "T-CST (libcst node API: names, evaluated_name / evaluated_alias, with_changes, RemoveFromParent; GatherImportsVisitor as the views g_all / g_symbols / ... validated by the bounded tier), "
    "libcst's AddImportsVisitor / ApplyTypeAnnotationsVisitor are uninterpreted pipeline stages at L1 (bounded); recorded known findings: a function-local or TYPE_CHECKING-guarded source import of a stub name is re-added unconfined by libcst (2 shapes); when the stub's name is bound more than once in the source libcst writes `import <module>`, which is not what the stub lists and stays unconfined (3 shapes).")
CLAIMS["C15"] = ("exploration", "6.C15",
    "Bounded stand-in (the substance of C15 is libcst's ApplyTypeAnnotationsVisitor, a dependency of several thousand lines outside any VC generator available here; assuming its contract would assume "
    "the property): run-time contract erase(parse(result)) == erase(parse(source)), existing annotations unchanged unless overwrite, stub annotations present, idempotence, on the real function over "
    "generated sources x traced subsets x overwrite x k x confinement. Proved glue (under C10/C13): overwrite = (strategy is IGNORE), confine = --pep_563, roles of stub / source, the file is written "
    "only after a successful application and with exactly the returned text.",
    TRUST + "bounded only for the transformation itself; recorded known findings: second application re-adds a confined import; a name-mangled parameter (`__x` -> `_C__x`) makes libcst reject the function; a nested-class annotation `Outer.Inner` becomes `from Outer import Inner`.")
CLAIMS["C01"] = ("exploration", "6.C01",
    "Decided end to end by the bounded run (the last stage - the rendered text denotes the type - is bounded, C11): generated module under real tracing, sqlite, `monkeytype stub` for k x rewriter x flag sets, "
    "every annotation eval-ed in the stub's namespace admits every observed value. Proved part (reported under coverage.obligations): the stage contracts this property composes are re-run here "
    "(every contract of C04 / C07 / C08 / C13 plus the glue: shrink_traced_types, get_updated_definition, build_module_stubs[_from_traces], cli.get_stub, monkeytype.trace threading), and the composition itself is a "
    "machine-checked lemma over those contracts, per position and for any number of calls, any size limit and any rewriter: lemma:c01_position (infer per value, merge, rewrite: the result admits every observed value) and "
    "lemma:c01_position_through_store (the same with each per-call type encoded to JSON and decoded in between, nothing raising).",
    TRUST + "as strong as its weakest stage (C11 text half, bounded); the store lemma assumes mem / well-formedness invariant under structural equality (mem-respects-teq, wf-respects-teq: theorems by induction, not proved) "
    "and takes 'inferred types are within the encoder's structural domain' as a hypothesis (checked by the bounded tier of C08 on every inferred type); per-event tracer faithfulness is C02's.")

NA = {
    "C01": "end-to-end composition: the stage contracts it composes are proved under C02/C04/C07/C10/C13; the composition lemma and the text half (C11) are not built yet",
    "C05": "tightness clauses (witness vocabulary) not built yet",
    "C06": "td_ok invariant not built yet (config threading is proved under C10/C02)",
    "C08": "round-trip lemma over ENC/DEC not built yet (decode-chain exceptional contracts are proved under C10)",
    "C11": "import completeness / TypedDict replacement contracts not built yet",
    "C14": "set-of-traces determinism contracts not built yet",
    "C15": "bounded run-time contract around libcst not built yet (glue proved under C10/C13)",
    "C16": "import-confinement contracts not built yet",
}


def main():
    checks = []
    for pid in sorted(CLAIMS):
        cat, ref, text, note = CLAIMS[pid]
        checks.append({
            "property_id": pid,
            "quick_cmd": "./check %s --tier quick" % pid,
            "thorough_cmd": "./check %s --tier thorough" % pid,
            "evidence_file": "evidence/%s.json" % pid,
            "replay_cmd_template": "./check --replay {path}",
            "engine": "pyvc",
            "level_claimed": {"category": cat, "text": text, "design_ref": "DESIGN.md section " + ref},
            "level_note": note,
            "technique": TECH,
        })
    m = {
        "version": 1,
        "setup_cmd": "./setup.sh",
        "hooks": {"guard": "MONKEYTYPE_VERIF", "enable": "no hooks: contracts are sidecars under /verif/contracts; every check re-parses /repo's working tree",
                  "baseline_off_cmd": BASELINE, "source_commits": [], "add_only": True},
        "engines": [{"name": "pyvc", "path": "pyvc/", "serves_properties": sorted(CLAIMS),
                     "kind_free_text": "VC generator over the real Python source (ast -> symbolic execution -> z3/cvc5), sidecar contracts, run-time twin for bounded checks"}],
        "checks": checks,
        "notes": "Exit codes of ./check: 0 held, 1 violation (VIOLATION line), 2 undecided, 3 checker defect. fix: commits in /repo are listed in known_findings.json (fixed).",
        "not_applicable": [{"property_id": k, "reason": v} for k, v in sorted(NA.items()) if k not in CLAIMS],
    }
    with open(os.path.join(ROOT, "MANIFEST.json"), "w") as f:
        json.dump(m, f, indent=1)
    print("manifest: %d checks, %d not applicable" % (len(checks), len(m["not_applicable"])))


if __name__ == "__main__":
    main()
