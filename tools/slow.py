import sys, time; sys.path.insert(0,'/verif')
import multiprocessing as mp
from pyvc.load import load_all; load_all()
from pyvc import registry as R
from pyvc.verify import verify_contract
def run(t): return verify_contract(t)
if __name__ == "__main__":
    ts = sorted(R.CONTRACTS)
    with mp.get_context("fork").Pool(8, maxtasksperchild=1) as pool:
        for r in pool.imap(run, ts):
            for o in r["obligations"]:
                if o["ms"] > 1500 or o["status"] != "discharged" or not o["solver"].startswith("z3-5.1.0"):
                    print(r["target"], o["name"], o["path"], o["status"], o["solver"], o["ms"], flush=True)
            if r["status"] not in ("ok", "assumed"): print(r["target"], r["status"], r["unsupported"], flush=True)
