"""helper for mutation snippets: sub(file, old, new, count=1)"""
def sub(path, old, new, count=1):
    s = open(path).read()
    assert old in s, "pattern not found: %r" % old
    s = s.replace(old, new, count)
    open(path, "w").write(s)
