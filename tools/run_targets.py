import sys; sys.path.insert(0,'/verif')
from pyvc.load import load_all; load_all()
from pyvc import registry as R
from pyvc.verify import verify_contract, summarize
import json
for t in (sys.argv[1:] or sorted(R.CONTRACTS)):
    r = verify_contract(t)
    print(summarize(r))
    for o in r["obligations"]:
        if o["status"] != "discharged": print("   ", o["name"], o["status"], o.get("model") or o.get("reason"), o["ms"])
    if r.get("traceback"): print(r["traceback"])
