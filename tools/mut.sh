#!/bin/sh
# usage: tools/mut.sh 'python-snippet editing files relative to scratch copy' target...
# Applies a mutation to a scratch copy of /repo/monkeytype under $TMPDIR and runs pyvc on the given targets.
set -e
D=$(mktemp -d /tmp/mutXXXXXX)
cp -r /repo/monkeytype "$D/"
SNIP="$1"; shift
(cd "$D" && python3 -c "$SNIP")
PYVC_REPO="$D" timeout 900 python3-vt -u /verif/tools/run_targets.py "$@" 2>&1 | grep -v condarc
rm -rf "$D"
