#!/bin/sh
# usage: tools/mut.sh 'sub("monkeytype/x.py", old, new); ...' target...
# Applies a mutation to a scratch copy of /repo/monkeytype and runs pyvc on the given targets.
set -e
D=$(mktemp -d /tmp/mutXXXXXX)
cp -r /repo/monkeytype "$D/"
SNIP="$1"; shift
(cd "$D" && python3 -c "import sys; sys.path.insert(0,'/verif/tools'); from sub import sub
$SNIP")
PYVC_REPO="$D" timeout 900 python3-vt -u /verif/tools/run_targets.py "$@" 2>&1 | grep -v condarc
rm -rf "$D"
