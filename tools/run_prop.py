import sys, time; sys.path.insert(0,'/verif')
import multiprocessing as mp
from pyvc.load import load_all; load_all()
from pyvc import registry as R
from pyvc.verify import verify_contract, summarize
def run(t): return verify_contract(t)
if __name__ == "__main__":
    pat = sys.argv[1]
    ts = sorted(t for t, c in R.CONTRACTS.items() if pat in t or pat in c.props)
    with mp.get_context("fork").Pool(14, maxtasksperchild=1) as pool:
        for r in pool.imap(run, ts):
            print(summarize(r))
            for o in r["obligations"]:
                if o["status"] != "discharged": print("      ", o["name"], o["path"], o["status"], str(o.get("model") or o.get("reason"))[:200])
