"""Which back end discharged what (obligations not discharged by the z3 API deserve a look: flaky or relying on a stronger instantiation engine)."""
import sys; sys.path.insert(0,'/verif')
import multiprocessing as mp
from pyvc.load import load_all; load_all()
from pyvc import registry as R
from pyvc.verify import verify_contract
from collections import Counter
def run(t): return verify_contract(t, 8000)
if __name__ == "__main__":
    ts = sorted(R.CONTRACTS)
    tot = Counter()
    with mp.get_context("fork").Pool(12, maxtasksperchild=1) as pool:
        for r in pool.imap(run, ts):
            for o in r["obligations"]:
                tot[(o["status"], o["solver"])] += 1
                if o["status"] == "discharged" and not o["solver"].startswith("z3-5.1.0"):
                    print(r["target"], o["name"], o["path"], o["solver"], o["ms"])
    print(tot)
