"""Vacuity guard for the theories: try hard to derive False from every axiom set a contract uses
(several seeds, long timeout).  `unsat` = inconsistent axioms = checker defect."""
import sys, time, itertools
sys.path.insert(0, '/verif')
from pyvc.load import load_all; load_all()
from pyvc import logic as L, registry as R
import z3
T = int(sys.argv[1]) if len(sys.argv) > 1 else 60
PID = sys.argv[2] if len(sys.argv) > 2 else None
combos = sorted({tuple(sorted(set(c.theories) | {"core"})) for c in R.CONTRACTS.values() if PID is None or PID in c.props})
if PID is None:
    combos.append(tuple(L.all_theories()))
bad = 0
for combo in combos:
    axs = L.axioms_of(set(combo)) + L.distinctness_axioms()
    for seed in ((0, 1, 2) if PID is None else (0, 1)):
        s = z3.Solver(); s.set("timeout", T * 1000); s.set("random_seed", seed); s.set(unsat_core=True)
        for k, (n, a) in enumerate(axs):
            s.assert_and_track(a, z3.Bool("ax_%d" % k))
        t = time.time(); r = s.check()
        print(combo, "seed", seed, r, round(time.time() - t, 1), flush=True)
        if r == z3.unsat:
            bad += 1
            print("  UNSAT CORE:", [axs[int(str(c)[3:])][0] for c in s.unsat_core()], flush=True)
            break
sys.exit(3 if bad else 0)
