"""Vacuity guard for the theories: try hard to derive False from every axiom set a contract uses.
`unsat` = inconsistent axioms = checker defect (exit 3).

Three attacks per theory combination:
  1. z3, several seeds, axioms only (as before);
  2. z3 with *seed terms*: every declared function symbol applied to a small pool of constants / containers (with duplicates) up to depth 2,
     so that E-matching has ground material for every trigger (finds 'total function symbol' traps such as dict_del on a sequence with duplicates);
  3. cvc5 (enumerative instantiation) on the same two problems.
usage: consistency.py <seconds> [PID|-] [stride]"""
import itertools
import os
import subprocess
import sys
import tempfile
import time
sys.path.insert(0, '/verif')
from pyvc.load import load_all; load_all()
from pyvc import logic as L, registry as R
import z3
T = int(sys.argv[1]) if len(sys.argv) > 1 else 60
PID = sys.argv[2] if len(sys.argv) > 2 and sys.argv[2] != "-" else None
STRIDE = int(sys.argv[3]) if len(sys.argv) > 3 else 1       # every STRIDE-th seed batch (the thorough tier of a single property samples; the full tool run does all)
combos = sorted({tuple(sorted(set(c.theories) | {"core"})) for c in R.CONTRACTS.values() if PID is None or PID in c.props})
if PID is None:
    combos.append(tuple(L.all_theories()))


def seed_batches(per_fn=150, batch=250):
    """Ground seed terms, in batches small enough for E-matching to finish: for every declared function symbol f with a V result, f applied to a small
    pool of constants / containers (incl. a sequence with a duplicate), and the core observers (len, nth, has, get, is_dictlike) on that term."""
    V, I, B, S = L.V, L.I, L.B, L.S
    c = [z3.Const("seedc%d" % k, V) for k in range(3)]
    pool = {V: c[:2] + [L.mk_tuple([c[0], c[0]]), L.mk_tuple([c[0], c[1]]), L.NONE, L.EMPTY_SEQ, L.EMPTY_DICT, L.box_str(z3.StringVal("a"))],
            I: [z3.IntVal(0), z3.IntVal(1)], B: [z3.BoolVal(True)], S: [z3.StringVal("a")]}
    seen = {V: z3.Function("seed_seen_v", V, B), I: z3.Function("seed_seen_i", I, B), B: z3.Function("seed_seen_b", B, B), S: z3.Function("seed_seen_s", S, B)}
    groups = []
    for f in list(L._FUNCS.values()):
        doms = [f.domain(k) for k in range(f.arity())]
        if any(d not in pool for d in doms) or f.range() not in seen:
            continue
        n = 0
        for args in itertools.product(*[pool[d] for d in doms]):
            t = f(*args)
            g = [seen[t.sort()](t)]
            if t.sort() == V:
                g += [seen[V](L.nth(t, z3.IntVal(0))), seen[V](L.nth(t, z3.IntVal(1))), seen[B](L.has(t, c[0])), seen[I](L.len_(t)), seen[V](L.get(t, c[0])), seen[B](L.is_dictlike(t))]
            groups.append(g)
            n += 1
            if n >= per_fn:
                break
    out, cur = [], []
    for g in groups:
        cur += g
        if len(cur) >= batch:
            out.append(cur)
            cur = []
    if cur:
        out.append(cur)
    return out


def run_cvc5(assertions, seconds):
    s = z3.Solver()
    for a in assertions:
        s.add(a)
    fd, path = tempfile.mkstemp(suffix=".smt2", prefix="cons_")
    try:
        with os.fdopen(fd, "w") as f:
            f.write(s.to_smt2())
        p = subprocess.run(["/usr/bin/cvc5", "--tlimit=%d" % (seconds * 1000), "--strings-exp", "--lang=smt2", path], capture_output=True, text=True)
        out = (p.stdout or "").strip().splitlines()
        return out[0] if out else "unknown"
    finally:
        os.remove(path)


bad = 0
BATCHES = seed_batches()
print("seed batches:", len(BATCHES), "terms:", sum(len(b_) for b_ in BATCHES), flush=True)
for combo in combos:
    axs = L.axioms_of(set(combo)) + L.distinctness_axioms()
    for seed in ((0, 1, 2) if PID is None else (0, 1)):
        s = z3.Solver(); s.set("timeout", T * 1000); s.set("random_seed", seed); s.set(unsat_core=True)
        for k, (n, a) in enumerate(axs):
            s.assert_and_track(a, z3.Bool("ax_%d" % k))
        t = time.time(); r = s.check()
        print(combo, "plain z3 seed", seed, r, round(time.time() - t, 1), flush=True)
        if r == z3.unsat:
            bad += 1
            print("  UNSAT CORE:", [axs[int(str(c)[3:])][0] for c in s.unsat_core()], flush=True)
            break
    t = time.time()
    r = run_cvc5([a for _, a in axs], max(10, T // 2))
    print(combo, "plain cvc5", r, round(time.time() - t, 1), flush=True)
    if r == "unsat":
        bad += 1
        print("  UNSAT CORE: (cvc5 reports the axiom set unsatisfiable)", flush=True)
    # seeded: one solver with the axioms, push / pop per batch
    s = z3.Solver(); s.set("timeout", 3000); s.set(unsat_core=True)
    for k, (n, a) in enumerate(axs):
        s.assert_and_track(a, z3.Bool("ax_%d" % k))
    t = time.time()
    hits = 0
    for bi, bt in enumerate(BATCHES):
        if bi % STRIDE:
            continue
        s.push()
        for e in bt:
            s.add(e)
        r = s.check()
        if r == z3.unsat:
            hits += 1
            bad += 1
            print(combo, "seeded batch", bi, "UNSAT CORE:", [axs[int(str(c)[3:])][0] for c in s.unsat_core() if str(c).startswith("ax_")], flush=True)
        s.pop()
        if hits >= 3:
            break
    print(combo, "seeded z3: %d batches, %d unsat" % (len(BATCHES), hits), round(time.time() - t, 1), flush=True)
sys.exit(3 if bad else 0)
