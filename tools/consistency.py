"""Find an inconsistent axiom subset via z3 unsat cores (the vacuity guard says `unsat`)."""
import sys; sys.path.insert(0, '/verif')
from pyvc.load import load_all; load_all()
from pyvc import logic as L
import z3
axs = L.axioms_of(set(L.all_theories())) + L.distinctness_axioms()
s = z3.Solver(); s.set("timeout", 20000); s.set(unsat_core=True)
for k, (n, a) in enumerate(axs):
    s.assert_and_track(a, z3.Bool("ax_%d" % k))
r = s.check()
print("all:", r, len(axs))
if r == z3.unsat:
    core = [int(str(c)[3:]) for c in s.unsat_core()]
    print("unsat core:", [axs[k][0] for k in core])
