#!/bin/sh
# usage: tools/seed_eval.sh <agent worktree> <n> <PID...>
# 1) confirms the seeded change in a fresh scratch worktree: applies, test suite still green (bar the pre-existing failure), demo fails with / passes without
# 2) applies it to /repo, runs the given checks (quick), undoes it straight afterwards
WT=$1; N=$2; shift 2
P=$WT/seeded/$N/patch.diff
S=$(mktemp -d /tmp/seedXXXXXX)
git -C /repo worktree add -q $S/wt HEAD
mkdir -p $S/wt/seeded/$N && cp $WT/seeded/$N/demo.py $S/wt/seeded/$N/
echo "== demo on clean tree"; (cd $S/wt && PYTHONPATH=$S/wt timeout 600 /venv/bin/python seeded/$N/demo.py >/dev/null 2>&1; echo "exit=$?")
git -C $S/wt apply $P || { echo "PATCH DOES NOT APPLY"; }
echo "== tests with change"; (cd $S/wt && PYTHONPATH=$S/wt timeout 900 /venv/bin/python -m pytest -q -p no:cacheprovider tests 2>&1 | grep -E "passed|failed" | tail -1)
echo "== demo with change"; (cd $S/wt && PYTHONPATH=$S/wt timeout 600 /venv/bin/python seeded/$N/demo.py >/dev/null 2>&1; echo "exit=$?")
git -C /repo worktree remove --force $S/wt; rm -rf $S
git -C /repo apply $P
for pid in "$@"; do
  echo "== ./check $pid"; (cd /verif && timeout 1500 ./check $pid --tier quick --no-evidence 2>&1 | grep -v condarc | grep -E "VIOLATION|NOTE|exit=" | cut -c1-260)
done
git -C /repo checkout -- .
git -C /repo status --short | head -3
