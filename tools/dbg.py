"""Debug one target: list non-discharged obligations with their path decisions and branch lines."""
import sys; sys.path.insert(0,'/verif')
from pyvc.load import load_all; load_all()
from pyvc import registry as R
from pyvc.interp import Interp
from pyvc.verify import solve_one
t = sys.argv[1]
timeout = int(sys.argv[2]) if len(sys.argv) > 2 else 8000
only = sys.argv[3] if len(sys.argv) > 3 else None
c = R.CONTRACTS[t]
ip = Interp(c, timeout)
obs = ip.run()
print("paths", ip.paths, "obligations", len(obs))
for ob in obs:
    if only and only not in ob.name: continue
    r = solve_one(ip, ob, timeout, False)
    if r["status"] != "discharged" or only:
        print(r["status"], ob.name, "line", ob.line, "path", r["path"], r["ms"], "ms")
        if "-v" in sys.argv:
            for h in ob.hyps: print("    H:", str(h)[:300])
            print("    G:", str(ob.goal)[:600])
