#!/usr/bin/env python3
"""usage: seed_import.py <agent worktree> <n> <seed id> <property> <caught-by> <needs...>"""
import json, os, shutil, sys
wt, n, sid, prop, caught = sys.argv[1:6]
needs = " ".join(sys.argv[6:])
dst = os.path.join("/verif/seeded", sid)
os.makedirs(dst, exist_ok=True)
for f in ("patch.diff", "demo.py", "notes.md"):
    shutil.copy(os.path.join(wt, "seeded", n, f), os.path.join(dst, f))
meta = {"id": sid, "property": prop, "needs_to_manifest": needs, "caught_by": caught,
        "confirmed": "tools/seed_eval.sh: patch applies to HEAD of /repo in a scratch worktree; full test suite unchanged (370 passed, 1 pre-existing failure); "
                     "demo.py exits 0 without and 1 with the change; then applied to /repo, ./check %s --tier quick run, and reverted (git checkout -- .)" % prop,
        "origin": "independent sub-agent given only the property text and a scratch worktree"}
json.dump(meta, open(os.path.join(dst, "meta.json"), "w"), indent=1)
print("imported", sid)
