"""Sidecar contracts for the encode side of monkeytype/encoding.py and the raw TypedDict helpers of typing.py / compat.py (C08)."""
from pyvc.registry import contract

TH = ["cli", "types", "values", "events", "enc", "path"]

_NAMED = "(" + " or ".join("kind(typ) is K_%s" % k for k in ("List", "Set", "Dict", "DefaultDict", "Tuple", "TupleVar", "Type", "Iterator", "Generator", "Callable", "Union")) + ")"
contract("monkeytype.compat:qualname_of_generic", props=["C08"], theories=TH,
         params={"typ": "Ty"}, result="str",
         requires={"named-generic": _NAMED},
         # (a two-member union with None is *named* "Optional" by typing; every caller tests is_union first or only compares with a container name)
         ensures={"post:def": "implies(kind(typ) is not K_Union, result is gname(typ))",
                  "post:union": "implies(kind(typ) is K_Union, result == 'Union' or result == 'Optional')"},
         note="typing generics carry their name in `_name` (T-ENC tname axioms, validated by the bounded tier)")

contract("monkeytype.encoding:typed_dict_to_dict", props=["C08"], theories=TH, scc="encode", decreases=["depth(typ)", "0"],
         params={"typ": "Ty"}, result="JDict",
         requires={"wf": "wf_st(typ)", "td": "is_tdmeta(typ)"},
         hints={"reveal": "reveal_enc(result, typ)"},
         ensures={"post:encodes": "encodes(result, typ)"},
         loops={0: {"iter": "typ.__annotations__.items()",
                    "inv": {"dictlike": "is_dictlike_(elem_types) and elem_types is not None",
                            "keys": "forall_v(lambda key: has(elem_types, key) == exists(range_(0, _i), lambda q: nth(td_ann(typ), q) is key))",
                            "enc": "forall(range_(0, _i), lambda q: encodes(lookup(elem_types, nth(td_ann(typ), q)), lookup(td_ann(typ), nth(td_ann(typ), q))))"}},
                "tags": {"elem_types": "Dict[str,JDict]"}})

contract("monkeytype.encoding:type_to_dict", props=["C08"], theories=TH, scc="encode", decreases=["depth(typ)", "1"],
         params={"typ": "Ty"}, result="JDict",
         requires={"wf": "wf_st(typ)"},
         # C08: the dict is the wire form of the type - module, qualified name, element types in order, TypedDict fields by key
         hints={"reveal": "reveal_enc(result, typ)"},
         ensures={"post:encodes": "encodes(result, typ)"})

contract("monkeytype.encoding:type_to_json", props=["C08"], theories=TH,
         params={"typ": "Ty"}, result="strp",
         requires={"wf": "wf_st(typ)"},
         ensures={"post:decodable": "encodes(json_loads_(result), typ)", "post:not-null": "result != 'null'"})

_WFARGS = "is_dictlike_({a}) and forall({a}, lambda n: wf_st(lookup({a}, n)))"
contract("monkeytype.encoding:arg_types_to_json", props=["C08"], theories=TH,
         params={"arg_types": "Dict[str,Ty]"}, result="strp",
         requires={"wf": _WFARGS.format(a="arg_types")},
         hints={"enc-args": "encodes_args(L_type_dict, arg_types)"},
         ensures={"post:decodable": "encodes_args(json_loads_(result), arg_types)"})

contract("monkeytype.encoding:maybe_encode_type", props=["C08"], theories=TH,
         params={"encode": "Encoder", "typ": "Opt[Ty]"}, result="Opt[str]",
         # an absent type stays absent (None), a present one is whatever the encoder makes of it
         ensures={"post:absent": "implies(typ is None, result is None)",
                  "post:present": "implies(typ is not None, result is apply1_(encode, typ) and not fn_raises_(encode, typ))"},
         raises={"Exception": "typ is not None and fn_raises_(encode, typ)"})

# ---------------------------------------------------------------- C08 round-trip lemmas: compositions of the proved contracts (stated here, verified like a body)
contract("lemma:type_roundtrip", props=["C08"], theories=TH,
         lemma=("monkeytype.encoding", "def lemma_type_roundtrip(t):\n    return type_from_json(type_to_json(t))\n"),
         params={"t": "Ty"}, result="Ty",
         requires={"wf": "wf_st(t)", "importable": "importable(t)"},
         # every structurally well-formed type over importable classes encodes to JSON and decodes back to a structurally equal type, without error
         ensures={"post:roundtrip": "teq(t, result)", "post:not-none": "result is not None"})

_WFT2 = ("wf_args_(trace.arg_types) and forall_v(lambda n: implies(has(trace.arg_types, n), importable(lookup(trace.arg_types, n))))"
         " and forall(trace.arg_types, lambda n: wf_st(lookup(trace.arg_types, n)))"
         " and (trace.return_type is None or (wf_st(trace.return_type) and importable(trace.return_type)))"
         " and (trace.yield_type is None or (wf_st(trace.yield_type) and importable(trace.yield_type)))")
contract("lemma:trace_roundtrip", props=["C08"], theories=TH + ["sql"], pure=False, uses=["monkeytype.util:get_func_in_module"],
         lemma=("monkeytype.encoding", "def lemma_trace_roundtrip(trace):\n    return CallTraceRow.from_trace(trace).to_trace()\n"),
         params={"trace": "Trace"}, result="Trace",
         requires={"wf": _WFT2,
                   "function": "importable_func(trace.func, trace.func.__module__, trace.func.__qualname__)"},
         # every call trace of an importable function decodes back to the same function, structurally equal argument / return / yield
         # types, an absent return or yield staying absent (and a present one present), without error
         ensures={"post:func": "result.func is old(trace.func)",
                  "post:args": "teq_args(old(trace.arg_types), result.arg_types)",
                  "post:return": "ite(old(trace.return_type) is None, result.return_type is None, result.return_type is not None and teq(old(trace.return_type), result.return_type))",
                  "post:yield": "ite(old(trace.yield_type) is None, result.yield_type is None, result.yield_type is not None and teq(old(trace.yield_type), result.yield_type))"})
