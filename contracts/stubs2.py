"""Sidecar contracts for the stub builders of monkeytype/stubs.py (C01, C14, C11, C12)."""
from pyvc.registry import contract

TH = ["types", "values", "events", "sig"]
_COVER_ARG = "forall(traces, lambda t: forall(t.arg_types, lambda n: has({at}, n) and {inner}))"
contract("monkeytype.stubs:shrink_traced_types", props=["C01", "C04", "C14"], theories=TH,
         params={"traces": "Seq[Trace]", "max_typed_dict_size": "Opt[int]"}, result="raw",
         requires={"k-int": "max_typed_dict_size is not None", "types-wf": "forall(traces, lambda t: t is not None and is_dictlike_(t.arg_types) and forall(t.arg_types, lambda n: wf_rw(lookup(t.arg_types, n)) and lookup(t.arg_types, n) is not ELLIPSIS_ and lookup(t.arg_types, n) is not None)"
                               " and implies(t.return_type is not None, wf_rw(t.return_type) and t.return_type is not ELLIPSIS_)"
                               " and implies(t.yield_type is not None, wf_rw(t.yield_type) and t.yield_type is not ELLIPSIS_))"},
         ensures={
             # C01 glue: the merged type of every position is a supertype of the type every trace recorded there
             "post:args-cover": "forall(traces, lambda t: forall(t.arg_types, lambda n: has(result[0], n)"
                                " and forall_val(lambda v: implies(mem(v, lookup(t.arg_types, n)), mem(v, lookup(result[0], n))))))",
             "post:return-cover": "forall(traces, lambda t: implies(t.return_type is not None, result[1] is not None and forall_val(lambda v: implies(mem(v, t.return_type), mem(v, result[1])))))",
             "post:yield-cover": "forall(traces, lambda t: implies(t.yield_type is not None, result[2] is not None and forall_val(lambda v: implies(mem(v, t.yield_type), mem(v, result[2])))))",
             # never invented: absent iff no trace has one; no argument name that no trace has
             "post:return-absent": "implies(forall(traces, lambda t: t.return_type is None), result[1] is None)",
             "post:yield-absent": "implies(forall(traces, lambda t: t.yield_type is None), result[2] is None)",
             "post:args-only-traced": "forall(result[0], lambda n: exists(traces, lambda t: has(t.arg_types, n)))",
             # C06: merging the traces of a function keeps every TypedDict node within the limit
             "post:td-size-deep": "implies(forall(traces, lambda t: forall(t.arg_types, lambda n: td_okd(lookup(t.arg_types, n), max_typed_dict_size)) and implies(t.return_type is not None, td_okd(t.return_type, max_typed_dict_size)) and implies(t.yield_type is not None, td_okd(t.yield_type, max_typed_dict_size))), forall(result[0], lambda n: td_okd(lookup(result[0], n), max_typed_dict_size))"
                                  " and implies(result[1] is not None, td_okd(result[1], max_typed_dict_size)) and implies(result[2] is not None, td_okd(result[2], max_typed_dict_size)))",
             "post:wf": "forall(result[0], lambda n: wf_rw(lookup(result[0], n)) and lookup(result[0], n) is not ELLIPSIS_) and is_dictlike_(result[0])"
                        " and implies(result[1] is not None, wf_rw(result[1]) and result[1] is not ELLIPSIS_) and implies(result[2] is not None, wf_rw(result[2]) and result[2] is not ELLIPSIS_)",
         },
         hints={"ret-witness": "implies(len(L_return_types) > 0, has(L_return_types, nth(L_return_types, 0)))",
                "yld-witness": "implies(len(L_yield_types) > 0, has(L_yield_types, nth(L_yield_types, 0)))"},
         loops={0: {"iter": "traces",
                    "inv": {"args": "forall(range_(0, _i), lambda j: forall(nth(traces, j).arg_types, lambda n: has(arg_types, n) and has(lookup(arg_types, n), lookup(nth(traces, j).arg_types, n))))",
                            "args-from": "forall(arg_types, lambda n: exists(range_(0, _i), lambda j: has(nth(traces, j).arg_types, n)) and forall(lookup(arg_types, n), lambda ty: wf_rw(ty) and ty is not ELLIPSIS_ and ty is not None) and len(lookup(arg_types, n)) >= 1 and is_dictlike_(lookup(arg_types, n)))",
                            "sets": "is_dictlike_(return_types) and is_dictlike_(yield_types)",
                            "td": "implies(forall(traces, lambda t: forall(t.arg_types, lambda n: td_okd(lookup(t.arg_types, n), max_typed_dict_size)) and implies(t.return_type is not None, td_okd(t.return_type, max_typed_dict_size)) and implies(t.yield_type is not None, td_okd(t.yield_type, max_typed_dict_size))), forall(arg_types, lambda n: forall(lookup(arg_types, n), lambda ty: td_okd(ty, max_typed_dict_size)))"
                                  " and forall(return_types, lambda ty: td_okd(ty, max_typed_dict_size)) and forall(yield_types, lambda ty: td_okd(ty, max_typed_dict_size)))",
                            "ret": "forall(range_(0, _i), lambda j: implies(nth(traces, j).return_type is not None, has(return_types, nth(traces, j).return_type)))",
                            "ret-from": "forall(return_types, lambda ty: wf_rw(ty) and ty is not ELLIPSIS_ and ty is not None and exists(range_(0, _i), lambda j: nth(traces, j).return_type is ty))",
                            "yld": "forall(range_(0, _i), lambda j: implies(nth(traces, j).yield_type is not None, has(yield_types, nth(traces, j).yield_type)))",
                            "yld-from": "forall(yield_types, lambda ty: wf_rw(ty) and ty is not ELLIPSIS_ and ty is not None and exists(range_(0, _i), lambda j: nth(traces, j).yield_type is ty))",
                            "dictlike": "is_dictlike_(arg_types)"}},
                1: {"iter": "t.arg_types.items()",
                    "inv": {"done": "forall(range_(0, _i), lambda q: has(arg_types, nth(t.arg_types, q)) and has(lookup(arg_types, nth(t.arg_types, q)), lookup(t.arg_types, nth(t.arg_types, q))))",
                            "kept": "forall(pre_loop('arg_types'), lambda n: has(arg_types, n) and forall(lookup(pre_loop('arg_types'), n), lambda ty: has(lookup(arg_types, n), ty)))",
                            "from": "forall(arg_types, lambda n: (has(pre_loop('arg_types'), n) or exists(range_(0, _i), lambda q: nth(t.arg_types, q) is n))"
                                    " and len(lookup(arg_types, n)) >= 1 and is_dictlike_(lookup(arg_types, n)) and forall(lookup(arg_types, n), lambda ty: wf_rw(ty) and ty is not ELLIPSIS_ and ty is not None))",
                            "td": "implies(forall(traces, lambda t: forall(t.arg_types, lambda n: td_okd(lookup(t.arg_types, n), max_typed_dict_size)) and implies(t.return_type is not None, td_okd(t.return_type, max_typed_dict_size)) and implies(t.yield_type is not None, td_okd(t.yield_type, max_typed_dict_size))), forall(arg_types, lambda n: forall(lookup(arg_types, n), lambda ty: td_okd(ty, max_typed_dict_size))))",
                            "dictlike": "is_dictlike_(arg_types)"}},
                "tags": {"arg_types": "DDict:set", "return_types": "set", "yield_types": "set"}})


_TH_R = TH + ["replace", "sig"]
contract("monkeytype.stubs:FunctionDefinition.from_callable", props=["C12", "C01"], theories=_TH_R + ["stubs", "enc", "cli", "path"],
         params={"cls": "any", "func": "Func", "kind": "any"}, result="FunctionDefinition",
         requires={"names": "is_str_(func.__module__) and is_str_(func.__qualname__)"},
         # module, qualified name, kind (read off the descriptor found under the qualified name), the function's own signature and async flag; no generated classes
         ensures={"post:fields": "result.module is func.__module__ and result.qualname is func.__qualname__ and result.kind is FunctionKind.from_callable(func)"
                                 " and result.signature is sig_of(func) and result.is_async == is_coro_fn(func) and len(result.typed_dict_class_stubs) == 0"},
         raises={"NameLookupError": "not resolvable(func.__module__, func.__qualname__)", "ValueError": "sig_unavailable(func)"})

_ANN = "({a} is EMPTY or {a} is ELLIPSIS_ or wf_ann({a}))"
_SZ = "1 <= len(cs_attrs(s)) and len(cs_attrs(s)) <= k"
contract("monkeytype.stubs:FunctionDefinition.from_callable_and_traced_types", props=["C01", "C11", "C12", "C06"], theories=_TH_R + ["stubs", "enc", "cli", "path"], records=("monkeytype.stubs:ClassStub",),
         params={"cls": "any", "func": "Func", "arg_types": "Dict[str,Ty]", "return_type": "Opt[Ty]", "yield_type": "Opt[Ty]", "existing_annotation_strategy": "Enum:ExistingAnnotationStrategy"},
         result="FunctionDefinition",
         requires={"types-wf": "is_dictlike_(arg_types) and forall(arg_types, lambda n: wf_rw(lookup(arg_types, n)) and lookup(arg_types, n) is not ELLIPSIS_)"
                               " and implies(return_type is not None, wf_rw(return_type) and return_type is not ELLIPSIS_)"
                               " and implies(yield_type is not None, wf_rw(yield_type) and yield_type is not ELLIPSIS_)",
                   "strategy": "existing_annotation_strategy is REPLICATE or existing_annotation_strategy is IGNORE or existing_annotation_strategy is OMIT"},
         # what the function's own source annotations are is outside MonkeyType: assumed to be within the modelled annotation grammar (or absent)
         assumes={# an *empty* anonymous TypedDict makes the replacement raise; none is ever inferred or produced by a merge (C06: between 1 and k keys - proved for a fixed limit),
                  # assumed here for whatever a store hands back
                  "no-empty-typeddict": "forall(arg_types, lambda n: td_ne(lookup(arg_types, n))) and implies(return_type is not None, td_ne(return_type)) and implies(yield_type is not None, td_ne(yield_type))",
                  # the function was found through its module and qualified name (tracer lookup / decoding), and is a Python function inspect can describe
                  "function-resolvable": "resolvable(func.__module__, func.__qualname__) and not sig_unavailable(func)",
                  "source-annotations-modelled": "forall(params_of(sig_of(func)), lambda p: %s and panno(p) is not UNION_BARE) and %s" % (_ANN.format(a="panno(p)"), _ANN.format(a="ret_of(sig_of(func))")),
                  "no-class-named-like-a-handler": "forall_v(lambda c: implies(is_class(c) and kind(c) is K_Class, not is_dispatch_name(cname(c))))"},
         ensures={
             # every annotation of the resulting signature is within the annotation grammar the import / rendering contracts are stated for
             "post:annotations-modelled": "result is not None and forall(params_of(result.signature), lambda p: %s and panno(p) is not UNION_BARE) and %s"
                                          % (_ANN.format(a="panno(p)"), _ANN.format(a="ret_of(result.signature)")),
             "post:fields": "result.module is func.__module__ and result.qualname is func.__qualname__ and result.kind is FunctionKind.from_callable(func) and result.is_async == is_coro_fn(func)",
             # C06: every generated class stub has between 1 and k fields whenever every TypedDict node of every traced type has
             "post:class-stubs-size": "forall_int(lambda k: implies(td_okd_fields(arg_types, k) and implies(return_type is not None, td_okd(return_type, k)) and implies(yield_type is not None, td_okd(yield_type, k)),"
                                      " forall_v(lambda s: implies(has(result.typed_dict_class_stubs, s), %s))))" % _SZ,
         },
         loops={0: {"iter": "arg_types.items()",
                    "inv": {"new-wf": "is_dictlike_(new_arg_types) and forall_v(lambda n: implies(has(new_arg_types, n), wf_ann(lookup(new_arg_types, n)) and lookup(new_arg_types, n) is not ELLIPSIS_))",
                            "size": "forall_int(lambda k: implies(td_okd_fields(arg_types, k), forall_v(lambda s: implies(has(typed_dict_class_stubs, s), %s))))" % _SZ}},
                "tags": {"new_arg_types": "Dict[str,Ty]", "typed_dict_class_stubs": "Seq[TDStub]"}},
         note="existing source annotations are assumed to be within the annotation grammar (strings, arbitrary objects are possible in real sources: bounded companions C12 / C13)")

_COVER = ("forall(traces, lambda t: forall(t.arg_types, lambda n: has(L_arg_types, n)"
          " and forall_val(lambda v: implies(mem(v, lookup(t.arg_types, n)), mem(v, lookup(L_arg_types, n))))))")
contract("monkeytype.stubs:get_updated_definition", props=["C01", "C14", "C06"], theories=TH + ["replace"],
         params={"func": "Func", "traces": "Seq[Trace]", "max_typed_dict_size": "Opt[int]", "rewriter": "Opt[Rewriter]", "existing_annotation_strategy": "Enum:ExistingAnnotationStrategy"},
         result="FunctionDefinition",
         requires={"strategy": "existing_annotation_strategy is REPLICATE or existing_annotation_strategy is IGNORE or existing_annotation_strategy is OMIT", "k-int": "max_typed_dict_size is not None", "types-wf": "forall(traces, lambda t: t is not None and is_dictlike_(t.arg_types) and forall(t.arg_types, lambda n: wf_rw(lookup(t.arg_types, n)) and lookup(t.arg_types, n) is not ELLIPSIS_ and lookup(t.arg_types, n) is not None)"
                               " and implies(t.return_type is not None, wf_rw(t.return_type) and t.return_type is not ELLIPSIS_)"
                               " and implies(t.yield_type is not None, wf_rw(t.yield_type) and t.yield_type is not ELLIPSIS_))"},
         assumes={"no-class-named-like-a-handler": "forall_v(lambda c: implies(is_class(c) and kind(c) is K_Class, not is_dispatch_name(cname(c))))"},
         hints={"H-deep": "implies(forall(traces, lambda t: forall(t.arg_types, lambda n: td_okd(lookup(t.arg_types, n), max_typed_dict_size)) and implies(t.return_type is not None, td_okd(t.return_type, max_typed_dict_size)) and implies(t.yield_type is not None, td_okd(t.yield_type, max_typed_dict_size))), forall(L_arg_types, lambda n: td_okd(lookup(L_arg_types, n), max_typed_dict_size))"
                                  " and implies(L_return_type is not None, td_okd(L_return_type, max_typed_dict_size)) and implies(L_yield_type is not None, td_okd(L_yield_type, max_typed_dict_size)))",
                "H-fields": "implies(forall(traces, lambda t: forall(t.arg_types, lambda n: td_okd(lookup(t.arg_types, n), max_typed_dict_size)) and implies(t.return_type is not None, td_okd(t.return_type, max_typed_dict_size)) and implies(t.yield_type is not None, td_okd(t.yield_type, max_typed_dict_size))), td_okd_fields(L_arg_types, max_typed_dict_size))"},
         ensures={
             # C01 glue: after merging and rewriting, the type handed on for every position still admits everything any trace recorded there
             "post:args-cover": _COVER,
             "post:return-cover": "forall(traces, lambda t: implies(t.return_type is not None, L_return_type is not None and forall_val(lambda v: implies(mem(v, t.return_type), mem(v, L_return_type)))))",
             "post:yield-cover": "forall(traces, lambda t: implies(t.yield_type is not None, L_yield_type is not None and forall_val(lambda v: implies(mem(v, t.yield_type), mem(v, L_yield_type)))))",
             "post:never-invented": "implies(forall(traces, lambda t: t.return_type is None), L_return_type is None) and implies(forall(traces, lambda t: t.yield_type is None), L_yield_type is None)",
             "post:handed-on": "result is FunctionDefinition.from_callable_and_traced_types(func, L_arg_types, L_return_type, L_yield_type, existing_annotation_strategy)",
             # C06: after merging and rewriting, the types handed to stub generation keep every TypedDict node within the limit
             "post:td-size-deep": "implies(forall(traces, lambda t: forall(t.arg_types, lambda n: td_okd(lookup(t.arg_types, n), max_typed_dict_size)) and implies(t.return_type is not None, td_okd(t.return_type, max_typed_dict_size)) and implies(t.yield_type is not None, td_okd(t.yield_type, max_typed_dict_size))), forall(L_arg_types, lambda n: td_okd(lookup(L_arg_types, n), max_typed_dict_size))"
                                  " and implies(L_return_type is not None, td_okd(L_return_type, max_typed_dict_size)) and implies(L_yield_type is not None, td_okd(L_yield_type, max_typed_dict_size)))",
             # C06 in the generated classes: every TypedDict class stub of the definition has between 1 and max_typed_dict_size fields (none is generated for a limit <= 0)
             "post:class-stubs-size": "implies(forall(traces, lambda t: forall(t.arg_types, lambda n: td_okd(lookup(t.arg_types, n), max_typed_dict_size)) and implies(t.return_type is not None, td_okd(t.return_type, max_typed_dict_size)) and implies(t.yield_type is not None, td_okd(t.yield_type, max_typed_dict_size))), forall_v(lambda s: implies(has(result.typed_dict_class_stubs, s), 1 <= len(cs_attrs(s)) and len(cs_attrs(s)) <= max_typed_dict_size)))",
             "post:annotations-modelled": "(result is not None and forall(params_of(result.signature), lambda p: (panno(p) is EMPTY or panno(p) is ELLIPSIS_ or wf_ann(panno(p))) and panno(p) is not UNION_BARE) and (ret_of(result.signature) is EMPTY or ret_of(result.signature) is ELLIPSIS_ or wf_ann(ret_of(result.signature))))",
         })


_MS = "lookup({d}, {m})"
_CS = "lookup(lookup({d}, {m}).class_stubs, {k})"
_CONTENT = "({fs}.name is last_name_of({e}.qualname) and {fs}.signature is {e}.signature and {fs}.kind is {e}.kind and {fs}.is_async == {e}.is_async)"


def _bms_clauses(d, n, ents="entries"):
    """The placement clauses of build_module_stubs over the module map `d` after the first `n` entries (invariant and postcondition share them)."""
    ms = lambda m: _MS.format(d=d, m=m)
    cs = lambda m, k: _CS.format(d=d, m=m, k=k)
    E = lambda j: "nth(%s, %s)" % (ents, j)
    return {
        # one ModuleStub per module that has an entry, none for any other module
        "mods": "forall_v(lambda m: has(%s, m) == exists(range_(0, %s), lambda j: %s.module is m))" % (d, n, E("j")),
        "dict": "is_dictlike_(%s)" % d,
        "ms-fresh": "forall(%s, lambda m: %s is not None and alloc_time(%s) < clock() and alloc_time(%s) >= clock0() and is_dictlike_(%s.function_stubs) and is_dictlike_(%s.class_stubs))"
                    % (d, ms("m"), ms("m"), ms("m"), ms("m"), ms("m")),
        "ms-inj": "forall(%s, lambda m1: forall(%s, lambda m2: implies(m1 is not m2, %s is not %s)))" % (d, d, ms("m1"), ms("m2")),
        "cs-fresh": "forall(%s, lambda m: forall(%s.class_stubs, lambda k: %s is not None and alloc_time(%s) < clock() and alloc_time(%s) >= clock0() and %s.name is k and is_dictlike_(%s.function_stubs)))"
                    % (d, ms("m"), cs("m", "k"), cs("m", "k"), cs("m", "k"), cs("m", "k"), cs("m", "k")),
        "cs-inj": "forall(%s, lambda m1: forall(%s.class_stubs, lambda k1: forall(%s, lambda m2: forall(%s.class_stubs, lambda k2: implies(m1 is not m2 or k1 is not k2, %s is not %s)))))"
                  % (d, ms("m1"), d, ms("m2"), cs("m1", "k1"), cs("m2", "k2")),
        # (the same freshness facts keyed by membership instead of position: easier to instantiate)
        "ms-fresh-h": "forall_v(lambda m: implies(has(%s, m), %s is not None and alloc_time(%s) < clock() and is_dictlike_(%s.class_stubs)))" % (d, ms("m"), ms("m"), ms("m")),
        "cs-fresh-h": "forall_v(lambda m, k: implies(has(%s, m) and has(%s.class_stubs, k), %s is not None and alloc_time(%s) < clock() and is_dictlike_(%s.function_stubs)))"
                      % (d, ms("m"), cs("m", "k"), cs("m", "k"), cs("m", "k")),
        "ms-inj-h": "forall_v(lambda m1, m2: implies(has(%s, m1) and has(%s, m2) and m1 is not m2, %s is not %s))" % (d, d, ms("m1"), ms("m2")),
        # C12: nothing untraced appears - every module-level function stub comes from an entry of that module whose qualified name is that bare name, with its signature / kind / async flag
        "top-only": "forall(%s, lambda m: forall(%s.function_stubs, lambda fn: exists(range_(0, %s), lambda j: %s.module is m and not in_class_q(%s.qualname) and last_name_of(%s.qualname) is fn and %s)))"
                    % (d, ms("m"), n, E("j"), E("j"), E("j"), _CONTENT.format(fs="lookup(%s.function_stubs, fn)" % ms("m"), e=E("j"))),
        # ... every method stub sits in the ClassStub named by the class path of an entry of that module, under the method's own name
        "cls-only": "forall(%s, lambda m: forall(%s.class_stubs, lambda k: forall(%s.function_stubs, lambda fn: exists(range_(0, %s), lambda j: %s.module is m and in_class_q(%s.qualname)"
                    " and class_path_of(%s.qualname) is k and last_name_of(%s.qualname) is fn and %s))))"
                    % (d, ms("m"), cs("m", "k"), n, E("j"), E("j"), E("j"), E("j"), _CONTENT.format(fs="lookup(%s.function_stubs, fn)" % cs("m", "k"), e=E("j"))),
        # C12: each traced function appears, at module level or inside its class
        "top-all": "forall(range_(0, %s), lambda j: implies(not in_class_q(%s.qualname), has(%s.function_stubs, last_name_of(%s.qualname))))" % (n, E("j"), ms(E("j") + ".module"), E("j")),
        "cls-all": "forall(range_(0, %s), lambda j: implies(in_class_q(%s.qualname), has(%s.class_stubs, class_path_of(%s.qualname)) and has(%s.function_stubs, last_name_of(%s.qualname))))"
                   % (n, E("j"), ms(E("j") + ".module"), E("j"), cs(E("j") + ".module", "class_path_of(%s.qualname)" % E("j")), E("j")),
    }


contract("monkeytype.stubs:build_module_stubs", props=["C12", "C14", "C01"], theories=TH + ["stubs", "imports", "enc", "cli", "path"], pure=False,
         modifies=["ModuleStub.function_stubs", "ModuleStub.class_stubs", "ModuleStub.imports_stub", "ModuleStub.typed_dict_class_stubs", "ClassStub.function_stubs", "ClassStub.name",
                   "ClassStub.attribute_stubs", "ImportBlockStub.imports"],
         params={"entries": "Seq[FunctionDefinition]"}, result="StubMap",
         requires={"annos-wf": "forall(entries, lambda e: e is not None and forall(params_of(e.signature), lambda p: %s and panno(p) is not UNION_BARE) and %s)"
                               % ("(panno(p) is EMPTY or panno(p) is ELLIPSIS_ or wf_ann(panno(p)))",
                                  "(ret_of(e.signature) is EMPTY or ret_of(e.signature) is ELLIPSIS_ or wf_ann(ret_of(e.signature)))")},
         ensures={"post:" + k_: v_ for k_, v_ in _bms_clauses("tag_(result, 'Dict[str,ModuleStub]')", "len(entries)").items()},
         loops={0: {"iter": "entries", "inv": _bms_clauses("tag_(mod_stubs, 'Dict[str,ModuleStub]')", "_i")},
                "tags": {"mod_stubs": "Dict[str,ModuleStub]"}},
         note="FunctionStub is modelled as an immutable record; the import block of each module stub is not specified here (C11: get_imports_for_signature proved; merging bounded)")

_TWF = ("forall({ts}, lambda t: t is not None and is_dictlike_(t.arg_types) and forall(t.arg_types, lambda n: wf_rw(lookup(t.arg_types, n)) and lookup(t.arg_types, n) is not ELLIPSIS_ and lookup(t.arg_types, n) is not None)"
        " and implies(t.return_type is not None, wf_rw(t.return_type) and t.return_type is not ELLIPSIS_)"
        " and implies(t.yield_type is not None, wf_rw(t.yield_type) and t.yield_type is not ELLIPSIS_))")
contract("monkeytype.stubs:build_module_stubs_from_traces", props=["C01", "C10", "C14", "C12"], theories=TH + ["stubs", "imports", "enc", "cli", "path"],
         params={"traces": "Seq[Trace]", "max_typed_dict_size": "Opt[int]", "existing_annotation_strategy": "Enum:ExistingAnnotationStrategy", "rewriter": "Opt[Rewriter]"},
         result="StubMap", hide="*",
         requires={"k-int": "max_typed_dict_size is not None", "types-wf": _TWF.format(ts="traces"),
                   "strategy": "existing_annotation_strategy is REPLICATE or existing_annotation_strategy is IGNORE or existing_annotation_strategy is OMIT"},
         assumes={"no-class-named-like-a-handler": "forall_v(lambda c: implies(is_class(c) and kind(c) is K_Class, not is_dispatch_name(cname(c))))"},
         ensures={
             # every trace is grouped under the function it belongs to, nothing else is; one definition per traced function, built with the
             # configured size limit, rewriter and strategy; the module stubs are built from exactly those definitions
             "post:grouping": "forall(entry('traces'), lambda t: has(L_index, t.func) and has(lookup(L_index, t.func), t))",
             "post:grouping-only": "forall(L_index, lambda f: forall(lookup(L_index, f), lambda t: has(entry('traces'), t) and tag_(t, 'Trace').func is f))",
             "post:one-definition-per-function": "len(L_defns) == len(L_index) and forall(range_(0, len(L_defns)), lambda j: nth(L_defns, j) is get_updated_definition(nth(L_index, j), lookup(L_index, nth(L_index, j)),"
                                                 " max_typed_dict_size, rewriter, existing_annotation_strategy))",
             # ... and placed by build_module_stubs: per module, each definition at module level or in the class stub of its class path, nothing else
             **{"post:built:" + k_: v_ for k_, v_ in _bms_clauses("tag_(result, 'Dict[str,ModuleStub]')", "len(L_defns)", "L_defns").items() if k_ in ("mods", "top-only", "cls-only", "top-all", "cls-all")},
         },
         loops={0: {"iter": "traces",
                    "inv": {"grouped": "forall(range_(0, _i), lambda j: has(index, nth(entry('traces'), j).func) and has(lookup(index, nth(entry('traces'), j).func), nth(entry('traces'), j)))",
                            "only": "forall(index, lambda f: forall(lookup(index, f), lambda t: has(entry('traces'), t) and tag_(t, 'Trace').func is f))",
                            "dictlike": "is_dictlike_(index)"}},
                1: {"iter": "index.items()",
                    "inv": {"defs": "len(defns) == _i and forall(range_(0, _i), lambda j: nth(defns, j) is get_updated_definition(nth(index, j), lookup(index, nth(index, j)),"
                                    " max_typed_dict_size, rewriter, existing_annotation_strategy))",
                            "defs-modelled": "forall(range_(0, _i), lambda j: (tag_(nth(defns, j), 'FunctionDefinition') is not None and forall(params_of(tag_(nth(defns, j), 'FunctionDefinition').signature), lambda p: (panno(p) is EMPTY or panno(p) is ELLIPSIS_ or wf_ann(panno(p))) and panno(p) is not UNION_BARE) and (ret_of(tag_(nth(defns, j), 'FunctionDefinition').signature) is EMPTY or ret_of(tag_(nth(defns, j), 'FunctionDefinition').signature) is ELLIPSIS_ or wf_ann(ret_of(tag_(nth(defns, j), 'FunctionDefinition').signature)))))"}},
                "tags": {"index": "DDict:set", "defns": "Seq[FunctionDefinition]"}})

# ---- C12: the decorator and the async keyword follow the function's kind
_FK = "monkeytype.stubs:FunctionKind"
_BODY = ("concat(prefix, ite(self.is_async, 'async ', ''), 'def ', unboxs(self.name), render_signature(self.signature,"
         " 120 - strlen(concat(prefix, ite(self.is_async, 'async ', ''), 'def ', unboxs(self.name))), prefix), ': ...')")
# module prefixes are stripped from the signature text by ONE regex substitution whose pattern is built from all modules (longest first); with no modules the text is left alone
_STRIPPED = ("ite(len(self.strip_modules) == 0, %s, re_sub_(concat('(?<![\\w.])(?:', L_pattern, ')\\.'), '', %s))" % (_BODY, _BODY))
contract("monkeytype.stubs:FunctionStub.render", props=["C12", "C11"], theories=TH + ["stubs", "path"],
         params={"self": "FunctionStub", "prefix": "strp"}, result="strp",
         requires={"valid": "is_valid_sig(self.signature)", "anno-wf": "forall(params_of(self.signature), lambda p: panno(p) is not UNION_BARE)"},
         ensures={
             # `async def` exactly for coroutine functions, the decorator line that matches the kind (none for module-level functions and plain methods),
             # then the signature text; module prefixes are stripped from that text only (the regex substitution itself is an uninterpreted text function)
             "post:classmethod": "implies(self.kind is FunctionKind.CLASS, result == concat(prefix, '@classmethod\\n', %s))" % _STRIPPED,
             "post:staticmethod": "implies(self.kind is FunctionKind.STATIC, result == concat(prefix, '@staticmethod\\n', %s))" % _STRIPPED,
             "post:property": "implies(self.kind is FunctionKind.PROPERTY, result == concat(prefix, '@property\\n', %s))" % _STRIPPED,
             "post:cached-property": "implies(self.kind is FunctionKind.DJANGO_CACHED_PROPERTY, result == concat(prefix, '@cached_property\\n', %s))" % _STRIPPED,
             "post:plain": "implies(self.kind is FunctionKind.MODULE or self.kind is FunctionKind.INSTANCE, result == %s)" % _STRIPPED,
         },
         note="re.sub / re.escape / str.join and the order sorted() produces are uninterpreted (the text of annotations is bounded, C11)")

_DESC = "lookup_(func.__module__, func.__qualname__)"
contract("monkeytype.stubs:FunctionKind.from_callable", props=["C12"], theories=TH + ["stubs", "enc", "cli", "path"],
         params={"cls": "any", "func": "Func"}, result="Enum:FunctionKind",
         requires={"names": "is_str_(func.__module__) and is_str_(func.__qualname__)"},
         # the kind is read off the descriptor found (statically) under the function's qualified name: that is what decides the decorator of the stub
         ensures={"post:module": "implies(not contains_dot(func.__qualname__), result is FunctionKind.MODULE)",
                  "post:classmethod": "implies(contains_dot(func.__qualname__) and is_classmethod(%s), result is FunctionKind.CLASS)" % _DESC,
                  "post:staticmethod": "implies(contains_dot(func.__qualname__) and not is_classmethod(%s) and is_staticmethod(%s) and last_name_of(func.__qualname__) != '__new__', result is FunctionKind.STATIC)" % (_DESC, _DESC),
                  # C12: type.__new__ wraps a plain `def __new__(cls, ...)` in a staticmethod - no decorator in the source, `cls` is the receiver (never annotated)
                  "post:implicit-static-new": "implies(contains_dot(func.__qualname__) and not is_classmethod(%s) and is_staticmethod(%s) and last_name_of(func.__qualname__) == '__new__', result is FunctionKind.INSTANCE)" % (_DESC, _DESC),
                  "post:property": "implies(contains_dot(func.__qualname__) and not is_classmethod(%s) and not is_staticmethod(%s) and okind(%s) is OK_property, result is FunctionKind.PROPERTY)" % (_DESC, _DESC, _DESC),
                  "post:instance": "implies(contains_dot(func.__qualname__) and not is_classmethod(%s) and not is_staticmethod(%s) and okind(%s) is not OK_property"
                                   " and not (DJANGO_CP is not None and okind(%s) is OK_cached_property), result is FunctionKind.INSTANCE)" % (_DESC, _DESC, _DESC, _DESC)},
         raises={"NameLookupError": "not resolvable(func.__module__, func.__qualname__)"},
         note="inspect.getattr_static is modelled like getattr on the lookup environment (no descriptor protocol): assumed")

# ---------------------------------------------------------------- C01: the composition lemma, per position, as a machine-checked object
# values observed at one position over any number of calls -> per-value inference (tracer) -> merge (shrink_traced_types) -> rewriter (get_updated_definition)
contract("lemma:c01_position", props=["C01"], theories=TH,
         lemma=("monkeytype.stubs", "def lemma_c01_position(values, k, rewriter):\n"
                                    "    types = [get_type(v, k) for v in values]\n"
                                    "    merged = shrink_types(types, k)\n"
                                    "    return rewriter.rewrite(merged)\n",
                {"get_type": "monkeytype.typing:get_type"}),
         params={"values": "Seq[Val]", "k": "Opt[int]", "rewriter": "Rewriter"}, result="Ty", pure=False,
         requires={"values-wf": "forall(values, lambda v: wf_val(v))", "k-int": "k is not None", "rewriter": "rewriter is not None"},
         assumes={"no-class-named-like-a-handler": "forall_v(lambda c: implies(is_class(c) and kind(c) is K_Class, not is_dispatch_name(cname(c))))"},
         # C01 (type level): whatever the number of calls, the size limit and the rewriter, the type handed to stub generation admits every observed value
         ensures={"post:admits-every-observed-value": "forall(values, lambda v: mem(v, result))", "post:wf": "wf_rw(result)"},
         note="composition of the proved stage contracts of get_type (C04), shrink_types (C04) and the rewriter's widening (C07); the store round trip is the second lemma; "
              "the last stage - the rendered text denotes this type - is bounded (C11)")

contract("lemma:c01_position_through_store", props=["C01"], theories=TH + ["enc", "cli", "path"],
         lemma=("monkeytype.stubs", "def lemma_c01_position_through_store(values, k, rewriter):\n"
                                    "    types = [get_type(v, k) for v in values]\n"
                                    "    stored = [type_from_json(type_to_json(t)) for t in types]\n"
                                    "    merged = shrink_types(stored, k)\n"
                                    "    return rewriter.rewrite(merged)\n",
                {"get_type": "monkeytype.typing:get_type", "type_to_json": "monkeytype.encoding:type_to_json", "type_from_json": "monkeytype.encoding:type_from_json"}),
         params={"values": "Seq[Val]", "k": "Opt[int]", "rewriter": "Rewriter"}, result="Ty", pure=False,
         requires={"values-wf": "forall(values, lambda v: wf_val(v))", "k-int": "k is not None", "rewriter": "rewriter is not None",
                   # hypotheses of the statement: the observed values are instances of importable classes ...
                   "importable": "forall(values, lambda v: importable(get_type(v, k)))",
                   # ... and (not proved at L1, checked by the bounded tier of C08 on every inferred type) inferred types are within the encoder's structural domain
                   "inferred-types-encodable": "forall(values, lambda v: wf_st(get_type(v, k)))"},
         assumes={"no-class-named-like-a-handler": "forall_v(lambda c: implies(is_class(c) and kind(c) is K_Class, not is_dispatch_name(cname(c))))"},
         # C01 (type level, through the trace store): infer per call, encode, decode, merge, rewrite - the result admits every observed value, and nothing on the way raises
         ensures={"post:admits-every-observed-value": "forall(values, lambda v: mem(v, result))"},
         note="uses the assumed axioms mem-respects-teq / wf-respects-teq (structural equality preserves membership and well-formedness: theorems by induction, not proved here)")
