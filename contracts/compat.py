"""Sidecar contracts for monkeytype/compat.py."""
from pyvc.registry import contract

TH = ["types", "sig"]

contract("monkeytype.compat:is_any", props=["C04", "C07", "C08", "C11"], theories=TH,
         params={"typ": "Ty"}, result="bool",
         ensures={"post:def": "result == (typ is ANY)"})

contract("monkeytype.compat:is_generic", props=["C04", "C07", "C08", "C11"], theories=TH,
         params={"typ": "Ty"}, result="bool",
         ensures={"post:def": "result == (typ is UNION_BARE or is_galias(typ) or is_special(typ))"})

contract("monkeytype.compat:is_union", props=["C04", "C07", "C08", "C11", "C13"], theories=TH,
         params={"typ": "Ty"}, result="bool",
         ensures={"post:def": "result == (typ is UNION_BARE or kind(typ) is K_Union)"})

contract("monkeytype.compat:is_typed_dict", props=["C04", "C06", "C08"], theories=TH,
         params={"typ": "Ty"}, result="bool",
         ensures={"post:def": "result == is_tdmeta(typ)"})

contract("monkeytype.compat:is_generic_of", props=["C07"], theories=TH,
         params={"typ": "Ty", "gen": "Ty"}, result="bool",
         requires={"gen-generic": "is_special(gen) or is_galias(gen)", "not-bare-union": "typ is not UNION_BARE"},
         ensures={"post:def": "result == ((typ is UNION_BARE or is_galias(typ) or is_special(typ)) and origin(typ) is origin(gen))"},
         note="typ is Union (bare) has no __origin__: excluded by callers passing union members")
