"""Sidecar contracts for monkeytype/encoding.py and util.py: the decode chain (C10: stale rows raise MonkeyTypeError only)."""
from pyvc.registry import contract

TH = ["cli", "types", "values", "events", "enc", "path"]

_PARTS = "str_split_(qualname, '.')"
contract("monkeytype.util:get_name_in_module", props=["C10", "C08"], theories=TH,
         params={"module": "str", "qualname": "str", "attr_getter": "Opt[Getter]"}, result="Obj",
         # the object found by importing the module and following the dotted name; NameLookupError exactly when some step is missing
         ensures={"post:lookup": "result is lookup_(module, qualname)", "post:resolvable": "resolvable(module, qualname)"},
         raises={"NameLookupError": "not resolvable(module, qualname)"},
         loops={0: {"iter": "qualname.split('.')",
                    "inv": {"obj": "obj is walk_(imported_(module), %s, _i)" % _PARTS,
                            "found": "forall(range_(0, _i), lambda q: has_attr(walk_(imported_(module), %s, q), nth(%s, q)))" % (_PARTS, _PARTS)}}},
         note="assumes: importing a stored module either succeeds or raises an ImportError (any subclass); attribute access either succeeds or raises some Exception (AttributeError, or what a module __getattr__ / property on the way raises); a caller-supplied attr_getter behaves like getattr")

from contracts._texts import _FN_OF, _BAD
def _fn(m, q):
    o = "(unwrapped_(lookup_(%s, %s)))" % (m, q)
    return _FN_OF.replace("(o)", o).replace(", o)", ", %s)" % o[1:-1]), o


def _not_a_function(m, q):
    """The raise condition of get_func_in_module(m, q): the name cannot be looked up or unwrapped, or what it is bound to is not the Python function (m, q) names."""
    fn, o = _fn(m, q)
    return ("not resolvable(%s, %s) or unwrap_loops(lookup_(%s, %s)) or %s or okind(%s) is not OK_function or func_qualname_(%s) is not %s or func_module_(%s) is not %s"
            % (m, q, m, q, _BAD.replace("(o)", o), fn, fn, q, fn, m))


contract("monkeytype.util:get_func_in_module", props=["C10", "C08"], theories=TH,
         params={"module": "str", "qualname": "str"}, result="Obj",
         lets={"o": "unwrapped_(lookup_(module, qualname))"},
         # the Python function the name denotes: the object itself, or the function a method / read-only property / cached_property wraps -
         # and only if that function was defined under exactly this module and qualified name (not a builtin, a generated or imported function, a wrapper without functools.wraps)
         ensures={"post:function": "result is " + _FN_OF, "post:resolvable": "resolvable(module, qualname)", "post:kind": "not (%s)" % _BAD,
                  "post:python-function": "okind(result) is OK_function",
                  "post:own-name": "func_qualname_(result) is qualname and func_module_(result) is module"},
         raises={"MonkeyTypeError": _not_a_function("module", "qualname")})

_ENC = "exists_ty(lambda t: {g}wf_st(t) and encodes({d}, t) and reveal_enc({d}, t))"
contract("monkeytype.encoding:typed_dict_from_dict", props=["C10", "C08"], theories=TH, scc="decode", decreases=["jdepth(d)", "0"],
         params={"d": "JDict"}, result="Ty",
         # "Given a dictionary produced by type_to_dict": d is the wire form of some (structurally well-formed) TypedDict class
         requires={"encoded": _ENC.format(g="is_tdmeta(t) and ", d="d")},
         # C08: a wire form of an importable TypedDict class decodes to a structurally equal class, and does decode
         hints={"name": "forall_ty(lambda t: implies(is_tdmeta(t) and dec_of(d, t), td_name(t) is td_name(result)))",
                "dictlike": "is_dictlike_(td_ann(result))",
                "keys-1": "forall_ty(lambda t: implies(is_tdmeta(t) and dec_of(d, t), forall(td_ann(t), lambda k: has(td_ann(result), k))))",
                "keys-2": "forall_ty(lambda t: implies(is_tdmeta(t) and dec_of(d, t), forall(td_ann(result), lambda k: has(td_ann(t), k))))",
                "keys": "forall_ty(lambda t: implies(is_tdmeta(t) and dec_of(d, t), forall_v(lambda k: has(td_ann(t), k) == has(td_ann(result), k))))",
                "vals": "forall_ty(lambda t: implies(is_tdmeta(t) and dec_of(d, t), forall(td_ann(t), lambda k: teq(lookup(td_ann(t), k), lookup(td_ann(result), k)))))"},
         ensures={"post:roundtrip": "forall_ty(lambda t: implies(is_tdmeta(t) and dec_of(d, t), teq(t, result)))", "post:not-none": "result is not None"},
         raises={"MonkeyTypeError": "not exists_ty(lambda t: is_tdmeta(t) and dec_of(d, t))"})

contract("monkeytype.encoding:type_from_dict", props=["C10", "C08"], theories=TH, scc="decode", decreases=["jdepth(d)", "1"],
         params={"d": "JDict"}, result="Ty",
         requires={"encoded": _ENC.format(g="", d="d")},
         # C08: the wire form of any structurally well-formed, importable type decodes to a structurally equal type (and decoding
         # raises MonkeyTypeError only for what is not such a wire form - C10: nothing else is ever raised)
         hints=dict({"lookup-ctor": "forall_ty(lambda t: implies(dec_of(d, t) and has_args_(t), lookup_(jget(d, 'module'), jget(d, 'qualname')) is ctor_of(t)))",
                     "elems-len": "forall_ty(lambda t: implies(dec_of(d, t) and has_args_(t), len(L_elem_types) == len(args(t))))",
                     "elems": "forall_ty(lambda t: implies(dec_of(d, t) and has_args_(t), forall(range_(0, len(args(t))), lambda i: teq(nth(args(t), i), nth(L_elem_types, i)))))"},
                    **{"case-%s" % k_: "forall_ty(lambda t: implies(dec_of(d, t) and kind(t) is K_%s, teq(t, result)))" % k_
                       for k_ in ("Any", "Class", "List", "Set", "Dict", "DefaultDict", "Tuple", "Type", "Iterator", "Generator", "Callable", "Union", "TD", "NamedTD")}),
         ensures={"post:roundtrip": "forall_ty(lambda t: implies(dec_of(d, t), teq(t, result)))", "post:not-none": "result is not None"},
         raises={"MonkeyTypeError": "not exists_ty(lambda t: dec_of(d, t))"},
         note="precondition: the dict was produced by the encoder for some type (whose classes need not exist any more); assumes that a name which still denotes a generic accepts the stored arguments")

_NOTE = "precondition: the stored JSON was produced by the encoder"
contract("monkeytype.encoding:type_from_json", props=["C10", "C08"], theories=TH, params={"typ_json": "strp"}, result="Ty",
         requires={"encoded": _ENC.format(g="", d="json_loads_(typ_json)")}, note=_NOTE,
         ensures={"post:roundtrip": "forall_ty(lambda t: implies(dec_of(json_loads_(typ_json), t), teq(t, result)))", "post:not-none": "result is not None"},
         raises={"MonkeyTypeError": "not exists_ty(lambda t: dec_of(json_loads_(typ_json), t))"})
_ENCA = "exists_args(lambda A: encodes_args({d}, A) and wf_args_(A))"
contract("monkeytype.encoding:arg_types_from_json", props=["C10", "C08"], theories=TH, params={"arg_types_json": "strp"}, result="Dict[str,Ty]",
         requires={"encoded": _ENCA.format(d="json_loads_(arg_types_json)")}, note=_NOTE,
         hints={"dictlike": "is_dictlike_(result)",
                "keys-1": "forall_args(lambda A: implies(args_dec_of(json_loads_(arg_types_json), A), forall(A, lambda k: has(result, k))))",
                "keys-2": "forall_args(lambda A: implies(args_dec_of(json_loads_(arg_types_json), A), forall(result, lambda k: has(A, k))))",
                "keys": "forall_args(lambda A: implies(args_dec_of(json_loads_(arg_types_json), A), forall_v(lambda k: has(A, k) == has(result, k))))",
                "vals": "forall_args(lambda A: implies(args_dec_of(json_loads_(arg_types_json), A), forall(A, lambda k: teq(lookup(A, k), lookup(result, k)))))"},
         ensures={"post:roundtrip": "forall_args(lambda A: implies(args_dec_of(json_loads_(arg_types_json), A), teq_args(A, result)))"},
         raises={"MonkeyTypeError": "not exists_args(lambda A: args_dec_of(json_loads_(arg_types_json), A))"})
contract("monkeytype.encoding:maybe_decode_type", props=["C10", "C08"], theories=TH, params={"decode": "Decoder", "encoded": "Opt[str]"}, result="Opt[Ty]",
         requires={"text": "encoded is None or is_str_(encoded)"},
         # C08: an absent type (NULL column, or the JSON literal null) stays absent; anything else is what the decoder makes of it
         ensures={"post:absent": "implies(encoded is None or encoded == 'null', result is None)",
                  "post:present": "implies(not (encoded is None or encoded == 'null'), result is apply1_(decode, encoded) and not fn_raises_(decode, encoded))"},
         raises={"MonkeyTypeError": "encoded is not None and encoded != 'null' and fn_raises_(decode, encoded)"},
         note="assumes the decoder passed in raises MonkeyTypeError only (true of type_from_json, proved)")
_ABSENT = "({x} is None or {x} == 'null')"
_ROWJ = "json_loads_(unboxs(self.{f}))"
_OKT = "exists_ty(lambda t: dec_of(%s, t))"
contract("monkeytype.encoding:CallTraceRow.to_trace", props=["C10", "C08"], theories=TH, params={"self": "Row"}, result="Trace", pure=False,
         modifies=["func", "arg_types", "return_type", "yield_type"], uses=["monkeytype.encoding:type_from_json"],
         # the row was written by MonkeyType's encoder (for types / functions that need not exist any more)
         requires={"strings": "is_str_(self.module) and is_str_(self.qualname) and is_str_(self.arg_types) and (self.return_type is None or is_str_(self.return_type))"
                              " and (self.yield_type is None or is_str_(self.yield_type))",
                   "args-encoded": _ENCA.format(d=_ROWJ.format(f="arg_types")),
                   "return-encoded": "%s or %s" % (_ABSENT.format(x="self.return_type"), _ENC.format(g="", d=_ROWJ.format(f="return_type"))),
                   "yield-encoded": "%s or %s" % (_ABSENT.format(x="self.yield_type"), _ENC.format(g="", d=_ROWJ.format(f="yield_type")))},
         # C10: whatever the stored row refers to - a removed module / function / class, a name that is no longer a function or a type -
         # decoding either succeeds or raises MonkeyTypeError, never anything else; C08: and it raises only for what cannot be looked up
         raises={"MonkeyTypeError": _not_a_function("self.module", "self.qualname")
                                    + " or not exists_args(lambda A: args_dec_of(%s, A))" % _ROWJ.format(f="arg_types")
                                    + " or (not %s and not %s)" % (_ABSENT.format(x="self.return_type"), _OKT % _ROWJ.format(f="return_type"))
                                    + " or (not %s and not %s)" % (_ABSENT.format(x="self.yield_type"), _OKT % _ROWJ.format(f="yield_type"))},
         ensures={"post:func": "result.func is get_func_in_module(self.module, self.qualname)",
                  "post:args": "forall_args(lambda A: implies(args_dec_of(%s, A), teq_args(A, result.arg_types)))" % _ROWJ.format(f="arg_types"),
                  # an absent return / yield (NULL, or the JSON literal null) stays absent; a present one decodes to a structurally equal type
                  "post:absent-return": "implies(%s, result.return_type is None)" % _ABSENT.format(x="self.return_type"),
                  "post:absent-yield": "implies(%s, result.yield_type is None)" % _ABSENT.format(x="self.yield_type"),
                  "post:return": "implies(not %s, result.return_type is not None and forall_ty(lambda t: implies(dec_of(%s, t), teq(t, result.return_type))))" % (_ABSENT.format(x="self.return_type"), _ROWJ.format(f="return_type")),
                  "post:yield": "implies(not %s, result.yield_type is not None and forall_ty(lambda t: implies(dec_of(%s, t), teq(t, result.yield_type))))" % (_ABSENT.format(x="self.yield_type"), _ROWJ.format(f="yield_type"))})
