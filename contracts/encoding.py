"""Sidecar contracts for monkeytype/encoding.py and util.py: the decode chain (C10: stale rows raise MonkeyTypeError only)."""
from pyvc.registry import contract

TH = ["cli", "types", "values", "events"]

contract("monkeytype.util:get_name_in_module", props=["C10", "C08"], theories=TH,
         params={"module": "str", "qualname": "str", "attr_getter": "Opt[Getter]"}, result="Obj",
         raises={"NameLookupError": None},
         loops={0: {"iter": "qualname.split('.')", "inv": {"true": "true"}}},
         note="assumes: importing a stored module either succeeds or raises ModuleNotFoundError; attribute access either succeeds or raises AttributeError")

contract("monkeytype.util:get_func_in_module", props=["C10", "C08"], theories=TH,
         params={"module": "str", "qualname": "str"}, result="Obj",
         ensures={"post:not-none-unless-unwrapped": "true"},
         raises={"MonkeyTypeError": None})

contract("monkeytype.encoding:typed_dict_from_dict", props=["C10", "C08"], theories=TH, scc="decode", decreases=["jdepth(d)", "0"],
         params={"d": "JDict"}, result="Ty",
         requires={"encoded": "jhas(d, 'qualname') and jhas(d, 'elem_types') and is_dictlike_(jget(d, 'elem_types'))"},
         assumes={"well-formed-rows": "forall_v(lambda e: implies(jdepth(e) < jdepth(d), jhas(e, 'module') and jhas(e, 'qualname') and is_str_(jget(e, 'module')) and is_str_(jget(e, 'qualname'))"
                                      " and implies(jhas(e, 'is_typed_dict') and truthy_(jget(e, 'is_typed_dict')), jhas(e, 'elem_types') and is_dictlike_(jget(e, 'elem_types')))))"},
         raises={"MonkeyTypeError": None})

contract("monkeytype.encoding:type_from_dict", props=["C10", "C08"], theories=TH, scc="decode", decreases=["jdepth(d)", "1"],
         params={"d": "JDict"}, result="Ty",
         requires={"encoded": "jhas(d, 'module') and jhas(d, 'qualname') and is_str_(jget(d, 'module')) and is_str_(jget(d, 'qualname'))",
                   "encoded-td": "implies(jhas(d, 'is_typed_dict') and truthy_(jget(d, 'is_typed_dict')), jhas(d, 'elem_types') and is_dictlike_(jget(d, 'elem_types')))"},
         assumes={"well-formed-rows": "forall_v(lambda e: implies(jdepth(e) < jdepth(d), jhas(e, 'module') and jhas(e, 'qualname') and is_str_(jget(e, 'module')) and is_str_(jget(e, 'qualname'))"
                                      " and implies(jhas(e, 'is_typed_dict') and truthy_(jget(e, 'is_typed_dict')), jhas(e, 'elem_types') and is_dictlike_(jget(e, 'elem_types')))))"},
         raises={"MonkeyTypeError": None},
         note="assumes the row was produced by the encoder (every nested type dict has module/qualname) and that a name which still denotes a generic accepts the stored arguments")

_WFALL = {"well-formed-rows": "forall_v(lambda e: jhas(e, 'module') and jhas(e, 'qualname') and is_str_(jget(e, 'module')) and is_str_(jget(e, 'qualname'))"
                              " and implies(jhas(e, 'is_typed_dict') and truthy_(jget(e, 'is_typed_dict')), jhas(e, 'elem_types') and is_dictlike_(jget(e, 'elem_types'))))"}
_NOTE = "assumes the stored JSON was produced by the encoder (every type dict has module / qualname; TypedDict entries have elem_types)"
contract("monkeytype.encoding:type_from_json", props=["C10", "C08"], theories=TH, params={"typ_json": "strp"}, result="Ty",
         assumes=_WFALL, raises={"MonkeyTypeError": None}, note=_NOTE)
contract("monkeytype.encoding:arg_types_from_json", props=["C10", "C08"], theories=TH, params={"arg_types_json": "strp"}, result="Dict[str,Ty]",
         assumes=dict(_WFALL, **{"args-object": "is_dictlike_(json_loads_(arg_types_json))"}), raises={"MonkeyTypeError": None}, note=_NOTE)
contract("monkeytype.encoding:maybe_decode_type", props=["C10", "C08"], theories=TH, params={"decode": "Decoder", "encoded": "Opt[str]"}, result="Opt[Ty]",
         ensures={"post:absent": "implies(encoded is None or encoded == 'null', result is None)"},
         raises={"MonkeyTypeError": None},
         note="assumes the decoder passed in raises MonkeyTypeError only (true of type_from_json, proved)")
contract("monkeytype.encoding:CallTraceRow.to_trace", props=["C10", "C08"], theories=TH, params={"self": "Row"}, result="Trace", pure=False,
         modifies=["func", "arg_types", "return_type", "yield_type"],
         # C10: whatever the stored row refers to - a removed module / function / class, a name that is no longer a function or a type -
         # decoding either succeeds or raises MonkeyTypeError, never anything else
         raises={"MonkeyTypeError": None},
         ensures={"post:absent-return": "implies(self.return_type is None, result.return_type is None)",
                  "post:absent-yield": "implies(self.yield_type is None, result.yield_type is None)"})
