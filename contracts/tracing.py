"""Sidecar contracts for monkeytype/tracing.py (C02, C03, C17, C18)."""
from pyvc.registry import contract

TH = ["types", "events", "values"]

# the function cache maps id(code) to the pair (code, function or None): every entry's function, if any, has exactly the entry's code
_E = "lookup(self.cache, i)"
_CACHE_WF = "forall_v(lambda i: implies(has(self.cache, i), %s is not None and len(%s) == 2 and (nth(%s, 1) is None or code_of(nth(%s, 1)) is nth(%s, 0))))" % (_E, _E, _E, _E, _E)

contract("monkeytype.tracing:CallTracer._get_func", props=["C02", "C18"], theories=TH, pure=False, modifies=["cache"],
         params={"self": "Tracer", "frame": "Frame"}, result="Opt[Func]",
         requires={"cache-wf": _CACHE_WF},
         ensures={"post:code": "implies(result is not None, code_of(result) is code_of(frame))",
                  "post:cache-wf": _CACHE_WF,
                  "frame:traces": "unchanged('traces')"},
         raises={"Exception": None})

contract("monkeytype.tracing:CallTrace.add_yield_type", props=["C02"], theories=TH, pure=False, modifies=["yield_type"],
         params={"self": "Trace", "typ": "Ty"}, result="none",
         ensures={"post:yield": "self.yield_type is ite(old(self.yield_type) is None, typ, Union_(tup(old(self.yield_type), typ)))",
                  "frame:others": "unchanged_except('yield_type', self)"})

_SAMPLED = "(not bool(self.sample_rate) or draw(0) == 0)"
_NEW = "lookup(self.traces, frame)"
_ARGN = "seq_prefix(co_varnames(code_of(frame)), co_argcount(code_of(frame)) + co_kwonly(code_of(frame)))"
contract("monkeytype.tracing:CallTracer.handle_call", props=["C02", "C18", "C06", "C03"], theories=TH, pure=False,
         modifies=["traces", "cache", "func", "arg_types", "return_type", "yield_type"],
         params={"self": "Tracer", "frame": "Frame"}, result="none",
         requires={"k-int": "self.max_typed_dict_size is not None", "rate": "self.sample_rate is None or self.sample_rate >= 0", "locals-wf": "forall_v(lambda n: implies(has(locals_of(frame), n), wf_val(lookup(locals_of(frame), n))))",
                   "cache-wf": _CACHE_WF},
         ensures={
             # C18: a call that was not sampled leaves no trace and no residue
             "post:unsampled": "implies(not %s, self.traces is old(self.traces))" % _SAMPLED,
             # resuming a generator we have already seen
             "post:resume": "implies(has(old(self.traces), frame), self.traces is old(self.traces))",
             # an entry is only ever added for this frame, and maps every named parameter bound at this moment to its inferred type
             "post:only-this-frame": "self.traces is old(self.traces) or self.traces is dict_set_(old(self.traces), frame, %s)" % _NEW,
             "post:entry": "implies(self.traces is not old(self.traces), %s and not has(old(self.traces), frame)"
                           " and code_of(%s.func) is code_of(frame) and %s.return_type is None and %s.yield_type is None)" % (_SAMPLED, _NEW, _NEW, _NEW),
             "post:arg-types": "implies(self.traces is not old(self.traces), forall(%s, lambda n: implies(has(locals_of(frame), n),"
                               " has(%s.arg_types, n) and lookup(%s.arg_types, n) is get_type(lookup(locals_of(frame), n), self.max_typed_dict_size))))" % (_ARGN, _NEW, _NEW),
             "post:arg-names": "implies(self.traces is not old(self.traces), forall(%s.arg_types, lambda n: has(%s, n) and has(locals_of(frame), n)))" % (_NEW, _ARGN),
             "frame:effects": "effects() is old(effects())",
             "frame:existing": "forall_v(lambda t: implies(preexisting(t), t.yield_type is old(t.yield_type) and t.return_type is old(t.return_type)))",
             "post:cache-wf": _CACHE_WF,
         },
         raises={"Exception": None},
         ensures_exc={"exc:traces": "self.traces is old(self.traces)", "exc:effects": "effects() is old(effects())",
                      "exc:existing": "forall_v(lambda t: implies(preexisting(t), t.yield_type is old(t.yield_type) and t.return_type is old(t.return_type)))"},
         loops={0: {"iter": "arg_names",
                    "inv": {"types": "forall(range_(0, _i), lambda j: implies(has(locals_of(frame), nth(arg_names, j)),"
                                     " has(arg_types, nth(arg_names, j)) and lookup(arg_types, nth(arg_names, j)) is get_type(lookup(locals_of(frame), nth(arg_names, j)), self.max_typed_dict_size)))",
                            "names": "forall(arg_types, lambda n: has(arg_names, n) and has(locals_of(frame), n))",
                            "dictlike": "is_dictlike_(arg_types)"}},
                "tags": {"arg_types": "Dict[str,Ty]"}})

_T = "lookup(old(self.traces), frame)"
_TY = "get_type(arg, self.max_typed_dict_size)"
_HAS = "has(old(self.traces), frame)"
_YNEW = "ite(old(%s.yield_type) is None, %s, Union_(tup(old(%s.yield_type), %s)))" % (_T, _TY, _T, _TY)
_LOGGED = "effects() is append(old(effects()), log_entry(%s, old(%s.func), old(%s.arg_types), {ret}, old(%s.yield_type)))" % (_T, _T, _T, _T)
_RET_POSTS = {
    "post:not-traced": "implies(not %s, self.traces is old(self.traces) and effects() is old(effects()) and unchanged('yield_type') and unchanged('return_type'))" % _HAS,
    # the yield type covers every value the function yielded ...
    "post:yield": "implies(%s and cause(frame) is CAUSE_yield, self.traces is old(self.traces) and effects() is old(effects())"
                  " and %s.yield_type is %s and unchanged_except('yield_type', %s))" % (_HAS, _T, _YNEW, _T),
    # ... and nothing else: a coroutine suspending on an await is not a yield
    "post:await": "implies(%s and cause(frame) is CAUSE_await_suspend, self.traces is old(self.traces) and effects() is old(effects()) and unchanged('yield_type'))" % _HAS,
    # a call that returns is logged once, with the type of the returned value, and its per-call state is dropped
    "post:return": "implies(%s and cause(frame) is CAUSE_return, self.traces is dict_del_(old(self.traces), frame) and unchanged('yield_type') and %s)" % (_HAS, _LOGGED.format(ret=_TY)),
    # a call that ends with an exception is logged once with the return type absent
    # carve-out (known finding C02-unwind-at-yield): an exception thrown into / close() of a generator suspended at a yield
    # arrives as ('return', None) with YIELD_VALUE as the last opcode, indistinguishable from `yield None`
    "post:unwind": "implies(%s and cause(frame) is CAUSE_unwind and opcode_at(code_of(frame), lasti(frame)) != OP_YIELD_VALUE, self.traces is dict_del_(old(self.traces), frame) and unchanged('yield_type') and %s)" % (_HAS, _LOGGED.format(ret="None")),
}
_RET_REQ = {"k-int": "self.max_typed_dict_size is not None", "arg-wf": "wf_val(arg)", "protocol": "cause(frame) is CAUSE_yield or cause(frame) is CAUSE_await_suspend or cause(frame) is CAUSE_return or cause(frame) is CAUSE_unwind",
            "unwind-arg": "implies(cause(frame) is CAUSE_unwind, arg is None)",
            "trace-wf": "implies(%s, %s is not None and %s.return_type is None)" % ("has(self.traces, frame)", "lookup(self.traces, frame)", "lookup(self.traces, frame)")}
contract("monkeytype.tracing:CallTracer.handle_return", props=["C02", "C18", "C03"], theories=TH, pure=False,
         modifies=["traces", "return_type", "yield_type"], effects="log",
         params={"self": "Tracer", "frame": "Frame", "arg": "Val"}, result="none",
         requires=_RET_REQ, ensures=_RET_POSTS,
         # C18 / C03: the return value of a call that is not being traced (unsampled, filtered at its start) is never inspected
         call_guards={"get_type": {"only-traced-calls": "has(old(self.traces), frame)"}},
         ensures_exc={"exc:contained-state": "self.traces is old(self.traces) or self.traces is dict_del_(old(self.traces), frame)",
                      # C02 "afterwards the tracer keeps no per-call state", also when the logger fails on the finished call
                      "exc:finished-dropped": "implies(log_attempted(), self.traces is dict_del_(old(self.traces), frame))",
                      "exc:no-log": "effects() is old(effects())"},
         raises={"Exception": None})

# carve-out (known finding C17-trace_types): code named `trace_types` is dropped whatever the filter says
_ADMIT = ("(event == 'call' or event == 'return') and co_name(code_of(frame)) != 'trace_types'"
          " and (self.should_trace is None or filter_accepts(self.should_trace, code_of(frame)))")
_FILTER_REJECTS = "(self.should_trace is not None and not filter_accepts(self.should_trace, code_of(frame)))"
_CALL_POSTS = {
    "post:returns-self": "result is self",
    # C17: functions the filter rejects never reach the logger (nor any tracer state)
    "post:filter-first": "implies(%s, self.traces is old(self.traces) and effects() is old(effects()) and unchanged('yield_type') and unchanged('cache'))" % _FILTER_REJECTS,
    "post:unsupported-event": "implies(not (event == 'call' or event == 'return'), self.traces is old(self.traces) and effects() is old(effects()))",
    # C03: a failure inside type collection, function lookup or the logger is contained: effects only ever grow by this frame's entry
    "post:contained": "implies(not no_fault(), (self.traces is old(self.traces) or self.traces is dict_del_(old(self.traces), frame)"
                      " or self.traces is dict_set_(old(self.traces), frame, lookup(self.traces, frame))) and effects() is old(effects()))",
    # C02 / C18 per-event statements (ghost cause), for admitted events when nothing failed
    "post:start": "implies(no_fault() and event == 'call' and self.traces is not old(self.traces),"
                  " %s and not has(old(self.traces), frame) and (not bool(self.sample_rate) or draw(0) == 0)"
                  " and self.traces is dict_set_(old(self.traces), frame, lookup(self.traces, frame))"
                  " and code_of(lookup(self.traces, frame).func) is code_of(frame))" % _ADMIT,
    # C18 faithfulness: an entry is only ever created when the call starts.
    # carve-out (known finding C18-midlife-pickup): cause in {resume, throw} with the frame unknown to the tracer
    "post:entry-at-start": "implies(no_fault() and event == 'call' and self.traces is not old(self.traces) and not (cause(frame) is CAUSE_resume or cause(frame) is CAUSE_throw),"
                           " cause(frame) is CAUSE_start)",
    "post:call-no-log": "implies(event == 'call', effects() is old(effects())"
                        " and forall_v(lambda t: implies(preexisting(t), t.yield_type is old(t.yield_type) and t.return_type is old(t.return_type))))",
}
for _k, _v in _RET_POSTS.items():
    _CALL_POSTS[_k.replace("post:", "post:ev-")] = "implies(no_fault() and event == 'return' and %s, %s)" % (_ADMIT, _v)
contract("monkeytype.tracing:CallTracer.__call__", props=["C02", "C03", "C17", "C18"], theories=TH, pure=False,
         modifies=["traces", "cache", "func", "arg_types", "return_type", "yield_type"], effects="log",
         params={"self": "Tracer", "frame": "Frame", "event": "strp", "arg": "Val"}, result="Tracer",
         requires={"protocol": "event_matches(frame, event)", "k-int": "self.max_typed_dict_size is not None",
                   "unwind-arg": "implies(cause(frame) is CAUSE_unwind, arg is None)", "arg-wf": "wf_val(arg)", "locals-wf": "forall_v(lambda n: implies(has(locals_of(frame), n), wf_val(lookup(locals_of(frame), n))))",
                   "rate": "self.sample_rate is None or self.sample_rate >= 0",
                   "trace-wf": "implies(has(self.traces, frame), lookup(self.traces, frame) is not None and lookup(self.traces, frame).return_type is None)",
                   "cache-wf": _CACHE_WF},
         ensures=_CALL_POSTS)

contract("monkeytype.tracing:trace_calls", props=["C03", "C06", "C18", "C17"], theories=TH, pure=True, hide="*",
         params={"logger": "Logger", "max_typed_dict_size": "Opt[int]", "code_filter": "Opt[Filter]", "sample_rate": "Opt[int]"}, result="none",
         # C18 / C17 / C06: while the block runs, the installed profiler is a fresh tracer carrying exactly the given logger, size limit, filter and sampling rate
         at_yield={"body:installed": "profiler() is not None and not preexisting(profiler())",
                   "body:logger": "tag_(profiler(), 'Tracer').logger is logger", "body:rate": "tag_(profiler(), 'Tracer').sample_rate is sample_rate",
                   "body:filter": "tag_(profiler(), 'Tracer').should_trace is code_filter", "body:k": "tag_(profiler(), 'Tracer').max_typed_dict_size is max_typed_dict_size",
                   "body:no-state": "len(tag_(profiler(), 'Tracer').traces) == 0"},
         ensures={"post:restore": "profiler() is old(profiler())",
                  "post:flush-once": "effects() is append(L_ghost_body_effects, tup('flush', logger))"},
         ensures_exc={"exc:restore": "profiler() is old(profiler())",
                      "exc:flush-once": "effects() is append(L_ghost_body_effects, tup('flush', logger))"},
         # carve-out (known finding C03-flush-raises): an exception raised by logger.flush() itself propagates out of the
         # with-block (the profiler has been restored and flush was called once); no other exception can originate here
         raises={"Exception": None})

# ---- function lookup (C02: "attributed to the function whose code ran")
contract("monkeytype.tracing:_has_code", props=["C02", "C03"], theories=TH + ["cli"],
         # carve-out (known finding C03-has-code-getattr): getattr(cand, "__code__"/"__wrapped__", None) runs __getattribute__ / __getattr__ of
         # candidates that are not genuine functions (callables found in the locals of previous frames, module globals named like the function)
         carve={"safe:effect:getattr": "C03-has-code-getattr"},
         params={"func": "Opt[Callee]", "code": "Code"}, result="Opt[Callee]",
         ensures={"post:code": "implies(result is not None, callee_code(result) is code)",
                  "post:found-direct": "implies(func is not None and callee_code(func) is code, result is func)"},
         loops={0: {"inv": {"head": "func is entry('func') or entry('func') is None or callee_code(entry('func')) is not code"}}},
         note="termination of the __wrapped__ walk is not claimed (a cyclic chain loops in the real code as well)")


contract("monkeytype.tracing:get_func_in_mro", props=["C02", "C03"], theories=TH + ["cli"],
         params={"obj": "Val", "code": "Code"}, result="Opt[Callee]",
         ensures={"post:code": "implies(result is not None, callee_code(result) is code)"})

contract("monkeytype.tracing:get_previous_frames", props=["C02"], theories=TH, definitional=["post:def"],
         params={"frame": "Opt[Frame]"}, result="Seq[Frame]",
         # the frame and its callers, innermost first; termination is the finiteness of the interpreter's stack (not claimed)
         ensures={"post:def": "result is frames_from(frame)", "post:frames": "forall(result, lambda f: f is not None)",
                  "post:first": "implies(frame is not None, len(result) > 0 and nth(result, 0) is frame)"},
         loops={0: {"inv": {"frames": "forall(L_yielded, lambda f: f is not None)",
                            "first": "implies(entry('frame') is not None, (len(L_yielded) == 0 and frame is entry('frame')) or (len(L_yielded) > 0 and nth(L_yielded, 0) is entry('frame')))"},
                    "tags": {"frame": "Opt[Frame]"}}},
         note="termination of the f_back walk is the finiteness of the interpreter's stack")

contract("monkeytype.tracing:get_locals_from_previous_frames", props=["C02"], theories=TH, definitional=["post:def"],
         params={"frame": "Frame"}, result="Seq[Callee]",
         ensures={"post:def": "result is prev_locals(frame)",
                  # nothing but values of the locals of the frame and of its callers
                  "post:only-locals": "forall_v(lambda v: implies(has(result, v), exists(range_(0, len(frames_from(frame))), lambda j: has(values_(locals_of(nth(frames_from(frame), j))), v))))"},
         loops={0: {"iter": "get_previous_frames(frame)",
                    "inv": {"only-locals": "forall_v(lambda v: implies(has(L_yielded, v), exists(range_(0, _i), lambda j: has(values_(locals_of(nth(_seq, j))), v))))"}}},
         note="generator over frame.f_back chains: the values of the locals of the frame and of all its callers (defines prev_locals; proved: nothing raises, no operation on a program value)")

contract("monkeytype.tracing:get_func", props=["C02", "C03"], theories=TH + ["cli"],
         params={"frame": "Frame"}, result="Opt[Func]",
         # attributed to the function whose code ran: whatever the four lookup stages find has exactly the frame's code object
         ensures={"post:code": "implies(result is not None, callee_code(result) is code_of(frame))"},
         loops={0: {"iter": "frame.f_globals.values()", "inv": {"none-yet": "func is None or callee_code(func) is code_of(frame)"}},
                1: {"iter": "get_locals_from_previous_frames(frame)", "inv": {"none-yet": "func is None or callee_code(func) is code_of(frame)"}},
                "tags": {"func": "Opt[Callee]"}})


contract("monkeytype:trace", props=["C06", "C17", "C18", "C01"], theories=TH + ["cli"],
         params={"config": "Opt[Config]"}, result="CM",
         # the configured logger, filter, sampling rate and TypedDict size limit reach the tracer unchanged
         ensures={"post:threading": "result is trace_calls(config_logger(ite(config is None, default_config, config)), config_k(ite(config is None, default_config, config)),"
                                    " config_filter(ite(config is None, default_config, config)), config_rate(ite(config is None, default_config, config)))"})
