"""Sidecar contracts for the type rewriters of monkeytype/typing.py (C07, C04, C06).
One contract text per method *name* (behavioural subtyping by construction): every override is verified against the
same widening contract its base declares, so a dynamic `self.rewrite_X(t)` may use it whatever the instance's class."""
from pyvc.registry import contract

TH = ["types", "values"]
P = "monkeytype.typing:"
W = "forall_val(lambda v: implies(mem(v, {x}), mem(v, result)))"
ELL = "(({x} is ELLIPSIS_) == (result is ELLIPSIS_))"
# carve-out (known finding C07-name-dispatch): a plain class whose __name__ equals a handler suffix is routed to that handler
NOCLASH = "implies(is_class({x}) and kind({x}) is K_Class, not is_dispatch_name(cname({x})))"
WF = "wf_rw({x})"
TDS = "forall_int(lambda k: implies(td_okd({x}, k), td_okd(result, k)))"


def rw_contract(target, param, kinds=None, rank=1, extra_req=None, loops=None, hints=None, raises=None, extra_ens=None, props=None, mode="proved", note="", assumes=None, in_scc=True):
    req = {"wf": WF.format(x=param)}
    if kinds:
        req["kind"] = " or ".join("kind(%s) is K_%s" % (param, k) for k in kinds)
    if extra_req:
        req.update(extra_req)
    # C06: a rewriter never creates or enlarges a TypedDict node (every node of the result is within any limit the input was within)
    ens = {"post:widen": W.format(x=param), "post:wf": "wf_rw(result)", "post:ellipsis": ELL.format(x=param), "post:td-size": TDS.format(x=param)}
    if extra_ens:
        ens.update(extra_ens)
    return contract(P + target, props=props or ["C07", "C04", "C01"], theories=TH, scc="rewrite" if in_scc else None, decreases=["depth(%s)" % param, str(rank)] if in_scc else None,
                    params={"self": "Rewriter", param: "Ty"}, result="Ty", requires=req, ensures=ens, loops=loops or {}, hints=hints or {},
                    raises=raises or {}, mode=mode, note=note, assumes=assumes or {})


# ---- TypeRewriter's leaf hooks (exact)
contract(P + "TypeRewriter.generic_rewrite", props=["C07"], theories=TH, params={"self": "Rewriter", "typ": "Ty"}, result="Ty",
         ensures={"post:def": "result is typ"})
contract(P + "TypeRewriter.rewrite_container_type", props=["C07"], theories=TH, params={"self": "Rewriter", "container_type": "Ty"}, result="Ty",
         ensures={"post:def": "result is container_type"})
contract(P + "TypeRewriter.rewrite_malformed_container", props=["C07"], theories=TH, params={"self": "Rewriter", "container": "Ty"}, result="Ty",
         ensures={"post:def": "result is container"})
contract(P + "TypeRewriter.rewrite_type_variable", props=["C07"], theories=TH, params={"self": "Rewriter", "type_variable": "Ty"}, result="Ty",
         ensures={"post:def": "result is type_variable"})
contract(P + "TypeRewriter.make_builtin_tuple", props=["C07"], theories=TH, params={"self": "Rewriter", "elements": "Seq[Ty]"}, result="Seq[Ty]",
         ensures={"post:def": "result is elements"})
contract(P + "TypeRewriter.make_container_type", props=["C07"], theories=TH, params={"self": "Rewriter", "container_type": "Ty", "element": "Seq[Ty]"}, result="Ty",
         requires={"arity": "subscript_ok(container_type, element)"},
         ensures={"post:def": "result is subscript(container_type, element)"})
contract(P + "TypeRewriter.make_anonymous_typed_dict", props=["C07"], theories=TH,
         params={"self": "Rewriter", "required_fields": "Dict[str,Ty]", "optional_fields": "Dict[str,Ty]"}, result="Ty",
         requires={"disjoint": "forall(required_fields, lambda key: not has(optional_fields, key))"},
         ensures={"post:def": "result is TD_(ite(required_fields is None or len(required_fields) == 0, EMPTY_DICT_, required_fields),"
                              " ite(optional_fields is None or len(optional_fields) == 0, EMPTY_DICT_, optional_fields))"})

# ---- the generic traversal
# carve-out (known finding C07-name-dispatch): no plain class met by a rewriter is *named* like a handler suffix (Union, Dict, Generator, ...)
NO_CLASH = {"no-class-named-like-a-handler": "forall_v(lambda c: implies(is_class(c) and kind(c) is K_Class, not is_dispatch_name(cname(c))))"}
rw_contract("GenericTypeRewriter.rewrite", "typ", rank=2, assumes=NO_CLASH)
contract(P + "GenericTypeRewriter._rewrite_container", props=["C07", "C04", "C01"], theories=TH, scc="rewrite", decreases=["depth(container)", "0"],
         params={"self": "Rewriter", "cls": "Ty", "container": "Ty"}, result="Ty",
         requires={"wf": WF.format(x="container"),
                   "kind": "kind(container) is K_List or kind(container) is K_Set or kind(container) is K_Dict or kind(container) is K_DefaultDict or kind(container) is K_Tuple"
                           " or kind(container) is K_TupleVar or kind(container) is K_Generator or kind(container) is K_Union",
                   "ctor": "cls is ctor_of(container)"},
         ensures={"post:widen": W.format(x="container"), "post:wf": "wf_rw(result)", "post:ellipsis": "result is not ELLIPSIS_", "post:td-size": TDS.format(x="container")})
for name, kinds in (("Dict", ["Dict"]), ("DefaultDict", ["DefaultDict"]), ("List", ["List"]), ("Set", ["Set"]), ("Tuple", ["Tuple", "TupleVar"]), ("Generator", ["Generator"]), ("Union", ["Union"])):
    rw_contract("GenericTypeRewriter.rewrite_" + name, {"Dict": "dct", "DefaultDict": "dct", "List": "lst", "Set": "st", "Tuple": "tup", "Generator": "generator", "Union": "union"}[name], kinds=kinds)
rw_contract("GenericTypeRewriter.rewrite_anonymous_TypedDict", "typed_dict", kinds=["TD"], rank=0,
            hints={"req": "forall(td_req(typed_dict), lambda k: has(td_req(result), k)"
                          " and forall_val(lambda v: implies(mem(v, lookup(td_req(typed_dict), k)), mem(v, lookup(td_req(result), k)))))"})
rw_contract("GenericTypeRewriter.rewrite_TypedDict", "typed_dict", kinds=["TD"], rank=1,
            note="named TypedDicts are never inferred; the branch that rebuilds one is outside the precondition")

# ---- shipped rewriters
_EMPTY = "(has_args_({t}) and len(args({t})) > 0 and forall(args({t}), lambda e: e is ANY))"
_SAME = "(({o} is UNION_BARE or is_galias({o}) or is_special({o})) and origin({o}) is origin({t}))"
_RED = "(" + _EMPTY.format(t="{t}") + " and exists({ms}, lambda o: " + _SAME.format(o="o", t="{t}") + " and not " + _EMPTY.format(t="o") + "))"
contract(P + "RemoveEmptyContainers._is_empty", props=["C07"], theories=TH, params={"self": "Rewriter", "typ": "Ty"}, result="raw",
         requires={"wf": WF.format(x="typ")},
         ensures={"post:def": "bool(result) == " + _EMPTY.format(t="typ")})
contract(P + "RemoveEmptyContainers._is_redundant", props=["C07"], theories=TH, params={"self": "Rewriter", "typ": "Ty", "members": "Seq[Ty]"}, result="raw",
         requires={"wf": WF.format(x="typ"), "members-wf": "forall(members, lambda m: wf_rw(m) and m is not ELLIPSIS_)"},
         # C07 trigger: an empty container is dropped only next to a non-empty container of the same kind
         ensures={"post:def": "bool(result) == " + _RED.format(t="typ", ms="members")})
contract(P + "RemoveEmptyContainers.rewrite_Union", props=["C07", "C01"], theories=TH, scc="rewrite", decreases=["depth(union)", "1"],
         params={"self": "Rewriter", "union": "Ty"}, result="Ty",
         requires={"wf": "wf_rw(union)", "kind": "kind(union) is K_Union"},
         ensures={
             "post:wf": "wf_rw(result)", "post:ellipsis": "result is not ELLIPSIS_", "post:td-size": TDS.format(x="union"),
             # every member that is kept is widened into the result ...
             "post:kept": "forall(args(union), lambda m: implies(not " + _RED.format(t="m", ms="args(union)") + ","
                          " forall_val(lambda v: implies(mem(v, m), mem(v, result)))))",
             # ... and a member is dropped only if it is an empty container C[Any..] with a non-empty same-kind sibling (which is kept)
             "post:dropped-has-sibling": "forall(args(union), lambda m: implies(" + _RED.format(t="m", ms="args(union)") + ","
                                         " exists(args(union), lambda o: " + _SAME.format(o="o", t="m") + " and not " + _EMPTY.format(t="o") + ")))",
         },
         note="the plain widening clause is NOT claimed for this class: dropping C[Any] next to C[T] narrows under the set semantics of Any and is only "
              "value-preserving relative to observed values (C[Any] is inferred from empty containers only, C05); decided by the bounded tier")
rw_contract("RewriteConfigDict.rewrite_Union", "union", kinds=["Union"],
            loops={0: {"iter": "union.__args__",
                       "inv": {"dicts": "forall(range_(0, _i), lambda j: kind(nth(args(union), j)) is K_Dict and nth(args(nth(args(union), j)), 0) is key_type)",
                               "key": "implies(_i > 0, key_type is not None and wf_rw(key_type) and key_type is not ELLIPSIS_)",
                               "vals-wf": "forall(range_(0, _i), lambda j: wf_rw(nth(value_types, j)) and nth(value_types, j) is not ELLIPSIS_)",
                               "vals-len": "len(value_types) == _i",
                               "vals": "forall(range_(0, _i), lambda j: nth(value_types, j) is nth(args(nth(args(union), j)), 1))"}},
                   "tags": {"value_types": "Seq[Ty]", "key_type": "Opt[Ty]"}})
rw_contract("RewriteLargeUnion.rewrite_Union", "union", kinds=["Union"], extra_req={"max": "self.max_union_len >= 0"},
            loops={0: {"iter": "inspect.getmro(union.__args__[0])",
                       "inv": {"true": "true"}}})
contract(P + "RewriteLargeUnion._rewrite_to_tuple", props=["C07"], theories=TH, params={"self": "Rewriter", "union": "Ty"}, result="Opt[Ty]",
         requires={"wf": WF.format(x="union"), "kind": "kind(union) is K_Union"},
         ensures={"post:widen": "implies(result is not None, " + W.format(x="union") + ")", "post:wf": "implies(result is not None, wf_rw(result) and result is not ELLIPSIS_)",
                  "post:td-size": "implies(result is not None, " + TDS.format(x="union") + ")"},
         loops={0: {"iter": "union.__args__",
                    "inv": {"members-wf": "forall(args(union), lambda m: wf_rw(m) and m is not ELLIPSIS_)",
                            "tuples": "forall(range_(0, _i), lambda j: kind(nth(args(union), j)) is K_Tuple or kind(nth(args(union), j)) is K_TupleVar)",
                            "value": "implies(_i > 0, value_type is not None and wf_rw(value_type) and value_type is not ELLIPSIS_)",
                            "td": "forall_int(lambda k: implies(td_okd(union, k) and _i > 0, td_okd(value_type, k)))",
                            "elems": "forall(range_(0, _i), lambda j: forall(args(nth(args(union), j)), lambda e: e is value_type))"}},
                "tags": {"value_type": "Opt[Ty]"}})
rw_contract("RewriteAnonymousTypedDictToDict.rewrite_anonymous_TypedDict", "typed_dict", kinds=["TD"], rank=0,
            hints={"values-left": "implies(kind(result) is K_Dict and nth(args(result), 0) is STR, forall(range_(0, len(td_req(typed_dict))), lambda j: nth(L_all_value_types, j) is lookup(td_req(typed_dict), nth(td_req(typed_dict), j))))",
                   "values-right": "implies(kind(result) is K_Dict and nth(args(result), 0) is STR, forall(range_(0, len(td_opt(typed_dict))), lambda j: nth(L_all_value_types, len(values_(td_req(typed_dict))) + j) is lookup(td_opt(typed_dict), nth(td_opt(typed_dict), j))))",
                   "values-types-left": "implies(kind(result) is K_Dict and nth(args(result), 0) is STR, forall(range_(0, len(td_req(typed_dict))), lambda j: wf_rw(nth(L_all_value_types, j)) and nth(L_all_value_types, j) is not ELLIPSIS_))",
                   "values-types": "implies(kind(result) is K_Dict and nth(args(result), 0) is STR, forall(L_all_value_types, lambda t: wf_rw(t) and t is not ELLIPSIS_))",
                   "req-covered": "forall(td_req(typed_dict), lambda k: forall_val(lambda v: implies(mem(v, lookup(td_req(typed_dict), k)), mem(v, nth(args(result), 1)))))",
                   "opt-covered": "forall(td_opt(typed_dict), lambda k: forall_val(lambda v: implies(mem(v, lookup(td_opt(typed_dict), k)), mem(v, nth(args(result), 1)))))",
                   "shape": "kind(result) is K_Dict and (nth(args(result), 0) is STR or nth(args(result), 0) is ANY)"})
rw_contract("RewriteGenerator.rewrite_Generator", "typ", kinds=["Generator"])
_SUPER = "forall_val(lambda v: implies(mem(v, {c}), mem(v, {x})))"
contract(P + "RewriteMostSpecificCommonBase._compute_bases", props=["C07"], theories=TH, params={"self": "Rewriter", "klass": "Ty"}, result="Seq[Ty]",
         requires={"class": "is_class(klass)"},
         # every listed base is a plain class that admits every instance of klass (klass itself comes last)
         ensures={"post:bases": "forall(result, lambda x: is_class(x) and (kind(x) is K_Class or x is klass) and " + _SUPER.format(c="klass", x="x") + ")"},
         loops={0: {"inv": {"cur": "is_class(curr_klass) and (kind(curr_klass) is K_Class or curr_klass is klass) and " + _SUPER.format(c="klass", x="curr_klass"),
                            "bases": "forall(bases, lambda x: is_class(x) and (kind(x) is K_Class or x is klass) and " + _SUPER.format(c="klass", x="x") + ")"},
                    "decreases": "cdepth(curr_klass)"},
                "tags": {"bases": "Seq[Ty]", "curr_klass": "Ty"}})
contract(P + "RewriteMostSpecificCommonBase._merge_common_bases", props=["C07"], theories=TH,
         params={"self": "Rewriter", "first_bases": "Seq[Ty]", "second_bases": "Seq[Ty]"}, result="Seq[Ty]",
         ensures={"post:common": "forall(result, lambda x: has(first_bases, x) and has(second_bases, x))"},
         loops={0: {"iter": "zip(first_bases, second_bases)", "inv": {"common": "forall(merged_bases, lambda x: has(first_bases, x) and has(second_bases, x))"}},
                "tags": {"merged_bases": "Seq[Ty]"}})
rw_contract("RewriteMostSpecificCommonBase.rewrite_Union", "union", kinds=["Union"],
            # C07 trigger: only unions of plain classes are replaced by a common base
            extra_ens={"post:trigger": "implies(result is not union, forall(args(union), lambda m: is_class(m)))"},
            hints={"each-has": "implies(result is not union, forall(range_(0, len(args(union))), lambda j: forall_v(lambda x: implies(has(nth(L_all_bases, j), x), is_class(x) and (kind(x) is K_Class or x is nth(args(union), j)) and "
                               + _SUPER.format(c="nth(args(union), j)", x="x") + "))))",
                   "res-in-all": "implies(result is not union, forall(range_(0, len(args(union))), lambda j: has(nth(L_all_bases, j), result)))",
                   "res-super": "implies(result is not union, forall(range_(0, len(args(union))), lambda j: " + _SUPER.format(c="nth(args(union), j)", x="result") + "))",
                   "res-class": "implies(result is not union, kind(result) is K_Class or exists(args(union), lambda m: m is result))"},
            loops={0: {"iter": "klasses",
                       "inv": {"len": "len(all_bases) == _i",
                               "each": "forall(range_(0, _i), lambda j: forall(nth(all_bases, j), lambda x: is_class(x) and (kind(x) is K_Class or x is nth(args(union), j)) and "
                                       + _SUPER.format(c="nth(args(union), j)", x="x") + "))"}},
                   # functools.reduce(self._merge_common_bases, all_bases): everything accumulated so far is a base of each of the first _i members
                   "reduce0": {"inv": {"common": "forall(_acc, lambda x: forall(range_(0, _i), lambda j: has(nth(_seq, j), x)))"}},
                   "tags": {"all_bases": "Seq[Seq[Ty]]"}})
rw_contract("NoOpRewriter.rewrite", "typ", rank=2)
rw_contract("ChainedRewriter.rewrite", "typ", rank=3, in_scc=False, extra_req={"members": "forall(self.rewriters, lambda r: r is not None)", },
            loops={0: {"iter": "self.rewriters", "inv": {"widen": "forall_val(lambda v: implies(mem(v, old_typ()), mem(v, typ)))",
                                                        "td": "forall_int(lambda k: implies(td_okd(old_typ(), k), td_okd(typ, k)))",
                                                        "wf": "wf_rw(typ)", "ell": "(typ is ELLIPSIS_) == (old_typ() is ELLIPSIS_)"}}})
