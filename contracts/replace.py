"""Sidecar contracts for ReplaceTypedDictsWithStubs (monkeytype/stubs.py) - C11 / C06 / C01: anonymous TypedDicts become forward references to generated class stubs.
The class inherits the traversal of GenericTypeRewriter but is *not* a behavioural subtype of the shipped rewriters (a forward reference is not a widening of a TypedDict), so
the inherited methods are verified a second time against the contracts stated here (class-specialised targets: `ReplaceTypedDictsWithStubs.rewrite` is the body of
GenericTypeRewriter.rewrite with `self` an instance of this class)."""
from pyvc.registry import contract

TH = ["types", "values", "replace"]
P = "monkeytype.stubs:ReplaceTypedDictsWithStubs."
REC = ("monkeytype.stubs:ClassStub",)
NO_CLASH = {"no-class-named-like-a-handler": "forall_v(lambda c: implies(is_class(c) and kind(c) is K_Class, not is_dispatch_name(cname(c))))"}

_ADDED = "has(self.stubs, s) and not has(old(self.stubs), s)"      # the class stubs a call adds (the list only ever grows: post:stubs-kept)
_KEPT = "forall_v(lambda s: implies(has(old(self.stubs), s), has(self.stubs, s)))"
_SIZE = "1 <= len(cs_attrs({s})) and len(cs_attrs({s})) <= k"


def clauses(x):
    """What every rewrite-like method of the class ensures for its type argument x."""
    return {
        # the result is an annotation type: well formed, with forward references where TypedDicts were
        "post:wf": "wf_ann(result)", "post:ellipsis": "(%s is ELLIPSIS_) == (result is ELLIPSIS_)" % x,
        # the stub list only grows ...
        "post:stubs-kept": _KEPT,
        # ... and (C06) every class stub added has between 1 and k fields whenever every TypedDict node of the argument has
        "post:stubs-size": "forall_int(lambda k: implies(td_okd(%s, k), forall_v(lambda s: implies(%s, %s))))" % (x, _ADDED, _SIZE.format(s="s")),
        # C11: no anonymous TypedDict is left in the result (k = 0: no TypedDict node at all), provided TypedDicts sit only where the traversal goes
        "post:replaced": "implies(tdpos(%s), td_okd(result, 0))" % x,
        "frame:hint": "self._class_name_hint is old(self._class_name_hint)",
    }


def rp_contract(name, param, kinds=None, rank=1, **kw):
    req = {"wf": "wf_rw(%s)" % param, "td-nonempty": "td_ne(%s)" % param}
    if kinds:
        req["kind"] = " or ".join("kind(%s) is K_%s" % (param, k) for k in kinds)
    req.update(kw.pop("extra_req", {}))
    return contract(P + name, props=["C11", "C06", "C01"], theories=TH, scc="replace", decreases=["depth(%s)" % param, str(rank)], records=REC, pure=False,
                    modifies=["Replacer.stubs"], params={"self": "Replacer", param: "Ty"}, result="Ty", requires=req, ensures=clauses(param), **kw)


rp_contract("rewrite", "typ", rank=3, assumes=NO_CLASH)
for name, kinds in (("Dict", ["Dict"]), ("DefaultDict", ["DefaultDict"]), ("List", ["List"]), ("Set", ["Set"]), ("Tuple", ["Tuple", "TupleVar"]), ("Generator", ["Generator"]), ("Union", ["Union"])):
    rp_contract("rewrite_" + name, {"Dict": "dct", "DefaultDict": "dct", "List": "lst", "Set": "st", "Tuple": "tup", "Generator": "generator", "Union": "union"}[name], kinds=kinds, rank=2)
rp_contract("rewrite_TypedDict", "typed_dict", kinds=["TD"], rank=2)

_KINDS = ("kind(container) is K_List or kind(container) is K_Set or kind(container) is K_Dict or kind(container) is K_DefaultDict or kind(container) is K_Tuple"
          " or kind(container) is K_TupleVar or kind(container) is K_Generator or kind(container) is K_Union")
contract(P + "_rewrite_container", props=["C11", "C06", "C01"], theories=TH, scc="replace", decreases=["depth(container)", "1"], records=REC, pure=False, modifies=["Replacer.stubs"],
         params={"self": "Replacer", "cls": "Ty", "container": "Ty"}, result="Ty",
         requires={"wf": "wf_rw(container)", "td-nonempty": "td_ne(container)", "kind": _KINDS, "ctor": "cls is ctor_of(container)"},
         ensures=dict(clauses("container"), **{"post:ellipsis": "result is not ELLIPSIS_"}),
         loops={0: {"iter": "stub_lists",
                    "inv": {"kept": _KEPT,
                            "size": "forall_int(lambda k: implies(td_okd(container, k), forall_v(lambda s: implies(%s, %s))))" % (_ADDED, _SIZE.format(s="s")),
                            "hint": "self._class_name_hint is old(self._class_name_hint)",
                            # facts about the two columns of the unzipped comprehension (constant during the loop; established where the comprehension is built)
                            "cols": "len(elems) == len(args) and len(stub_lists) == len(args) and len(args) > 0",
                            "lists-size": "forall(range_(0, len(args)), lambda q: forall_int(lambda k: implies(td_okd(nth(args, q), k),"
                                          " forall_v(lambda s: implies(has(nth(stub_lists, q), s), %s)))))" % _SIZE.format(s="s"),
                            "elems-wf": "forall(range_(0, len(args)), lambda q: wf_ann(nth(elems, q)) and (nth(elems, q) is ELLIPSIS_) == (nth(args, q) is ELLIPSIS_))",
                            "elems-replaced": "forall(range_(0, len(args)), lambda q: implies(tdpos(nth(args, q)), td_okd(nth(elems, q), 0)))"},
                    "tags": {"elems": "Seq[Ty]", "stub_lists": "Seq[seq]"}}})

_F = "lookup(fields, nth(fields, {j}))"
contract(P + "_add_typed_dict_class_stub", props=["C11", "C06", "C01"], theories=TH, scc="replace", decreases=["mdepth(values_(fields))", "6"], records=REC, pure=False, modifies=["Replacer.stubs"],
         params={"self": "Replacer", "fields": "Dict[str,Ty]", "class_name": "str", "base_class_name": "str", "total": "bool"}, result="none",
         requires={"fields-wf": "is_dictlike_(fields) and forall(fields, lambda n: wf_rw(lookup(fields, n)) and lookup(fields, n) is not ELLIPSIS_ and td_ne(lookup(fields, n)))"},
         ensures={
             "post:stubs-kept": _KEPT + " and len(self.stubs) >= 1",
             # the class stub of this TypedDict is added last, with one attribute per field, in field order, each typed by the field's rewritten type
             "post:own-stub": "len(cs_attrs(nth(self.stubs, len(self.stubs) - 1))) == len(fields)"
                              " and forall(range_(0, len(fields)), lambda j: at_name(nth(cs_attrs(nth(self.stubs, len(self.stubs) - 1)), j)) is nth(fields, j))",
             # every other stub added comes from a field type and is within the limit its TypedDict nodes are within
             "post:inner-size": "forall_int(lambda k: implies(td_okd_fields(fields, k),"
                                " forall_v(lambda s: implies(%s and s is not nth(self.stubs, len(self.stubs) - 1), %s))))" % (_ADDED, _SIZE.format(s="s")),
             "post:attr-types": "forall(range_(0, len(fields)), lambda j: wf_ann(at_typ(nth(cs_attrs(nth(self.stubs, len(self.stubs) - 1)), j))))",
             "frame:hint": "self._class_name_hint is old(self._class_name_hint)",
         },
         loops={0: {"iter": "fields.items()",
                    "inv": {"kept": _KEPT,
                            "attrs": "len(attribute_stubs) == _i and forall(range_(0, _i), lambda j: at_name(nth(attribute_stubs, j)) is nth(fields, j) and wf_ann(at_typ(nth(attribute_stubs, j))))",
                            "size": "forall_int(lambda k: implies(td_okd_fields(fields, k), forall_v(lambda s: implies(%s, %s))))" % (_ADDED, _SIZE.format(s="s")),
                            "hint": "self._class_name_hint is old(self._class_name_hint)"}},
                "tags": {"attribute_stubs": "Seq[AttrStub]"}})

rp_contract("rewrite_anonymous_TypedDict", "typed_dict", kinds=["TD"], rank=1,
            # (an empty TypedDict - never inferred, C06: between 1 and k keys - makes the code raise: excluded by td_ne)
            )

contract("monkeytype.stubs:ReplaceTypedDictsWithStubs.rewrite_and_get_stubs", props=["C11", "C06", "C01"], theories=TH, scc="replace", decreases=["depth(typ)", "5"], records=REC,
         params={"typ": "Ty", "class_name_hint": "str"}, result="seq",
         requires={"wf": "wf_rw(typ)", "td-nonempty": "td_ne(typ)"}, assumes=NO_CLASH,
         ensures={
             "post:pair": "len(result) == 2",
             "post:wf": "wf_ann(nth(result, 0))", "post:ellipsis": "(typ is ELLIPSIS_) == (nth(result, 0) is ELLIPSIS_)",
             # C06: every generated class stub has between 1 and k fields whenever every TypedDict node of the type has
             "post:stubs-size": "forall_int(lambda k: implies(td_okd(typ, k), forall_v(lambda s: implies(has(nth(result, 1), s), %s))))" % _SIZE.format(s="s"),
             # C11: the rewritten type has no TypedDict node left
             "post:replaced": "implies(tdpos(typ), td_okd(nth(result, 0), 0))",
         })

contract("monkeytype.stubs:get_typed_dict_class_name", props=["C11", "C12"], theories=TH, mode="assumed",
         params={"parameter_name": "str"}, result="str", ensures={"post:def": "result is td_class_name(parameter_name)"},
         note="PascalCase(name) + 'TypedDict__RENAME_ME__' via re.split / str.capitalize: text, outside the VC generator (the name is an uninterpreted function of the hint)")
