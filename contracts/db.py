"""Sidecar contracts for monkeytype/db/sqlite.py and db/base.py (C09)."""
from pyvc.registry import contract

TH = ["sql", "events", "types"]

contract("monkeytype.db.sqlite:make_query", props=["C09", "C14"], theories=TH,
         params={"table": "strp", "module": "strp", "qualname": "Opt[str]", "limit": "int"}, result="raw", hide="*",
         ensures={
             # exactly module m and a qualified name that starts with p, case-sensitively and without wildcards
             "post:where": "forall_str2(lambda rm, rq: sql_where(result[0], result[1], rm, rq) =="
                           " (rm == module and (qualname is None or prefixof(unboxs(qualname), rq))))",
             "post:distinct": "sql_distinct_rows(result[0])",
             "post:columns": "sql_columns(result[0]) == ['module', 'qualname', 'arg_types', 'return_type', 'yield_type']",
             "post:limit": "sql_limit_is(result[0], result[1], limit)",
             "post:table": "sql_table_is(result[0], table)",
         })

_WFT = ("is_dictlike_(trace.arg_types) and forall(trace.arg_types, lambda n: wf_st(lookup(trace.arg_types, n)))"
        " and (trace.return_type is None or wf_st(trace.return_type)) and (trace.yield_type is None or wf_st(trace.yield_type))")
_PRES = ("ite(trace.{f} is None, result.{f} is None, result.{f} is not None and is_str_(result.{f}) and unboxs(result.{f}) != 'null'"
         " and encodes(json_loads_(unboxs(result.{f})), trace.{f}))")
contract("monkeytype.encoding:CallTraceRow.from_trace", props=["C09", "C08"], theories=TH + ["cli", "values", "enc", "path"],
         params={"cls": "ClassOf:monkeytype.encoding:CallTraceRow", "trace": "Trace"}, result="Row",
         uses=["monkeytype.encoding:type_to_json"],
         # the types of the trace are (structurally) types the encoder understands
         requires={"wf-trace": _WFT},
         outside_pre="for a trace whose types the encoder does not understand, from_trace either raises an Exception or returns some row (only the definitional clauses apply)",
         ensures={"post:row": "result is ROW(trace)", "post:ok": "encodable(trace)",
                  # C08: the row carries the function's module and qualified name and the wire forms of the types; an absent return / yield is NULL (never the text 'null')
                  "post:module": "result.module is trace.func.__module__", "post:qualname": "result.qualname is trace.func.__qualname__",
                  "post:args": "is_str_(result.arg_types) and encodes_args(json_loads_(unboxs(result.arg_types)), trace.arg_types)",
                  "post:return": _PRES.format(f="return_type"), "post:yield": _PRES.format(f="yield_type")},
         raises={"Exception": "not encodable(trace)"},
         ensures_exc={"exc:never-for-well-formed": "false"},
         definitional=["post:row", "post:ok", "raises:Exception"],
         note="ROW(trace) and encodable(trace) are *defined* by this function (its result / whether it returns); C09 only needs that serialize_traces keeps exactly the traces for which it returns")

contract("monkeytype.encoding:serialize_traces", props=["C09"], theories=TH,
         params={"traces": "Seq[Trace]"}, result="Seq[Row]",
         ensures={"post:rows": "result is SER(traces, len(traces))"},
         loops={0: {"iter": "traces", "inv": {"rows": "L_yielded is SER(traces, _i)"}}},
         note="generator: the ghost sequence of yielded values is the result; a failure to serialise one trace is logged and skipped")

_VAL = ("len(nth(values, j)) == 6 and nth(nth(values, j), 1) is nth({rows}, j).module and nth(nth(values, j), 2) is nth({rows}, j).qualname"
        " and nth(nth(values, j), 3) is nth({rows}, j).arg_types and nth(nth(values, j), 4) is nth({rows}, j).return_type"
        " and nth(nth(values, j), 5) is nth({rows}, j).yield_type")
_PRE = "ite(conn_in_txn(self.conn, old(effects())), append(old(effects()), tup('rollback', self.conn)), old(effects()))"
contract("monkeytype.db.sqlite:SQLiteStore._discard_failed_transaction", props=["C09"], theories=TH, pure=False, effects="sql",
         params={"self": "SQLiteStore"}, result="none",
         # a transaction an earlier, failed operation left open is rolled back - never committed by what follows; otherwise nothing happens
         ensures={"post:discarded": "effects() is " + _PRE},
         ensures_exc={"exc:nothing": "effects() is old(effects()) and conn_in_txn(self.conn, old(effects()))"},
         raises={"sqlite3.Error": None})

contract("monkeytype.db.sqlite:SQLiteStore.add", props=["C09"], theories=TH, pure=False, effects="sql",
         params={"self": "SQLiteStore", "traces": "Seq[Trace]"}, result="none",
         ensures={
             # all of the batch's serialisable traces, in one transaction containing one executemany, nothing else written
             "post:one-transaction": "len(effects()) == len(old(effects())) + 3 and seq_prefix(effects(), len(old(effects()))) is_prefix_of old(effects())"
             if False else
             "effects() is append(append(append(" + _PRE + ", tup('begin', self.conn)),"
             " tup('executemany', self.conn, boxs(last_stmt()), last_params())), tup('commit', self.conn))",
             "post:statement": "sql_is_insert(last_stmt(), self.table, 6)",
             "post:batch-size": "len(last_params()) == len(SER(traces, len(traces)))",
             "post:batch-rows": "forall(range_(0, len(last_params())), lambda j: " + _VAL.format(rows="SER(traces, len(traces))").replace("values", "last_params()") + ")",
         },
         ensures_exc={"exc:rolled-back": "effects() is append(append(" + _PRE + ", tup('begin', self.conn)), tup('rollback', self.conn)) or (conn_in_txn(self.conn, old(effects())) and effects() is old(effects()))"},
         raises={"sqlite3.Error": None},
         loops={0: {"iter": "serialize_traces(traces)",
                    "inv": {"len": "len(values) == _i",
                            "rows": "forall(range_(0, _i), lambda j: " + _VAL.format(rows="_seq") + ")"}},
                "tags": {"values": "Seq[seq]"}})

contract("monkeytype.db.base:CallTraceStoreLogger.flush", props=["C09", "C03"], theories=TH, pure=False, modifies=["StoreLogger.traces"], effects="sql",
         params={"self": "StoreLogger"}, result="none",
         ensures={"post:cleared": "len(self.traces) == 0",
                  "post:one-add": "effects() is append(old(effects()), tup('store.add', self.store, old(self.traces)))"},
         raises={"Exception": None})

contract("monkeytype.db.sqlite:SQLiteStore.filter", props=["C09", "C14"], theories=TH, pure=False, effects="sql",
         params={"self": "SQLiteStore", "module": "strp", "qualname_prefix": "Opt[str]", "limit": "int"}, result="Seq[Row]",
         lets={"q": "make_query(unboxs(self.table), module, qualname_prefix, limit)"},
         ensures={
             # one read transaction executing exactly the query make_query builds for (table, m, p, n) ...
             "post:query": "effects() is append(append(append(" + _PRE + ", tup('begin', self.conn)),"
                           " tup('execute', self.conn, nth(q, 0), nth(q, 1))), tup('commit', self.conn))",
             # ... and the result is its rows, one thunk per row, fields in column order
             "post:count": "len(result) == len(fetched(L_ghost_eff_at_fetch))",
             "post:rows": "forall(range_(0, len(result)), lambda j: nth(result, j).module is nth(nth(fetched(L_ghost_eff_at_fetch), j), 0)"
                          " and nth(result, j).qualname is nth(nth(fetched(L_ghost_eff_at_fetch), j), 1)"
                          " and nth(result, j).arg_types is nth(nth(fetched(L_ghost_eff_at_fetch), j), 2)"
                          " and nth(result, j).return_type is nth(nth(fetched(L_ghost_eff_at_fetch), j), 3)"
                          " and nth(result, j).yield_type is nth(nth(fetched(L_ghost_eff_at_fetch), j), 4))",
         },
         assumes={"sqlite-row-arity": "forall_v(lambda e: forall(fetched(e), lambda r: len(r) == 5))"},
         note="assumed: SQLite returns one 5-tuple per row of a 5-column SELECT (make_query post:columns proves the column list)",
         raises={"sqlite3.Error": None})

contract("monkeytype.db.sqlite:create_call_trace_table", props=["C09"], theories=TH, pure=False, effects="sql", hide=["post:idempotent-ddl"],
         params={"conn": "Conn", "table": "strp"}, result="none",
         ensures={"post:one-transaction": "len(effects()) == len(old(effects())) + 4 and nth(effects(), len(old(effects()))) is tup('begin', conn) and last_effect_() is tup('commit', conn)",
                  "post:idempotent-ddl": "n_executed() == 2 and sql_is_ddl(executed(0)) and sql_is_ddl(executed(1))"},
         raises={"sqlite3.Error": None})

contract("monkeytype.db.sqlite:SQLiteStore.make_store", props=["C09"], theories=TH, pure=False, effects="sql",
         params={"cls": "ClassOf:monkeytype.db.sqlite:SQLiteStore", "connection_string": "str"}, result="SQLiteStore",
         # the connection keeps the sqlite3 module's default transaction control: `with conn:` around executemany is then one atomic transaction
         ensures={"post:default-transaction-control": "default_txn(result.conn)",
                  "post:path": "conn_path(result.conn) is connection_string",
                  "post:table": "result.table == 'monkeytype_call_traces'"},
         raises={"sqlite3.Error": None})

contract("monkeytype.db.sqlite:SQLiteStore.list_modules", props=["C09"], theories=TH, pure=False, effects="sql",
         params={"self": "SQLiteStore"}, result="Seq[str]",
         ensures={
             # one read transaction running SELECT module FROM <table> GROUP BY module: no WHERE / LIMIT, so every stored row's module takes part, each once
             "post:transaction": "len(effects()) == len(" + _PRE + ") + 3 and nth(effects(), len(" + _PRE + ")) is tup('begin', self.conn) and last_effect_() is tup('commit', self.conn)"
                                 " and forall(range_(0, len(" + _PRE + ")), lambda q: nth(effects(), q) is nth(" + _PRE + ", q))",
             "post:columns": "sql_columns(last_stmt()) == ['module']",
             "post:all-rows-distinct-modules": "sql_no_where(last_stmt()) and sql_distinct_rows(last_stmt())",
             "post:table": "sql_table_is(last_stmt(), unboxs(self.table))",
             # the listing is the (non-empty) module column of the rows the query returns, nothing else
             "post:only-fetched": "forall(result, lambda m: exists(fetched(L_ghost_eff_at_fetch), lambda row: nth(row, 0) is m and truthy_(m)))",
             "post:all-fetched": "forall(fetched(L_ghost_eff_at_fetch), lambda row: implies(truthy_(nth(row, 0)), has(result, nth(row, 0))))",
         },
         assumes={"sqlite-row-arity": "forall_v(lambda e: forall(fetched(e), lambda r: len(r) == 1))"},
         note="assumed: SQLite returns one 1-tuple per row of a 1-column SELECT (post:columns proves the column list)",
         raises={"sqlite3.Error": None})
