"""Sidecar contracts for monkeytype/config.py and db/base.py (C17, C06)."""
from pyvc.registry import contract

TH = ["path", "events", "types"]

contract("monkeytype.config:_startswith", props=["C17"], theories=TH,
         params={"a": "Path", "b": "Path"}, result="bool",
         ensures={"post:def": "result == under(a, b)"})

_F = "resolve(path_of(boxs(co_filename(code))))"
_REAL = "(strlen(co_filename(code)) > 0 and not prefixof('<', co_filename(code)))"
_MS = "str_split(env_var('MONKEYTYPE_TRACE_MODULES'), ',')"
_MATCH = "exists(%s, lambda m: m is stem({p}) or has(parts({p}), m))" % _MS
contract("monkeytype.config:default_code_filter", props=["C17"], theories=TH,
         params={"code": "Code"}, result="bool",
         ensures={
             # code without a real source file is never traced
             "post:synthetic": "implies(not %s, not result)" % _REAL,
             # default: traced iff outside every library root (stdlib, site-packages)
             "post:no-allow-list": "implies(%s and env_var('MONKEYTYPE_TRACE_MODULES') is None,"
                                   " result == (not exists(LIB_PATHS, lambda lp: under(%s, lp))))" % (_REAL, _F),
             # allow-list: traced iff a listed name is the module stem or a package component, wherever it is installed
             "post:allow-list-outside": "implies(%s and env_var('MONKEYTYPE_TRACE_MODULES') is not None and not exists(LIB_PATHS, lambda lp: under(%s, lp)),"
                                        " result == %s)" % (_REAL, _F, _MATCH.format(p=_F)),
             "post:allow-list-inside": "implies(%s and env_var('MONKEYTYPE_TRACE_MODULES') is not None,"
                                       " forall(range_(0, len(LIB_PATHS)), lambda i: implies(under(%s, nth(LIB_PATHS, i))"
                                       " and forall(range_(0, i), lambda j: not under(%s, nth(LIB_PATHS, j))),"
                                       " result == %s)))" % (_REAL, _F, _F, _MATCH.format(p="rel(%s, nth(LIB_PATHS, i))" % _F)),
         },
         loops={0: {"iter": "LIB_PATHS",
                    "inv": {"unchanged": "filename is %s" % _F,
                            "none-before": "forall(range_(0, _i), lambda j: not under(%s, nth(LIB_PATHS, j)))" % _F}}},
         note="@functools.lru_cache dropped: result is a function of the code object and of os.environ, assumed constant during a run")

contract("monkeytype.db.base:CallTraceStoreLogger.log", props=["C17", "C09"], theories=TH, pure=False, modifies=["StoreLogger.traces"],
         params={"self": "StoreLogger", "trace": "Trace"}, result="none",
         ensures={"post:main-dropped": "implies(func_module(trace.func) == '__main__', self.traces is old(self.traces))",
                  "post:appended": "implies(func_module(trace.func) != '__main__', self.traces is append(old(self.traces), trace))"})

# ---- the shipped defaults the properties name (a configuration class may override each of them; the tracer / CLI contracts are stated for any values)
_TH2 = ["cli", "types", "values", "events", "path"]
contract("monkeytype.config:Config.max_typed_dict_size", props=["C06"], theories=_TH2, params={"self": "Config"}, result="int",
         # C06: the default limit is zero - TypedDict generation is off unless a configuration turns it on
         ensures={"post:default-zero": "result == 0"})
contract("monkeytype.config:Config.sample_rate", props=["C18"], theories=_TH2, params={"self": "Config"}, result="Opt[int]",
         # C18: sampling is unset by default: every call is traced
         ensures={"post:default-unset": "result is None"})
contract("monkeytype.config:Config.code_filter", props=["C17"], theories=_TH2, params={"self": "Config"}, result="Opt[Filter]",
         ensures={"post:default-none": "result is None"})
contract("monkeytype.config:Config.query_limit", props=["C09", "C14"], theories=_TH2, params={"self": "Config"}, result="int",
         ensures={"post:default": "result == 2000"})
contract("monkeytype.config:Config.type_rewriter", props=["C07"], theories=_TH2, params={"self": "Config"}, result="Rewriter",
         ensures={"post:default-noop": "is_noop(result)"})
contract("monkeytype.config:DefaultConfig.code_filter", props=["C17"], theories=_TH2, params={"self": "Config"}, result="Filter",
         # C17: the default configuration filters with default_code_filter (proved against the path specification)
         ensures={"post:default-filter": "result is default_code_filter"})
contract("monkeytype.config:Config.trace_logger", props=["C17", "C09"], theories=_TH2 + ["sql"], pure=False,
         params={"self": "Config"}, result="StoreLogger",
         # the default logger is a fresh CallTraceStoreLogger on the configuration's own store, with nothing buffered: what it drops (__main__) and flushes is in its contracts
         ensures={"post:store-logger": "result is not None and not preexisting(result) and result.store is config_store(self) and len(result.traces) == 0"})
