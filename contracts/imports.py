"""Sidecar contracts for the import bookkeeping of monkeytype/stubs.py (C11: every name an annotation uses is provided by the import map)."""
from pyvc.registry import contract

TH = ["types", "enc", "cli", "path", "imports", "sig", "values"]
_G = "ite(has({d}, {m}), lookup({d}, {m}), EMPTY_SET_)"

contract("monkeytype.stubs:_get_import_for_qualname", props=["C11"], theories=TH,
         params={"qualname": "str"}, result="str",
         # nested classes are referred to through their root class: that is the name to import
         ensures={"post:def": "result is root_name(qualname)"})

contract("monkeytype.stubs:ImportMap.merge", props=["C11"], theories=TH,
         params={"self": "ImportMap", "other": "ImportMap"}, result="none",
         # afterwards the map provides exactly what either map provided (membership view of the in-place update; L_self is the receiver at return)
         ensures={"post:modules": "forall_v(lambda m: has(L_self, m) == (has(self, m) or has(other, m)))",
                  "post:names": "forall_v(lambda m, x: has(getd_set(L_self, m), x) == (has(getd_set(self, m), x) or has(getd_set(other, m), x)))"},
         loops={0: {"iter": "other.items()",
                    "inv": {"modules": "forall_v(lambda m: has(self, m) == (has(entry('self'), m) or exists(range_(0, _i), lambda q: nth(other, q) is m)))",
                            "names": "forall_v(lambda m, x: has(getd_set(self, m), x) == (has(getd_set(entry('self'), m), x)"
                                     " or (exists(range_(0, _i), lambda q: nth(other, q) is m) and has(getd_set(other, m), x))))"}},
                "tags": {"self": "ImportMap"}},
         requires={"dict": "is_dictlike_(other)"},
         note="callers see the same clauses through the ImportMap.merge handler of theories/imports_th.py (in-place mutation as a pure update of the receiver variable)")

contract("monkeytype.stubs:_get_optional_elem", props=["C11"], theories=TH,
         params={"anno": "Ty"}, result="Ty",
         requires={"wf": "wf_ann(anno) and anno is not ELLIPSIS_"},
         # the alternatives of the result are the alternatives of the Optional other than NoneType
         ensures={"post:members": "forall_v(lambda a: umember(result, a) == (umember(anno, a) and a is not NONETYPE))",
                  "post:single": "implies(len(args(anno)) == 2, exists(args(anno), lambda a: a is result and a is not NONETYPE))",
                  "post:union": "implies(len(args(anno)) >= 3, kind(result) is K_Union)",
                  "post:wf": "wf_ann(result) and result is not ELLIPSIS_ and result is not NONETYPE", "post:wf-rw": "implies(wf_rw(anno), wf_rw(result))",
                  "post:not-optional": "not (kind(result) is K_Union and umember(result, NONETYPE))",
                  "post:depth": "depth(result) <= depth(anno)"},
         hints={"distinct3": "implies(len(args(anno)) >= 3, nth(args(anno), 0) is not nth(args(anno), 1) and nth(args(anno), 0) is not nth(args(anno), 2) and nth(args(anno), 1) is not nth(args(anno), 2))",
                "kept": "forall(range_(0, len(args(anno))), lambda k: implies(nth(args(anno), k) is not NONETYPE, umember(result, nth(args(anno), k))))",
                "two-kept": "implies(len(args(anno)) >= 3, (umember(result, nth(args(anno), 0)) and umember(result, nth(args(anno), 1))) or (umember(result, nth(args(anno), 0)) and umember(result, nth(args(anno), 2)))"
                            " or (umember(result, nth(args(anno), 1)) and umember(result, nth(args(anno), 2))))"},
         raises={"TypeError": "not (kind(anno) is K_Union and umember(anno, NONETYPE))"})

_PROV = "forall_mn(lambda m, n: implies({cond}, provides({imp}, m, n)))"
_OPT = "(kind({a}) is K_Union and umember({a}, NONETYPE))"
contract("monkeytype.stubs:get_imports_for_annotation", props=["C11"], theories=TH, scc="imports",
         decreases=["depth(anno)", "ite(%s, 1, 0)" % _OPT.format(a="anno")],
         params={"anno": "Anno"}, result="ImportMap",
         requires={"wf": "anno is EMPTY or anno is ELLIPSIS_ or wf_ann(anno)"},
         # C11: every name the rendered annotation uses is in the import map, under the module that provides it
         ensures={"post:complete": _PROV.format(cond="uses(anno, m, n) and reveal_uses(anno)", imp="result"),
                  "post:not-none": "result is not None"},
         hints={"reveal": "reveal_uses(anno)", "reveal-elem": "reveal_uses(L_elem_type)",
                "elem-members": "forall(range_(0, len(args(anno))), lambda j: implies(nth(args(anno), j) is not NONETYPE, umember(L_elem_type, nth(args(anno), j))))",
                "elem-union-uses": "implies(len(args(anno)) >= 3, uses(L_elem_type, 'typing', 'Union'))",
                "elem-arg-uses": "forall(range_(0, len(args(anno))), lambda j: implies(nth(args(anno), j) is not NONETYPE, "
                                 + "forall_mn(lambda m, n: implies(uses(nth(args(anno), j), m, n), uses(L_elem_type, m, n)))))",
                "elem-uses": "forall_mn(lambda m, n: implies(uses(anno, m, n) and not (m == 'typing' and n == 'Optional'), uses(L_elem_type, m, n)))"},
         loops={0: {"iter": "elem_types",
                    "inv": {"own": "implies(kind(anno) is not K_Union, provides(imports, tmodule(anno), root_name(gname(anno))))",
                            "own-union": "implies(kind(anno) is K_Union, provides(imports, 'typing', 'Union'))",
                            "args": "forall(range_(0, _i), lambda j: " + _PROV.format(cond="uses(nth(args(anno), j), m, n)", imp="imports") + ")",
                            "not-none": "imports is not None"}},
                "tags": {"imports": "ImportMap"}})

_ANNO_WF = "({a} is EMPTY or {a} is ELLIPSIS_ or wf_ann({a}))"
contract("monkeytype.stubs:get_imports_for_signature", props=["C11"], theories=TH,
         params={"sig": "Sig"}, result="ImportMap",
         requires={"annos-wf": "forall(params_of(sig), lambda p: %s and panno(p) is not UNION_BARE) and %s" % (_ANNO_WF.format(a="panno(p)"), _ANNO_WF.format(a="ret_of(sig)"))},
         # C11: every name used by any parameter annotation, by the Optional[...] a None default adds, and by the return annotation is provided
         ensures={"post:params": "forall(params_of(sig), lambda p: " + _PROV.format(cond="uses(panno(p), m, n)", imp="result") + ")",
                  "post:optional-for-none-default": "forall(params_of(sig), lambda p: implies(pdefault(p) is None and not %s, provides(result, 'typing', 'Optional')))" % _OPT.format(a="panno(p)"),
                  "post:return": _PROV.format(cond="uses(ret_of(sig), m, n)", imp="result")},
         loops={0: {"iter": "sig.parameters.values()",
                    "inv": {"params": "forall(range_(0, _i), lambda j: " + _PROV.format(cond="uses(panno(nth(params_of(sig), j)), m, n)", imp="imports") + ")",
                            "optional": "forall(range_(0, _i), lambda j: implies(pdefault(nth(params_of(sig), j)) is None and not %s, provides(imports, 'typing', 'Optional')))" % _OPT.format(a="panno(nth(params_of(sig), j))"),
                            "not-none": "imports is not None"}},
                "tags": {"imports": "ImportMap"}})
