"""Sidecar contracts for monkeytype/typing.py: inference (C04, C05, C06) and rewriters (C07)."""
from pyvc.registry import contract

TH = ["types", "values"]

contract("monkeytype.compat:types_equal", props=["C04"], theories=TH,
         params={"typ": "Ty", "other_type": "Ty"}, result="bool",
         ensures={"post:def": "result == (typ is other_type)"},
         note="the logic identifies ==-equal typing objects (unions as sets, TypedDicts by fields)")

contract("monkeytype.compat:name_of_generic", props=["C04", "C07"], theories=TH, mode="assumed",
         params={"typ": "Ty"}, result="str",
         ensures={"post:def": "result is gname(typ)"},
         note="reads typing internals (_name, __origin__._name); validated by runtime/validate_theories.py")

contract("monkeytype.typing:is_list", props=["C04"], theories=TH,
         params={"typ": "Ty"}, result="bool",
         requires={"wf": "wf_ty(typ)"},
         ensures={"post:def": "result == (kind(typ) is K_List)"})

contract("monkeytype.typing:make_typed_dict", props=["C04", "C06", "C07"], theories=TH,
         params={"required_fields": "Opt[Dict[str,Ty]]", "optional_fields": "Opt[Dict[str,Ty]]"}, result="Ty", mode="assumed",
         ensures={"post:def": "result is TD_(ite(required_fields is None or len(required_fields) == 0, EMPTY_DICT_, required_fields),"
                              " ite(optional_fields is None or len(optional_fields) == 0, EMPTY_DICT_, optional_fields))"},
         note="builds nested mypy_extensions.TypedDict classes: the TD_ constructor of T-TYPES is its specification")

# monkeytype.typing:field_annotations reads __annotations__ of the two nested TypedDicts make_typed_dict builds: it is
# modelled by the theory observers td_req / td_opt (theories/types.py, assumed; validated by the bounded tier).

contract("monkeytype.typing:is_anonymous_typed_dict", props=["C04", "C06", "C07"], theories=TH, mode="assumed",
         params={"typ": "Ty"}, result="bool",
         ensures={"post:def": "result == (kind(typ) is K_TD)"},
         note="is_typed_dict(typ) and typ.__name__ == DUMMY_NAME; kind TD is defined as exactly that (T-TYPES)")

_SUP = "forall(types, lambda t: forall_val(lambda v: implies(mem(v, t), mem(v, result))))"
contract("monkeytype.typing:shrink_typed_dict_types", props=["C04", "C05", "C06"], theories=TH, mode="assumed",
         params={"typed_dicts": "Seq[Ty]", "max_typed_dict_size": "Opt[int]"}, result="Ty", scc="shrink", decreases=["mdepth(typed_dicts)", "0"],
         requires={"all-td": "forall(typed_dicts, lambda t: kind(t) is K_TD and wf_rw(t))", "nonempty": "len(typed_dicts) >= 1"},
         ensures={"post:super": "forall(typed_dicts, lambda t: forall_val(lambda v: implies(mem(v, t), mem(v, result))))",
                  "post:wf": "wf_rw(result) and result is not ELLIPSIS_ and result is not None"},
         note="bounded in this round (runtime/props/c04.py); invariant sketch in DESIGN Appendix A")

contract("monkeytype.typing:shrink_types", props=["C04", "C05", "C06", "C01"], theories=TH,
         params={"types": "Seq[Ty]", "max_typed_dict_size": "Opt[int]"}, result="Ty", scc="shrink", decreases=["mdepth(types)", "1"],
         requires={"wf": "forall(types, lambda t: wf_rw(t) and t is not ELLIPSIS_ and t is not None)"},
         hints={"rewritten-wf": "forall(L_all_dict_types, lambda t: wf_rw(t) and t is not ELLIPSIS_)"},
         ensures={"post:super": _SUP, "post:wf": "wf_rw(result) and result is not ELLIPSIS_", "post:not-none": "result is not None",
                  "post:empty": "implies(len(types) == 0, result is ANY)"},
         # C05: the literal Any is produced only for the empty input
         any_only_if="len(types) == 0")

_KOK = "(max_typed_dict_size is None or max_typed_dict_size >= 0)"
contract("monkeytype.typing:get_dict_type", props=["C04", "C05", "C06", "C03"], theories=TH,
         params={"dct": "Val", "max_typed_dict_size": "Opt[int]"}, result="Ty", scc="infer", decreases=["size(dct)", "0"],
         requires={"exact-dict": "cls_of(dct) is CLS_dict", "val-wf": "wf_val(dct)"},
         hints={"td-keys": "implies(kind(result) is K_TD, forall(dct, lambda k: has(td_req(result), k) and is_strval(k)))",
                "td-req": "implies(kind(result) is K_TD, forall(td_req(result), lambda k: has(dct, k) and mem(lookup(dct, k), lookup(td_req(result), k))))",
                "td-opt": "implies(kind(result) is K_TD, len(td_opt(result)) == 0)"},
         ensures={"post:mem": "mem(dct, result)", "post:wf": "wf_rw(result) and result is not ELLIPSIS_",
                  # C06 (top-level node): a TypedDict only for a non-empty dict whose keys are all strings, with at most k keys, all required; none for k = 0
                  "post:td-size": "implies(kind(result) is K_TD, len(dct) > 0 and (max_typed_dict_size is None or len(dct) <= max_typed_dict_size)"
                                  " and len(td_opt(result)) == 0 and forall(dct, lambda k: is_strval(k) and has(td_req(result), k)) and forall(td_req(result), lambda k: has(dct, k)))",
                  "post:td-disabled": "implies(max_typed_dict_size is not None and max_typed_dict_size <= 0, kind(result) is not K_TD)",
                  "post:empty-dict": "implies(len(dct) == 0, result is Dict_(ANY, ANY))",
                  "post:kind": "kind(result) is K_Dict or kind(result) is K_TD"},
         any_only_if="len(dct) == 0")

contract("monkeytype.typing:get_type", props=["C04", "C05", "C06", "C02", "C03", "C01"], theories=TH,
         params={"obj": "Val", "max_typed_dict_size": "Opt[int]"}, result="Ty", scc="infer", decreases=["size(obj)", "1"],
         requires={"val-wf": "wf_val(obj)"},
         ensures={"post:mem": "mem(obj, result)", "post:wf": "wf_rw(result) and result is not ELLIPSIS_",
                  # C05: class names are the exact runtime classes of observed values; the bare Any is never a value's type
                  "post:exact-class": "implies(kind(result) is K_Class, result is cls_of(obj))",
                  "post:never-any": "result is not ANY",
                  "post:td-disabled": "implies(max_typed_dict_size is not None and max_typed_dict_size <= 0, kind(result) is not K_TD)"},
         # C05: the only literal Any in get_type is the element type of Iterator for generator objects (which cannot be inspected)
         any_only_if="is_generator_obj(obj)")
