"""Sidecar contracts for monkeytype/typing.py: inference (C04, C05, C06) and rewriters (C07)."""
from pyvc.registry import contract

TH = ["types", "values"]

contract("monkeytype.compat:types_equal", props=["C04"], theories=TH,
         params={"typ": "Ty", "other_type": "Ty"}, result="bool",
         ensures={"post:def": "result == (typ is other_type)"},
         note="the logic identifies ==-equal typing objects (unions as sets, TypedDicts by fields)")

_NAMED = "(" + " or ".join("kind(typ) is K_%s" % k for k in ("List", "Set", "Dict", "DefaultDict", "Tuple", "TupleVar", "Type", "Iterator", "Generator", "Callable", "Union")) + ")"
contract("monkeytype.compat:name_of_generic", props=["C04", "C07"], theories=TH + ["enc", "cli", "path"],
         params={"typ": "Ty"}, result="str",
         requires={"named-generic": _NAMED},
         # (a two-member union with None is *named* "Optional" by typing; every caller tests is_union first or only compares with a container name)
         ensures={"post:def": "implies(kind(typ) is not K_Union, result is gname(typ))",
                  "post:union": "implies(kind(typ) is K_Union, result == 'Union' or result == 'Optional')"},
         note="typing generics carry their name in `_name` (T-ENC tname axioms, validated by the bounded tier)")

contract("monkeytype.typing:is_list", props=["C04"], theories=TH,
         params={"typ": "Ty"}, result="bool",
         requires={"wf": "wf_ty(typ)"},
         ensures={"post:def": "result == (kind(typ) is K_List)"})

contract("monkeytype.typing:make_typed_dict", props=["C04", "C06", "C07"], theories=TH + ["enc", "cli", "path"],
         params={"required_fields": "Opt[Dict[str,Ty]]", "optional_fields": "Opt[Dict[str,Ty]]"}, result="Ty",
         # the function asserts that required and optional keys are disjoint
         requires={"disjoint": "required_fields is None or optional_fields is None or forall(required_fields, lambda key: not has(optional_fields, key))"},
         ensures={"post:def": "result is TD_(ite(required_fields is None or len(required_fields) == 0, EMPTY_DICT_, required_fields),"
                              " ite(optional_fields is None or len(optional_fields) == 0, EMPTY_DICT_, optional_fields))"},
         note="builds nested mypy_extensions.TypedDict classes: the TD_ constructor of T-TYPES is its specification")

# monkeytype.typing:field_annotations reads __annotations__ of the two nested TypedDicts make_typed_dict builds: it is
# modelled by the theory observers td_req / td_opt (theories/types.py, assumed; validated by the bounded tier).

contract("monkeytype.typing:is_anonymous_typed_dict", props=["C04", "C06", "C07"], theories=TH + ["enc", "cli", "path"],
         params={"typ": "Ty"}, result="bool",
         requires={"no-foreign-td": "kind(typ) is not K_NamedTD"},
         ensures={"post:def": "result == (kind(typ) is K_TD)"},
         note="kind TD is defined (T-ENC td-kind) as: a TypedDict class named DUMMY_NAME with the make_typed_dict shape; the precondition excludes other TypedDict classes"
              " (in particular a foreign TypedDict that happens to be called DUMMY_NAME)")

contract("monkeytype.typing:field_annotations", props=["C04", "C05", "C06"], theories=TH + ["enc", "cli", "path"],
         params={"typed_dict": "Ty"}, result="raw",
         requires={"anonymous": "kind(typed_dict) is K_TD"},
         ensures={"post:req": "result[0] is td_req(typed_dict)", "post:opt": "result[1] is td_opt(typed_dict)"},
         note="callers use the T-TYPES observers td_req / td_opt directly (theories/types.py _field_annotations); this contract proves that the real body computes them")

_SUP = "forall(types, lambda t: forall_val(lambda v: implies(mem(v, t), mem(v, result))))"
_REQ = "td_req(nth(typed_dicts, {j}))"
_OPT = "td_opt(nth(typed_dicts, {j}))"
_KV = "key_value_types_dict"
_EO = "existing_optional_fields"
_HOK = "forall(typed_dicts, lambda t: td_okd(t, max_typed_dict_size))"
_STD_LOOPS = {
    # outer loop: every TypedDict seen so far has contributed its required field types to kv[key] and its optional (key, type) pairs to eo
    0: {"iter": "typed_dicts",
        "inv": {
            "dictlike": "is_dictlike_(%s)" % _KV,
            "len": "forall(%s, lambda key: len(lookup(%s, key)) >= 1 and len(lookup(%s, key)) <= _i)" % (_KV, _KV, _KV),
            "count": "forall(%s, lambda key: (len(lookup(%s, key)) == _i) == forall(range_(0, _i), lambda j: has(%s, key)))" % (_KV, _KV, _REQ.format(j="j")),
            "cover": "forall(range_(0, _i), lambda j: forall(%s, lambda key: has(%s, key) and has(lookup(%s, key), lookup(%s, key))))" % (_REQ.format(j="j"), _KV, _KV, _REQ.format(j="j")),
            "absent": "forall_v(lambda key: implies(not has(%s, key), forall(range_(0, _i), lambda j: not has(%s, key))))" % (_KV, _REQ.format(j="j")),
            "from": "forall(%s, lambda key: forall(lookup(%s, key), lambda x: exists(range_(0, _i), lambda j: has(%s, key) and x is lookup(%s, key))))" % (_KV, _KV, _REQ.format(j="j"), _REQ.format(j="j")),
            "eo-cover": "forall(range_(0, _i), lambda j: forall(range_(0, len(%s)), lambda q: has(%s, nth(items_(%s), q))))" % (_OPT.format(j="j"), _EO, _OPT.format(j="j")),
            "eo-from": "forall(%s, lambda p: exists(range_(0, _i), lambda j: has(items_(%s), p)))" % (_EO, _OPT.format(j="j")),
        }},
    # inner loop: the first _i required keys of this TypedDict have been appended
    1: {"iter": "required_fields.items()",
        "inv": {
            "dictlike": "is_dictlike_(%s)" % _KV,
            "keys": "forall_v(lambda key: has(%s, key) == (has(pre_loop('%s'), key) or exists(range_(0, _i), lambda q: nth(required_fields, q) is key)))" % (_KV, _KV),
            "done": "forall(range_(0, _i), lambda q: lookup(%s, nth(required_fields, q)) is append(getd(pre_loop('%s'), nth(required_fields, q)), lookup(required_fields, nth(required_fields, q))))" % (_KV, _KV),
            "untouched": "forall(pre_loop('%s'), lambda key: implies(not exists(range_(0, _i), lambda q: nth(required_fields, q) is key), lookup(%s, key) is lookup(pre_loop('%s'), key)))" % (_KV, _KV, _KV),
        }},
    # keys not required by every TypedDict become optional, with the same list of types
    2: {"iter": "key_value_types_dict.items()",
        "inv": {"dictlike": "is_dictlike_(optional_fields)",
                "moved": "forall(range_(0, _i), lambda q: implies(len(lookup(%s, nth(%s, q))) != num_typed_dicts, has(optional_fields, nth(%s, q)) and lookup(optional_fields, nth(%s, q)) is lookup(%s, nth(%s, q))))" % (_KV, _KV, _KV, _KV, _KV, _KV),
                "only": "forall(optional_fields, lambda key: has(%s, key) and len(lookup(%s, key)) != num_typed_dicts and lookup(optional_fields, key) is lookup(%s, key))" % (_KV, _KV, _KV)}},
    # already-optional (key, type) pairs are appended to the key's list
    3: {"iter": "existing_optional_fields",
        "inv": {"dictlike": "is_dictlike_(optional_fields)",
                "kept": "forall(pre_loop('optional_fields'), lambda key: has(optional_fields, key) and forall(lookup(pre_loop('optional_fields'), key), lambda x: has(lookup(optional_fields, key), x)))",
                "added": "forall(range_(0, _i), lambda q: has(optional_fields, nth(nth(%s, q), 0)) and has(lookup(optional_fields, nth(nth(%s, q), 0)), nth(nth(%s, q), 1)))" % (_EO, _EO, _EO),
                "keys-from": "forall(optional_fields, lambda key: has(pre_loop('optional_fields'), key) or exists(range_(0, _i), lambda q: nth(nth(%s, q), 0) is key))" % _EO,
                "from": "forall(optional_fields, lambda key: len(lookup(optional_fields, key)) >= 1 and forall(lookup(optional_fields, key), lambda x:"
                        " (has(pre_loop('optional_fields'), key) and has(lookup(pre_loop('optional_fields'), key), x)) or exists(range_(0, _i), lambda q: nth(nth(%s, q), 0) is key and nth(nth(%s, q), 1) is x)))" % (_EO, _EO)}},
    "tags": {_KV: "DDict:list", _EO: "Seq[seq]", "optional_fields": "DDict:list"},
}
contract("monkeytype.typing:shrink_typed_dict_types", props=["C04", "C05", "C06"], theories=TH,
         params={"typed_dicts": "Seq[Ty]", "max_typed_dict_size": "Opt[int]"}, result="Ty", scc="shrink", decreases=["mdepth(typed_dicts)", "0"],
         requires={"all-td": "forall(typed_dicts, lambda t: kind(t) is K_TD and wf_rw(t))", "nonempty": "len(typed_dicts) >= 1",
                   "k-int": "max_typed_dict_size is not None"},
         ensures={
             "post:kind": "kind(result) is K_TD or kind(result) is K_Dict",
             "post:wf": "wf_rw(result) and result is not ELLIPSIS_ and result is not None",
             # C04: every value admitted by one of the merged TypedDicts is admitted by the result
             "post:super": "forall(typed_dicts, lambda t: forall_val(lambda v: implies(mem(v, t), mem(v, result))))",
             # C06: a merged TypedDict never has more than k keys in total (otherwise the fallback Dict[str, V] is returned)
             "post:size": "implies(kind(result) is K_TD, len(td_req(result)) + len(td_opt(result)) <= max_typed_dict_size)",
             # C05: a key is required only if every merged TypedDict required it
             "post:required-iff-all": "implies(kind(result) is K_TD, forall(td_req(result), lambda key: forall(typed_dicts, lambda t: has(td_req(t), key))))",
             "post:td-size-deep": "implies(forall(typed_dicts, lambda t: td_okd(t, max_typed_dict_size)), td_okd(result, max_typed_dict_size))",
         },
         hints={
             # ---- fallback path (Dict[str, V]): every collected type is among the types merged into V
             "flat-has-kv": "implies(L_value_type is L_value_type, forall(L_key_value_types_dict, lambda key: forall(lookup(L_key_value_types_dict, key), lambda x: has(%s, x))))" % "flat_(concat_(values_(L_required_fields), values_(L_optional_fields)))",
             "flat-has-eo": "implies(L_value_type is L_value_type, forall(L_existing_optional_fields, lambda p: has(%s, nth(p, 1))))" % "flat_(concat_(values_(L_required_fields), values_(L_optional_fields)))",
             "dict-req": "forall(range_(0, len(typed_dicts)), lambda j: forall(%s, lambda key: forall_val(lambda v: implies(mem(v, lookup(%s, key)), mem(v, L_value_type)))))" % (_REQ.format(j="j"), _REQ.format(j="j")),
             "dict-opt-idx": "forall(range_(0, len(typed_dicts)), lambda j: forall(range_(0, len(%s)), lambda q: forall_val(lambda v: implies(mem(v, nth(nth(items_(%s), q), 1)), mem(v, L_value_type))), lambda q: nth(%s, q)))" % (_OPT.format(j="j"), _OPT.format(j="j"), _OPT.format(j="j")),
             "dict-opt": "forall(range_(0, len(typed_dicts)), lambda j: forall(%s, lambda key: forall_val(lambda v: implies(mem(v, lookup(%s, key)), mem(v, L_value_type)))))" % (_OPT.format(j="j"), _OPT.format(j="j")),
             # ---- merged-TypedDict path: relate the shrunk field dicts R', O' to the collected lists, then to each input TypedDict
             "td-req-from": "implies(kind(result) is K_TD, forall(L_required_fields, lambda key: has(L_key_value_types_dict, key) and len(lookup(L_key_value_types_dict, key)) == len(typed_dicts)"
                            " and forall(lookup(L_key_value_types_dict, key), lambda x: forall_val(lambda v: implies(mem(v, x), mem(v, lookup(L_required_fields, key)))))))",
             "td-req-all": "implies(kind(result) is K_TD, forall(L_key_value_types_dict, lambda key: implies(len(lookup(L_key_value_types_dict, key)) == len(typed_dicts), has(L_required_fields, key))))",
             "td-opt-kv": "implies(kind(result) is K_TD, forall(L_key_value_types_dict, lambda key: implies(len(lookup(L_key_value_types_dict, key)) != len(typed_dicts), has(L_optional_fields, key)"
                          " and forall(lookup(L_key_value_types_dict, key), lambda x: forall_val(lambda v: implies(mem(v, x), mem(v, lookup(L_optional_fields, key))))))))",
             "td-opt-eo": "implies(kind(result) is K_TD, forall(L_existing_optional_fields, lambda p: has(L_optional_fields, nth(p, 0))"
                          " and forall_val(lambda v: implies(mem(v, nth(p, 1)), mem(v, lookup(L_optional_fields, nth(p, 0)))))))",
             "td-opt-keys": "implies(kind(result) is K_TD, forall(L_optional_fields, lambda key: (has(L_key_value_types_dict, key) and len(lookup(L_key_value_types_dict, key)) != len(typed_dicts))"
                            " or exists(range_(0, len(L_existing_optional_fields)), lambda q: nth(nth(L_existing_optional_fields, q), 0) is key)))",
             "td-disjoint": "implies(kind(result) is K_TD, forall(L_required_fields, lambda key: not has(L_optional_fields, key)))",
             "td-sup-req": "implies(kind(result) is K_TD, forall(range_(0, len(typed_dicts)), lambda j: forall(%s, lambda key:"
                           " (has(L_required_fields, key) and forall_val(lambda v: implies(mem(v, lookup(%s, key)), mem(v, lookup(L_required_fields, key)))))"
                           " or (not has(L_required_fields, key) and has(L_optional_fields, key) and forall_val(lambda v: implies(mem(v, lookup(%s, key)), mem(v, lookup(L_optional_fields, key))))))))" % (_REQ.format(j="j"), _REQ.format(j="j"), _REQ.format(j="j")),
             "td-sup-opt-idx": "implies(kind(result) is K_TD, forall(range_(0, len(typed_dicts)), lambda j: forall(range_(0, len(%s)), lambda q: has(L_optional_fields, nth(nth(items_(%s), q), 0))"
                               " and forall_val(lambda v: implies(mem(v, nth(nth(items_(%s), q), 1)), mem(v, lookup(L_optional_fields, nth(nth(items_(%s), q), 0))))), lambda q: nth(%s, q))))" % ((_OPT.format(j="j"),) * 5),
             "td-sup-opt": "implies(kind(result) is K_TD, forall(range_(0, len(typed_dicts)), lambda j: forall(%s, lambda key: has(L_optional_fields, key) and not has(L_required_fields, key)"
                           " and forall_val(lambda v: implies(mem(v, lookup(%s, key)), mem(v, lookup(L_optional_fields, key)))))))" % (_OPT.format(j="j"), _OPT.format(j="j")),
             # ---- C06 deep: under the hypothesis that every input TypedDict is within the limit (all its nodes), so is every collected field type
             "H-kv": "implies(%s, forall(L_key_value_types_dict, lambda key: forall(lookup(L_key_value_types_dict, key), lambda x: td_okd(x, max_typed_dict_size))))" % _HOK,
             "H-eo": "implies(%s, forall(L_existing_optional_fields, lambda p: td_okd(nth(p, 1), max_typed_dict_size)))" % _HOK,
             "H-optlists": "implies(%s and L_optional_fields is L_optional_fields, forall(L_optional_fields, lambda key: implies(kind(result) is K_Dict, forall(lookup(L_optional_fields, key), lambda x: td_okd(x, max_typed_dict_size)))))" % _HOK,
             "H-flat": "implies(%s and L_value_type is L_value_type, forall(%s, lambda x: td_okd(x, max_typed_dict_size)))" % (_HOK, "flat_(concat_(values_(L_required_fields), values_(L_optional_fields)))"),
             "H-value": "implies(%s and L_value_type is L_value_type, td_okd(L_value_type, max_typed_dict_size))" % _HOK,
             "H-req-ok": "implies(%s and kind(result) is K_TD, forall(td_req(result), lambda key: td_okd(lookup(td_req(result), key), max_typed_dict_size)))" % _HOK,
             "H-opt-ok": "implies(%s and kind(result) is K_TD, forall(td_opt(result), lambda key: td_okd(lookup(td_opt(result), key), max_typed_dict_size)))" % _HOK,
             "H-first-size": "implies(%s, len(td_req(nth(typed_dicts, 0))) + len(td_opt(nth(typed_dicts, 0))) >= 1)" % _HOK,
             "H-first-req": "implies(kind(result) is K_TD and len(td_req(nth(typed_dicts, 0))) >= 1, has(L_key_value_types_dict, nth(td_req(nth(typed_dicts, 0)), 0))"
                            " and (has(L_required_fields, nth(td_req(nth(typed_dicts, 0)), 0)) or has(L_optional_fields, nth(td_req(nth(typed_dicts, 0)), 0))))",
             "H-first-opt": "implies(kind(result) is K_TD and len(td_opt(nth(typed_dicts, 0))) >= 1, has(L_optional_fields, nth(td_opt(nth(typed_dicts, 0)), 0)))",
             "H-some-key": "implies(%s and kind(result) is K_TD, len(L_required_fields) + len(L_optional_fields) >= 1)" % _HOK,
             "H-nonempty": "implies(%s and kind(result) is K_TD, len(td_req(result)) + len(td_opt(result)) >= 1)" % _HOK,
         },
         loops=_STD_LOOPS)

contract("monkeytype.typing:shrink_types", props=["C04", "C05", "C06", "C01"], theories=TH,
         params={"types": "Seq[Ty]", "max_typed_dict_size": "Opt[int]"}, result="Ty", scc="shrink", decreases=["mdepth(types)", "1"],
         requires={"wf": "forall(types, lambda t: wf_rw(t) and t is not ELLIPSIS_ and t is not None)", "k-int": "max_typed_dict_size is not None"},
         hints={"rewritten-wf": "forall(L_all_dict_types, lambda t: wf_rw(t) and t is not ELLIPSIS_)"},
         ensures={"post:super": _SUP, "post:wf": "wf_rw(result) and result is not ELLIPSIS_", "post:not-none": "result is not None",
                  "post:empty": "implies(len(types) == 0, result is ANY)",
                  # C06: merging keeps every TypedDict node within the limit
                  "post:td-size-deep": "implies(forall(types, lambda t: td_okd(t, max_typed_dict_size)), td_okd(result, max_typed_dict_size))"},
         # C05: the literal Any is produced only for the empty input
         any_only_if="len(types) == 0")

contract("monkeytype.typing:_is_typed_dict_field_name", props=["C12", "C06"], theories=TH, params={"key": "str"}, result="bool",
         # a key that can be written as a field of a TypedDict class and read back unchanged: an identifier, no keyword, not name-mangled, NFKC-normal (the four text predicates are uninterpreted)
         ensures={"post:def": "result == (is_identifier(key) and not is_keyword(key) and not prefixof('__', unboxs(key)) and nfkc_(key) is key)"})

_KOK = "(max_typed_dict_size is None or max_typed_dict_size >= 0)"
contract("monkeytype.typing:get_dict_type", props=["C04", "C05", "C06", "C03"], theories=TH,
         params={"dct": "Val", "max_typed_dict_size": "Opt[int]"}, result="Ty", scc="infer", decreases=["size(dct)", "0"],
         requires={"exact-dict": "cls_of(dct) is CLS_dict", "val-wf": "wf_val(dct)", "k-int": "max_typed_dict_size is not None"},
         hints={"td-keys": "implies(kind(result) is K_TD, forall(dct, lambda k: has(td_req(result), k) and is_strval(k)))",
                "td-req": "implies(kind(result) is K_TD, forall(td_req(result), lambda k: has(dct, k) and mem(lookup(dct, k), lookup(td_req(result), k))))",
                "td-opt": "implies(kind(result) is K_TD, len(td_opt(result)) == 0)"},
         ensures={"post:mem": "mem(dct, result)", "post:wf": "wf_rw(result) and result is not ELLIPSIS_",
                  # C06 (top-level node): a TypedDict only for a non-empty dict whose keys are all strings, with at most k keys, all required; none for k = 0
                  "post:td-size": "implies(kind(result) is K_TD, len(dct) > 0 and (max_typed_dict_size is None or len(dct) <= max_typed_dict_size)"
                                  " and len(td_opt(result)) == 0 and forall(dct, lambda k: is_strval(k) and has(td_req(result), k)) and forall(td_req(result), lambda k: has(dct, k)))",
                  "post:td-disabled": "implies(max_typed_dict_size is not None and max_typed_dict_size <= 0, kind(result) is not K_TD)",
                  # C05: only dicts keyed by plain str (not by instances of a str subclass, whose class a TypedDict cannot name) become TypedDicts
                  "post:td-exact-str-keys": "implies(kind(result) is K_TD, forall(dct, lambda k: cls_of(k) is CLS_str))",
                  # C12: a TypedDict is only built from keys that can be written as fields of a class (identifiers, not keywords)
                  "post:td-field-names": "implies(kind(result) is K_TD, forall(dct, lambda k: is_identifier(k) and not is_keyword(k) and not prefixof('__', unboxs(k)) and nfkc_(k) is k))",
                  "post:empty-dict": "implies(len(dct) == 0, result is Dict_(ANY, ANY))",
                  "post:td-size-deep": "td_okd(result, max_typed_dict_size)",
                  "post:kind": "kind(result) is K_Dict or kind(result) is K_TD"},
         any_only_if="len(dct) == 0")

contract("monkeytype.typing:get_type", props=["C04", "C05", "C06", "C02", "C03", "C01"], theories=TH,
         params={"obj": "Val", "max_typed_dict_size": "Opt[int]"}, result="Ty", scc="infer", decreases=["size(obj)", "1"],
         requires={"val-wf": "wf_val(obj)", "k-int": "max_typed_dict_size is not None"},
         ensures={"post:mem": "mem(obj, result)", "post:wf": "wf_rw(result) and result is not ELLIPSIS_",
                  # C05: class names are the exact runtime classes of observed values; the bare Any is never a value's type
                  "post:exact-class": "implies(kind(result) is K_Class, result is cls_of(obj))",
                  "post:never-any": "result is not ANY",
                  # C06: every TypedDict node of the inferred type, at any depth, has between 1 and k keys (none at all for k <= 0)
                  "post:td-size-deep": "td_okd(result, max_typed_dict_size)",
                  "post:td-disabled": "implies(max_typed_dict_size is not None and max_typed_dict_size <= 0, kind(result) is not K_TD)"},
         # C05: the only literal Any in get_type is the element type of Iterator for generator objects (which cannot be inspected)
         any_only_if="is_generator_obj(obj)")
