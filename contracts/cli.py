"""Sidecar contracts for monkeytype/cli.py (C10, C13, C15, C01)."""
from pyvc.registry import contract

TH = ["cli", "events", "types", "values", "sql"]

contract("monkeytype.cli:display_sample_count", props=["C10"], theories=TH, pure=False, effects="print",
         params={"traces": "Seq[Trace]", "stderr": "Stream"}, result="none", note="prints one line per function, to the error stream only (collections.Counter is an unspecified finite mapping)",
         loops={0: {"iter": "sample_counter.items()",
                    "inv": {"grow": "len(effects()) >= len(old(effects())) and forall(range_(0, len(old(effects()))), lambda q: nth(effects(), q) is nth(old(effects()), q))",
                            "stderr-only": "forall(range_(len(old(effects())), len(effects())), lambda q: nth(nth(effects(), q), 1) is stderr and is_print(nth(effects(), q), stderr, ''))"},
                    "havoc_effects": True}},
         ensures={"post:only-stderr": "len(effects()) >= len(old(effects())) and forall(range_(0, len(old(effects()))), lambda q: nth(effects(), q) is nth(old(effects()), q))"
                                      " and forall(range_(len(old(effects())), len(effects())), lambda q: nth(nth(effects(), q), 1) is stderr and is_print(nth(effects(), q), stderr, ''))"})

_THUNKS = "stored(config_store(args_config(args)), args_module(args), args_qualname(args), args_limit(args))"
_N = "len(%s)" % _THUNKS
_NOOP = "noop_rewriter()"
contract("monkeytype.cli:get_stub", props=["C10", "C01", "C06", "C14", "C13"], theories=TH, pure=False, effects="print",
         params={"args": "Args", "stdout": "Stream", "stderr": "Stream"}, result="Opt[ModuleStub]",
         assumes={# argparse stores one of the three members (default REPLICATE, --ignore-existing-annotations / --omit-existing-annotations store a const): cli.main is bounded
                  "strategy-is-a-member": "args_existing_annotation_strategy(args) is REPLICATE or args_existing_annotation_strategy(args) is IGNORE or args_existing_annotation_strategy(args) is OMIT",
                  "decoded-traces-are-well-formed": "forall_v(lambda th: implies(decodes(th), DEC(th) is not None and is_dictlike_(tag_(DEC(th), 'Trace').arg_types)"
                                                    " and forall(tag_(DEC(th), 'Trace').arg_types, lambda n: wf_rw(lookup(tag_(DEC(th), 'Trace').arg_types, n)) and lookup(tag_(DEC(th), 'Trace').arg_types, n) is not ELLIPSIS_ and lookup(tag_(DEC(th), 'Trace').arg_types, n) is not None)"
                                                    " and implies(tag_(DEC(th), 'Trace').return_type is not None, wf_rw(tag_(DEC(th), 'Trace').return_type) and tag_(DEC(th), 'Trace').return_type is not ELLIPSIS_)"
                                                    " and implies(tag_(DEC(th), 'Trace').yield_type is not None, wf_rw(tag_(DEC(th), 'Trace').yield_type) and tag_(DEC(th), 'Trace').yield_type is not ELLIPSIS_)))"},
         ensures={
             # the stub is built from exactly the decodable traces, in store order, with the configured k / rewriter / strategy
             "post:traces": "L_traces is DECS(%s, %s)" % (_THUNKS, _N),
             "post:none-iff-nothing-decodes": "(result is None and len(DECS(%s, %s)) == 0) or len(DECS(%s, %s)) > 0" % (_THUNKS, _N, _THUNKS, _N),
             "post:stub": "implies(len(DECS({t}, {n})) > 0, result is stub_for(build_module_stubs_from_traces(DECS({t}, {n}), config_k(args_config(args)),"
                          " args_existing_annotation_strategy(args), ite(args_disable_type_rewriting(args), L_rewriter, config_rewriter(args_config(args)))), args_module(args)))".format(t=_THUNKS, n=_N),
             "post:rewriter-disabled": "implies(args_disable_type_rewriting(args) and len(DECS(%s, %s)) > 0, is_noop(L_rewriter))" % (_THUNKS, _N),
             # error stream: one warning per failure with -v; otherwise one summary line with the count iff something failed
             "post:stderr-verbose": "implies(args_verbose(args) and not args_sample_count(args), len(effects()) == len(old(effects())) + NF({t}, {n})"
                                    " and forall(range_(len(old(effects())), len(effects())), lambda q: is_print(nth(effects(), q), stderr, 'WARNING: Failed decoding trace: ')))".format(t=_THUNKS, n=_N),
             "post:stderr-quiet-none": "implies(not args_verbose(args) and NF({t}, {n}) == 0 and not args_sample_count(args), effects() is old(effects()))".format(t=_THUNKS, n=_N),
             "post:stderr-quiet-summary": "implies(not args_verbose(args) and NF({t}, {n}) > 0 and not args_sample_count(args), len(effects()) == len(old(effects())) + 1"
                                          " and is_print(nth(effects(), len(old(effects()))), stderr, '')"
                                          " and print_text(nth(effects(), len(old(effects())))) == concat(int_str(NF({t}, {n})), ' traces failed to decode; use -v for details'))".format(t=_THUNKS, n=_N),
             "frame:stdout": "forall(range_(len(old(effects())), len(effects())), lambda q: nth(nth(effects(), q), 1) is stderr and is_print(nth(effects(), q), stderr, ''))",
             "frame:prefix": "len(effects()) >= len(old(effects())) and forall(range_(0, len(old(effects()))), lambda q: nth(effects(), q) is nth(old(effects()), q))",
         },
         loops={0: {"iter": "thunks",
                    "inv": {"traces": "traces is DECS(thunks, _i)",
                            "from-thunks": "forall(traces, lambda t: exists(range_(0, _i), lambda j: decodes(nth(thunks, j)) and t is DEC(nth(thunks, j))))",
                            "failed": "failed_to_decode_count == NF(thunks, _i)",
                            "eff-len": "len(effects()) == len(old(effects())) + ite(args_verbose(args), NF(thunks, _i), 0)",
                            "eff-prefix": "forall(range_(0, len(old(effects()))), lambda q: nth(effects(), q) is nth(old(effects()), q))",
                            "eff-old": "implies(not args_verbose(args), effects() is old(effects()))",
                            "eff-warn": "forall(range_(len(old(effects())), len(effects())), lambda q: is_print(nth(effects(), q), stderr, 'WARNING: Failed decoding trace: '))"},
                    "havoc_effects": True},
                "tags": {"traces": "Seq[Trace]"}})

contract("monkeytype.cli:complain_about_no_traces", props=["C10"], theories=TH, pure=False, effects="print",
         params={"args": "Args", "stderr": "Stream"}, result="none",
         ensures={"post:one-line": "len(effects()) == len(old(effects())) + 1 and is_print(last_effect(), stderr, 'No traces found')",
                  "frame:prefix": "forall(range_(0, len(old(effects()))), lambda q: nth(effects(), q) is nth(old(effects()), q))"})

contract("monkeytype.cli:get_diff", props=["C13"], theories=TH, mode="assumed", pure=False, effects="print",
         params={"args": "Args", "stdout": "Stream", "stderr": "Stream"}, result="Opt[str]",
         note="mutates args.existing_annotation_strategy (REPLICATE then IGNORE) and diffs the two renders: bounded (runtime/props/c13.py)")

_NODEC = "len(DECS(%s, %s)) == 0" % (_THUNKS, _N)
contract("monkeytype.cli:print_stub_handler", props=["C10"], theories=TH, pure=False, effects="print",
         params={"args": "Args", "stdout": "Stream", "stderr": "Stream"}, result="none",
         ensures={
             # nothing decodable: the command says that no traces were found (on the error stream) and prints no stub
             "post:no-traces": "implies(not args_diff(args) and %s, is_print(last_effect(), stderr, 'No traces found'))" % _NODEC,
             # otherwise the rendered stub of the decodable traces goes to stdout, last
             "post:nothing-decodable-no-stub": "implies(not args_diff(args) and %s, L_stub is None)" % _NODEC,
             "post:stub-printed": "implies(not args_diff(args) and L_stub is not None and not %s, is_print(last_effect(), stdout, '') and print_text(last_effect()) == render_text(L_stub))" % _NODEC,
         })

_APPLIED = "cst_applied(cst_parsed(stub), cst_parsed(source), overwrite_existing_annotations, confine_new_imports_in_type_checking_block)"
contract("monkeytype.cli:apply_stub_using_libcst", props=["C15", "C16"], theories=TH + ["cst"],
         params={"stub": "strp", "source": "strp", "overwrite_existing_annotations": "bool", "confine_new_imports_in_type_checking_block": "bool"}, result="strp",
         # the glue: which libcst stage is given what. The source is annotated from the stub with exactly the requested overwrite flag, the __future__ import is requested
         # exactly when confinement is; with confinement the mover is handed get_newly_imported_items(stub, source) - nothing else - and runs on the annotated module;
         # without it nothing is moved. What the stages do with their inputs is libcst's (bounded: C15 / C16 companions).
         ensures={"post:pipeline": "result == cst_code(ite(confine_new_imports_in_type_checking_block,"
                                   " cst_moved(%s, get_newly_imported_items(cst_parsed(stub), cst_parsed(source))), %s))" % (_APPLIED, _APPLIED)},
         # every failure of libcst reaches the caller as HandlerError
         raises={"HandlerError": None},
         note="libcst's parse_module / ApplyTypeAnnotationsVisitor / the MoveImportsToTypeCheckingBlockVisitor pipeline are uninterpreted functions of their inputs (T-CST)")

contract("monkeytype.cli:apply_stub_handler", props=["C15", "C13", "C10"], theories=TH, pure=False, effects="write",
         params={"args": "Args", "stdout": "Stream", "stderr": "Stream"}, result="none",
         ensures={
             "post:no-traces": "implies(%s, is_print(last_effect(), stderr, 'No traces found') and forall(range_(len(old(effects())), len(effects())), lambda q: not is_write(nth(effects(), q))))" % _NODEC,
             # the file receives exactly what apply_stub_using_libcst returned for (rendered stub, current file text, overwrite = (strategy is IGNORE), confine = --pep_563)
             "post:nothing-decodable-no-stub": "implies(%s, L_stub is None)" % _NODEC,
             "post:written": "implies(L_stub is not None and not %s, nth(effects(), len(effects()) - 2) is tup('write_text', L_source_path, boxs(L_source_with_types))"
                             " and is_print(last_effect(), stdout, '') and print_text(last_effect()) == L_source_with_types"
                             " and L_source_with_types == apply_stub_using_libcst(render_text(L_stub), file_text(L_source_path),"
                             " args_existing_annotation_strategy(args) is IGNORE, args_pep_563(args)))" % _NODEC,
             "post:path": "implies(L_stub is not None and not %s, L_source_path is path_of(getfile(imported(args_module(args)))))" % _NODEC,
         },
         # a failed application leaves the file untouched
         ensures_exc={"exc:file-untouched": "forall(range_(len(old(effects())), len(effects())), lambda q: not is_write(nth(effects(), q)))"},
         # the command fails only after a stub was obtained (import of the target module, file access, libcst): with nothing decodable it
         # must say "No traces found" and succeed
         raises={"HandlerError": "L_stub is not None", "ImportError": "L_stub is not None", "OSError": "L_stub is not None"})

# ---- C16 / C15: which imports count as "newly introduced by the stub" (the rest of the source's imports must stay where they are)
# an import item the module makes in some import statement (at any depth): `import a.b [as c]` -> (a.b, None, c); `from m import o [as c]` -> (m, o, c); star imports name nothing
_OF_IMPORT = "exists(cst_names({n}), lambda a: it is mk_item(alias_name(a), None, alias_asname(a)))"
_OF_FROM = "exists(cst_names({n}), lambda a: it is mk_item(from_module({n}), alias_name(a), alias_asname(a)))"
_OF_NODE = "((is_import_stmt({n}) and %s) or (not is_import_stmt({n}) and not is_star({n}) and from_module({n}) is not None and %s))" % (_OF_IMPORT, _OF_FROM)
_IMPORTED = "exists(range_(0, {k}), lambda j: %s)" % _OF_NODE.replace("{n}", "nth(g_all({g}), j)")
contract("monkeytype.cli:_all_import_items", props=["C16", "C15"], theories=["cst"],
         params={"gatherer": "Gatherer"}, result="Set[Item]",
         # exactly the items of the module's import statements: every one of them, nothing else
         ensures={"post:exact": "forall_v(lambda it: has(result, it) == %s)" % _IMPORTED.format(g="gatherer", k="len(g_all(gatherer))")},
         loops={0: {"iter": "gatherer.all_imports",
                    "inv": {"members": "forall_v(lambda it: has(items, it) == %s)" % _IMPORTED.format(g="gatherer", k="_i")}},
                1: {"iter": "node.names",
                    "inv": {"members": "forall_v(lambda it: has(items, it) == (has(pre_loop('items'), it) or exists(range_(0, _i), lambda q: it is mk_item(alias_name(nth(cst_names(node), q)), None, alias_asname(nth(cst_names(node), q))))))"}},
                2: {"iter": "node.names",
                    "inv": {"members": "forall_v(lambda it: has(items, it) == (has(pre_loop('items'), it) or exists(range_(0, _i), lambda q: it is mk_item(module, alias_name(nth(cst_names(node), q)), alias_asname(nth(cst_names(node), q))))))",
                            "module": "module is from_module(node) and module is not None"}},
                "tags": {"items": "Set[Item]"}})

_GS, _GT = "gathered_from(stub_module)", "gathered_from(source_module)"
_IN_SOURCE = _IMPORTED.format(g=_GT, k="len(g_all(%s))" % _GT)
contract("monkeytype.cli:get_newly_imported_items", props=["C16", "C15"], theories=["cst"],
         params={"stub_module": "CstModule", "source_module": "CstModule"}, result="Seq[Item]",
         ensures={
             # every import the source already had stays where it was: no item of any import statement of the source, at any depth, is handed to the mover
             "post:source-imports-never-moved": "forall_v(lambda it: implies(%s, not has(result, it)))" % _IN_SOURCE,
             # only imports of the stub are moved ...
             "post:only-stub-imports": "forall_v(lambda it: implies(has(result, it), exists_v(lambda n: has(g_symbols(%s), n) and lookup(g_symbols(%s), n) is it)))" % (_GS, _GS),
             # ... and every import of the stub that the source does not make is
             "post:complete": "forall_v(lambda n: implies(has(g_symbols(%s), n), (lambda it: has(result, it) or %s)(lookup(g_symbols(%s), n))))" % (_GS, _IN_SOURCE, _GS),
         })

contract("monkeytype.cli:list_modules_handler", props=["C09"], theories=TH, pure=False, effects="print",
         params={"args": "Args", "stdout": "Stream", "stderr": "Stream"}, result="none",
         # the command prints exactly the store's module listing, one module per line, on stdout; nothing else is printed
         ensures={"post:listing": "len(effects()) == len(old(effects())) + 1 and is_print(last_effect(), stdout, '')"
                                  " and print_text(last_effect()) == str_join('\\n', store_modules(config_store(args_config(args))))",
                  "frame:prefix": "forall(range_(0, len(old(effects()))), lambda q: nth(effects(), q) is nth(old(effects()), q))"})
