"""Clause texts shared by a theory and a sidecar (no solver imports: the run-time reading loads the sidecars too)."""
# the function behind an object found by name: itself, or what a bound method / read-only property (its getter unwrapped) / django cached_property wraps
_FN_OF = ("ite(okind(o) is OK_method, obj___func__(o), ite(okind(o) is OK_property, unwrapped_(obj_fget(o)),"
          " ite(DJANGO_CP is not None and okind(o) is OK_cached_property, obj_func(o), o)))")
# a property that is not read-only, or whose getter cannot be unwrapped
_BAD = ("(okind(o) is OK_property and (obj_fget(o) is None or obj_fset(o) is not None or obj_fdel(o) is not None or unwrap_loops(obj_fget(o))))")
