"""Clause texts shared by a theory and a sidecar (no solver imports: the run-time reading loads the sidecars too)."""
_FN_OF = ("ite(okind(o) is OK_method, obj___func__(o), ite(okind(o) is OK_property, unwrapped_(obj_fget(o)),"
          " ite(DJANGO_CP is not None and okind(o) is OK_cached_property, obj_func(o), o)))")
_BAD = ("(okind(o) is OK_property and (obj_fget(o) is None or obj_fset(o) is not None or obj_fdel(o) is not None))"
        " or (okind(o) is not OK_method and okind(o) is not OK_property and not (DJANGO_CP is not None and okind(o) is OK_cached_property)"
        " and okind(o) is not OK_function and okind(o) is not OK_builtin)")


