"""Sidecar contracts for monkeytype/type_checking_imports_transformer.py (C16)."""
from pyvc.registry import contract

TH = ["cst"]
P = "monkeytype.type_checking_imports_transformer:"
_ITEMS = "items_of(self)"
_M_IMP = "exists(%s, lambda it: item_module(it) is alias_name({a}) and item_obj(it) is None and item_alias(it) is alias_asname({a}))" % _ITEMS
_M_FROM = "exists(%s, lambda it: item_module(it) is from_module(updated_node) and item_obj(it) is alias_obj({a}) and item_alias(it) is alias_asname({a}))" % _ITEMS


def _contract(name, matched, cond_inner, requires=None):
    M = lambda a: matched.format(a=a)
    NTH = "nth(cst_names(updated_node), j)"
    # libcst hands leave_* a node, never the removal sentinel (T-CST)
    requires = dict(requires or {}, **{"a-node": "updated_node is not REMOVE"})
    contract(P + "RemoveImportsTransformer." + name, props=["C16", "C15"], theories=TH, requires=requires,
             params={"self": "ImpTransformer", "original_node": "ImportNode", "updated_node": "ImportNode"}, result="ImportNode",
             ensures={
                 # every import the source already had stays: a name is removed only if the ImportItem it denotes (module, object, alias) is in the move list
                 # (a kept name is the source's alias node itself, or that node with its trailing comma normalised when a neighbour was removed)
                 "post:kept-unless-in-move-list": "implies(not is_star(updated_node), forall(cst_names(updated_node), lambda a: implies(not " + M("a") + ","
                                                  " result is not REMOVE and (has(cst_names(result), a) or has(cst_names(result), alias_nocomma(a))))))",
                 "post:nothing-invented": "implies(result is not REMOVE and not is_star(updated_node), forall(cst_names(result), lambda x: exists(cst_names(updated_node), lambda a: (x is a or x is alias_nocomma(a)) and not "
                                          + M("a") + ")))",
                 "post:removed-iff-all-moved": "implies(not is_star(updated_node), (result is REMOVE) == forall(cst_names(updated_node), lambda a: " + M("a") + "))",
                 "post:star-untouched": "implies(is_star(updated_node), result is updated_node)",
                 # C15 / C16 "stays where it was": a statement from which nothing moves is returned as written (layout, commas, comments after names)
                 "post:untouched-when-nothing-moves": "implies(not is_star(updated_node) and len(cst_names(updated_node)) > 0 and forall(range_(0, len(cst_names(updated_node))), lambda j: not " + M(NTH) + "),"
                                                      " result is updated_node)",
             },
             hints={"nothing-kept": "implies(len(L_names_to_keep) == 0, forall_v(lambda x: not has(L_names_to_keep, x)))",
                    "empty-means-all-moved": "implies(len(L_names_to_keep) == 0, forall(range_(0, len(cst_names(updated_node))), lambda j: " + M(NTH) + "))",
                    "nonempty-means-one-kept": "implies(len(L_names_to_keep) > 0, exists(range_(0, len(cst_names(updated_node))), lambda j: not " + M(NTH) + "))",
                    "all-kept-means-none-moved": "implies(len(L_names_to_keep) == len(cst_names(updated_node)), forall(range_(0, len(cst_names(updated_node))), lambda j: not " + M(NTH) + "))",
                    "none-moved-means-all-kept": "len(L_names_to_keep) == len(cst_names(updated_node)) or exists(range_(0, len(cst_names(updated_node))), lambda j: " + M(NTH) + ")"},
             loops={0: {"iter": "updated_node.names",
                        "inv": {"kept": "forall(range_(0, _i), lambda j: implies(not " + M(NTH) + ", has(names_to_keep, alias_nocomma(" + NTH + "))))",
                                "only": "forall(names_to_keep, lambda x: exists(range_(0, _i), lambda j: x is alias_nocomma(" + NTH + ") and not " + M(NTH) + "))",
                                # counting: the kept list is as long as the scanned prefix exactly when nothing of the prefix is in the move list
                                "some-kept": "implies(len(names_to_keep) > 0, exists(range_(0, _i), lambda j: not " + M(NTH) + "))",
                                "count-le": "len(names_to_keep) <= _i",
                                "count-all": "implies(len(names_to_keep) == _i, forall(range_(0, _i), lambda j: not " + M(NTH) + "))",
                                "count-some": "len(names_to_keep) == _i or exists(range_(0, _i), lambda j: " + M(NTH) + ")"}},
                    1: {"iter": "self.import_items_to_be_removed",
                        "inv": {"scan": "not found and forall(range_(0, _i), lambda q: not (" + cond_inner.format(it="nth(items_of(self), q)") + "))"}},
                    "tags": {"names_to_keep": "Seq[Alias]"}})


_contract("leave_Import", _M_IMP, "item_module({it}) is alias_name(name) and item_obj({it}) is None and item_alias({it}) is alias_asname(name)",
          requires={"import-statement": "not is_star(updated_node)"})
_contract("leave_ImportFrom", _M_FROM, "item_module({it}) is from_module(updated_node) and item_obj({it}) is alias_obj(name) and item_alias({it}) is alias_asname(name)")

contract(P + "MoveImportsToTypeCheckingBlockVisitor._remove_typing_module", props=["C16", "C15"], theories=TH,
         params={"import_item_list": "Seq[Item]"}, result="Seq[Item]",
         # whatever generated code needs at import time (typing names, the TypedDict base class) is never in the list that gets confined
         ensures={"post:runtime-needed-not-moved": "forall(result, lambda it: item_module(it) != 'typing' and item_module(it) != 'mypy_extensions')",
                  "post:others-kept": "forall(import_item_list, lambda it: implies(item_module(it) != 'typing' and item_module(it) != 'mypy_extensions', has(result, it)))",
                  "post:subset": "forall(result, lambda it: has(import_item_list, it))"},
         loops={0: {"iter": "import_item_list",
                    "inv": {"no-runtime": "forall(ret, lambda it: item_module(it) != 'typing' and item_module(it) != 'mypy_extensions' and has(import_item_list, it))",
                            "kept": "forall(range_(0, _i), lambda j: implies(item_module(nth(import_item_list, j)) != 'typing' and item_module(nth(import_item_list, j)) != 'mypy_extensions', has(ret, nth(import_item_list, j))))"}},
                "tags": {"ret": "Seq[Item]"}})

_BODY = "m_body(module)"
_ALL = "g_all(gathered_from(module))"
_IMP = "(is_simple(nth(%s, {j})) and exists(stmt_body(nth(%s, {j})), lambda p: has(%s, p)))" % (_BODY, _BODY, _ALL)
_LOC = "type_checking_block_add_location"
contract(P + "MoveImportsToTypeCheckingBlockVisitor._split_module", props=["C16", "C15"], theories=TH,
         params={"self": "Mover", "module": "CstModule"}, result="seq",
         ensures={
             # the module body is cut in two, nothing lost, nothing reordered ...
             "post:split": "len(result) == 2 and len(nth(result, 0)) + len(nth(result, 1)) == len(%s)"
                           " and forall(range_(0, len(nth(result, 0))), lambda j: nth(nth(result, 0), j) is nth(%s, j))"
                           " and forall(range_(0, len(nth(result, 1))), lambda j: nth(nth(result, 1), j) is nth(%s, len(nth(result, 0)) + j))" % (_BODY, _BODY, _BODY),
             # ... right after the last top-level statement line that holds an import: every import line of the source stays before the TYPE_CHECKING block
             "post:after-last-import": "forall(range_(len(nth(result, 0)), len(%s)), lambda j: not %s) and (len(nth(result, 0)) == 0 or %s)"
                                       % (_BODY, _IMP.format(j="j"), _IMP.format(j="len(nth(result, 0)) - 1")),
         },
         loops={0: {"iter": "enumerate(module.body)",
                    "inv": {"range": "0 <= %s and %s <= _i" % (_LOC, _LOC),
                            "none-after": "forall(range_(%s, _i), lambda j: not %s)" % (_LOC, _IMP.format(j="j")),
                            "last": "%s == 0 or %s" % (_LOC, _IMP.format(j=_LOC + " - 1"))}},
                1: {"iter": "statement.body",
                    "inv": {"scan": "(%s == i + 1 and %s) or (%s == pre_loop('%s') and forall(range_(0, _i), lambda q: not has(%s, nth(stmt_body(statement), q))))"
                                    % (_LOC, _IMP.format(j="i"), _LOC, _LOC, _ALL),
                            "stmt": "statement is nth(%s, i) and is_simple(statement) and 0 <= i and i < len(%s) and all_imports is %s" % (_BODY, _BODY, _ALL)}},
                2: {"iter": "all_imports",
                    "inv": {"scan": "(%s == i + 1 and %s) or (%s == pre_loop('%s') and forall(range_(0, _i), lambda q: possible_import is not nth(all_imports, q)))"
                                    % (_LOC, _IMP.format(j="i"), _LOC, _LOC),
                            "stmt": "statement is nth(%s, i) and is_simple(statement) and 0 <= i and i < len(%s) and all_imports is %s and has(stmt_body(statement), possible_import)" % (_BODY, _BODY, _ALL)}}})

_OLD, _NEWB = "m_body(module)", "m_body(result)"
_BLOCK = "cst_tc_block(cst_parsed('\\nif TYPE_CHECKING:\\n    pass\\n'), cst_import_module(self.import_items_to_be_moved))"
_IMPO = "(is_simple(nth(%s, {j})) and exists(stmt_body(nth(%s, {j})), lambda p: has(%s, p)))" % (_OLD, _OLD, _ALL)
contract(P + "MoveImportsToTypeCheckingBlockVisitor._add_if_type_checking_block", props=["C16", "C15"], theories=TH,
         params={"self": "Mover", "module": "CstModule"}, result="CstModule",
         ensures={
             "post:nothing-to-move": "implies(len(self.import_items_to_be_moved) == 0, result is module)",
             # one statement - the `if TYPE_CHECKING:` block holding the imports to be moved - is inserted right after the last top-level import line;
             # every statement of the module is kept, in order, on its side of it
             "post:inserted": "implies(len(self.import_items_to_be_moved) > 0, len(%s) == len(%s) + 1 and exists(range_(0, len(%s) + 1), lambda c:"
                              " forall(range_(0, c), lambda j: nth(%s, j) is nth(%s, j)) and nth(%s, c) is %s"
                              " and forall(range_(c, len(%s)), lambda j: nth(%s, j + 1) is nth(%s, j) and not %s) and (c == 0 or %s)))"
                              % (_NEWB, _OLD, _OLD, _NEWB, _OLD, _NEWB, _BLOCK, _OLD, _NEWB, _OLD, _IMPO.format(j="j"), _IMPO.format(j="c - 1")),
         })

_ST = "nth(mover_stored(self), 0)"
_PRE = "cst_removed(cst_with_tc_import(tree), self.import_items_to_be_moved)"
contract(P + "MoveImportsToTypeCheckingBlockVisitor.transform_module_impl", props=["C16", "C15"], theories=TH, pure=False, modifies=["Mover.import_items_to_be_moved"],
         params={"self": "Mover", "tree": "CstModule"}, result="CstModule",
         requires={"stored": "mover_stored(self) is None or len(mover_stored(self)) == 1"},
         ensures={
             # nothing was stored for this visitor: only the TYPE_CHECKING / __future__ imports are requested
             "post:nothing-stored": "implies(mover_stored(self) is None, result is cst_with_tc_import(tree))",
             # otherwise: what is moved is what was stored minus everything from typing / mypy_extensions (needed at run time) ...
             "post:moved-set": "implies(mover_stored(self) is not None, forall(self.import_items_to_be_moved, lambda it: item_module(it) != 'typing' and item_module(it) != 'mypy_extensions' and has(%s, it))"
                               " and forall(%s, lambda it: implies(item_module(it) != 'typing' and item_module(it) != 'mypy_extensions', has(self.import_items_to_be_moved, it))))" % (_ST, _ST),
             # ... exactly those items are removed from the tree that already carries the TYPE_CHECKING import, and the block for them is inserted into *that* tree
             "post:order": "implies(mover_stored(self) is not None and len(self.import_items_to_be_moved) == 0, result is %s)" % _PRE,
             "post:block-into-removed-tree": "implies(mover_stored(self) is not None and len(self.import_items_to_be_moved) > 0, len(m_body(result)) == len(m_body(%s)) + 1)" % _PRE,
         })
