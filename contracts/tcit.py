"""Sidecar contracts for monkeytype/type_checking_imports_transformer.py (C16)."""
from pyvc.registry import contract

TH = ["cst"]
P = "monkeytype.type_checking_imports_transformer:"
_ITEMS = "items_of(self)"
_M_IMP = "exists(%s, lambda it: item_module(it) is alias_name({a}) and item_obj(it) is None and item_alias(it) is alias_asname({a}))" % _ITEMS
_M_FROM = "exists(%s, lambda it: item_module(it) is from_module(updated_node) and item_obj(it) is alias_obj({a}) and item_alias(it) is alias_asname({a}))" % _ITEMS


def _contract(name, matched, cond_inner, requires=None):
    contract(P + "RemoveImportsTransformer." + name, props=["C16", "C15"], theories=TH, requires=requires or {},
             params={"self": "ImpTransformer", "original_node": "ImportNode", "updated_node": "ImportNode"}, result="ImportNode",
             ensures={
                 # every import the source already had stays: a name is removed only if the ImportItem it denotes (module, object, alias) is in the move list
                 "post:kept-unless-in-move-list": "implies(not is_star(updated_node), forall(cst_names(updated_node), lambda a: implies(not " + matched.format(a="a") + ","
                                                  " result is not REMOVE and has(cst_names(result), alias_nocomma(a)))))",
                 "post:nothing-invented": "implies(result is not REMOVE and not is_star(updated_node), forall(cst_names(result), lambda x: exists(cst_names(updated_node), lambda a: x is alias_nocomma(a) and not "
                                          + matched.format(a="a") + ")))",
                 "post:removed-iff-all-moved": "implies(not is_star(updated_node), (result is REMOVE) == forall(cst_names(updated_node), lambda a: " + matched.format(a="a") + "))",
                 "post:star-untouched": "implies(is_star(updated_node), result is updated_node)",
             },
             hints={"nothing-kept": "implies(len(L_names_to_keep) == 0, forall_v(lambda x: not has(L_names_to_keep, x)))",
                    "empty-means-all-moved": "implies(len(L_names_to_keep) == 0, forall(range_(0, len(cst_names(updated_node))), lambda j: " + matched.format(a="nth(cst_names(updated_node), j)") + "))",
                    "nonempty-means-one-kept": "implies(len(L_names_to_keep) > 0, exists(range_(0, len(cst_names(updated_node))), lambda j: not " + matched.format(a="nth(cst_names(updated_node), j)") + "))"},
             loops={0: {"iter": "updated_node.names",
                        "inv": {"kept": "forall(range_(0, _i), lambda j: implies(not " + matched.format(a="nth(cst_names(updated_node), j)") + ", has(names_to_keep, alias_nocomma(nth(cst_names(updated_node), j)))))",
                                "only": "forall(names_to_keep, lambda x: exists(range_(0, _i), lambda j: x is alias_nocomma(nth(cst_names(updated_node), j)) and not "
                                        + matched.format(a="nth(cst_names(updated_node), j)") + "))"}},
                    1: {"iter": "self.import_items_to_be_removed",
                        "inv": {"scan": "not found and forall(range_(0, _i), lambda q: not (" + cond_inner.format(it="nth(items_of(self), q)") + "))"}},
                    "tags": {"names_to_keep": "Seq[Alias]"}})


_contract("leave_Import", _M_IMP, "item_module({it}) is alias_name(name) and item_obj({it}) is None and item_alias({it}) is alias_asname(name)",
          requires={"import-statement": "not is_star(updated_node)"})
_contract("leave_ImportFrom", _M_FROM, "item_module({it}) is from_module(updated_node) and item_obj({it}) is alias_obj(name) and item_alias({it}) is alias_asname(name)")

contract(P + "MoveImportsToTypeCheckingBlockVisitor._remove_typing_module", props=["C16", "C15"], theories=TH,
         params={"import_item_list": "Seq[Item]"}, result="Seq[Item]",
         # whatever generated code needs at import time (typing names, the TypedDict base class) is never in the list that gets confined
         ensures={"post:runtime-needed-not-moved": "forall(result, lambda it: item_module(it) != 'typing' and item_module(it) != 'mypy_extensions')",
                  "post:others-kept": "forall(import_item_list, lambda it: implies(item_module(it) != 'typing' and item_module(it) != 'mypy_extensions', has(result, it)))",
                  "post:subset": "forall(result, lambda it: has(import_item_list, it))"},
         loops={0: {"iter": "import_item_list",
                    "inv": {"no-runtime": "forall(ret, lambda it: item_module(it) != 'typing' and item_module(it) != 'mypy_extensions' and has(import_item_list, it))",
                            "kept": "forall(range_(0, _i), lambda j: implies(item_module(nth(import_item_list, j)) != 'typing' and item_module(nth(import_item_list, j)) != 'mypy_extensions', has(ret, nth(import_item_list, j))))"}},
                "tags": {"ret": "Seq[Item]"}})
