"""Sidecar contracts for monkeytype/stubs.py."""
from pyvc.registry import contract

TH = ["types", "sig"]

contract("monkeytype.typing:make_iterator", props=["C13"], theories=TH,
         params={"typ": "Ty"}, result="Ty",
         ensures={"post:def": "result is Iterator_(typ)"})

contract("monkeytype.typing:make_generator", props=["C13"], theories=TH,
         params={"yield_typ": "Ty", "send_typ": "Ty", "return_typ": "Ty"}, result="Ty",
         ensures={"post:def": "result is Generator_(yield_typ, send_typ, return_typ)"})

contract("monkeytype.stubs:_is_optional", props=["C13", "C11"], theories=TH,
         params={"anno": "Anno"}, result="bool",
         requires={"not-bare-union": "anno is not UNION_BARE"},
         ensures={"post:def": "result == (kind(anno) is K_Union and umember(anno, NONETYPE))"})

# C13: the decision table of the statement, per position
_TABLE = (
    "ite(has_self and {i} == 0,"
    "    ite(panno(nth(params_of(sig), {i})) is not EMPTY and existing_annotation_strategy is OMIT, EMPTY, panno(nth(params_of(sig), {i}))),"
    "    ite(existing_annotation_strategy is IGNORE or panno(nth(params_of(sig), {i})) is EMPTY,"
    "        ite(has(arg_types, pname(nth(params_of(sig), {i}))) and lookup(arg_types, pname(nth(params_of(sig), {i}))) is not None,"
    "            lookup(arg_types, pname(nth(params_of(sig), {i}))), EMPTY),"
    "        ite(existing_annotation_strategy is OMIT, EMPTY, panno(nth(params_of(sig), {i})))))"
)
_ROW = ("panno(nth({ps}, {i})) is " + _TABLE + " and pname(nth({ps}, {i})) is pname(nth(params_of(sig), {i}))"
        " and pkind(nth({ps}, {i})) is pkind(nth(params_of(sig), {i})) and pdefault(nth({ps}, {i})) is pdefault(nth(params_of(sig), {i}))")

contract("monkeytype.stubs:update_signature_args", props=["C13", "C12", "C10"], theories=TH,
         params={"sig": "Sig", "arg_types": "Dict[str,Opt[Ty]]", "has_self": "bool", "existing_annotation_strategy": "Enum:ExistingAnnotationStrategy"},
         result="Sig",
         requires={"valid": "is_valid_sig(sig)",
                   "strategy": "existing_annotation_strategy is REPLICATE or existing_annotation_strategy is IGNORE or existing_annotation_strategy is OMIT"},
         ensures={
             "frame:count": "len(params_of(result)) == len(params_of(sig))",
             "frame:return": "ret_of(result) is ret_of(sig)",
             "post:table": "forall(range_(0, len(params_of(sig))), lambda i: " + _ROW.format(ps="params_of(result)", i="i") + ")",
         },
         loops={0: {"iter": "enumerate(sig.parameters)",
                    "inv": {"len": "len(params) == _i",
                            "table": "forall(range_(0, _i), lambda j: " + _ROW.format(ps="params", i="j") + ")"}},
                "tags": {"params": "Seq[Param]"}})

contract("monkeytype.stubs:update_signature_return", props=["C13"], theories=TH,
         params={"sig": "Sig", "return_type": "Opt[Ty]", "yield_type": "Opt[Ty]", "existing_annotation_strategy": "Enum:ExistingAnnotationStrategy"},
         result="Sig",
         requires={"strategy": "existing_annotation_strategy is REPLICATE or existing_annotation_strategy is IGNORE or existing_annotation_strategy is OMIT"},
         lets={"old_": "ret_of(sig)", "new": "ret_of(result)", "has_": "ret_of(sig) is not EMPTY", "s": "existing_annotation_strategy",
               "traced": "not (ret_of(sig) is not EMPTY and (existing_annotation_strategy is OMIT or existing_annotation_strategy is REPLICATE))"},
         ensures={
             "frame:parameters": "params_of(result) is params_of(sig)",
             "post:omit": "implies(has_ and s is OMIT, new is EMPTY)",
             "post:replicate": "implies(has_ and s is REPLICATE, new is old_)",
             "post:iterator": "implies(traced and yield_type is not None and (return_type is None or return_type is NONETYPE), new is Iterator_(yield_type))",
             "post:generator": "implies(traced and yield_type is not None and not (return_type is None or return_type is NONETYPE),"
                               " new is Generator_(yield_type, NONETYPE, return_type))",
             "post:return": "implies(traced and yield_type is None and return_type is not None, new is return_type)",
             "post:never-invented": "implies(traced and yield_type is None and return_type is None, new is old_)",
         })

contract("monkeytype.stubs:render_annotation", props=["C11", "C12", "C13"], theories=TH, mode="assumed",
         params={"anno": "Anno"}, result="strp",
         note="text of an annotation: outside the VC generator (repr of typing objects, str.replace chains); "
              "decided by the bounded tier of C11. Callers see an uninterpreted string function of the type.")

_EFFECTIVE = "ite(not (kind(panno(param)) is K_Union and umember(panno(param), NONETYPE)) and pdefault(param) is None," \
             " Union_(tup(panno(param), NONETYPE)), panno(param))"
contract("monkeytype.stubs:render_parameter", props=["C12", "C13"], theories=TH,
         params={"param": "Param"}, result="str", hide=["post:text"],
         requires={"anno-wf": "panno(param) is not UNION_BARE", "name-str": "true"},
         ensures={
             # name first, * / ** by kind, `= ...` iff a default is present, annotation iff not empty;
             # C13: an annotated parameter whose default is None is shown as Optional of its annotation
             "post:text": "unboxs(result) == concat(ite(pkind(param) is VAR_POSITIONAL, '*', ite(pkind(param) is VAR_KEYWORD, '**', '')),"
                          " unboxs(pname(param)),"
                          " ite(panno(param) is not EMPTY, concat(': ', render_annotation(" + _EFFECTIVE + ")), ''),"
                          " ite(pdefault(param) is not EMPTY, ' = ...', ''))",
         })

# C12: the token list is E(sig): parameters in order, one '/' right after the positional-only ones,
# one bare '*' before the first keyword-only parameter unless *args precedes it.
_S = "ite(npo(sig) > 0, 1, 0)"
_STAR = "(npos(sig) < len(params_of(sig)) and pkind(nth(params_of(sig), npos(sig))) is KEYWORD_ONLY)"
_K = "ite(" + _STAR + ", 1, 0)"
_TOK = "L_formatted_params"
_POS = "j + ite(j >= npo(sig) and npo(sig) > 0, 1, 0) + ite(j >= npos(sig) and " + _STAR + ", 1, 0)"
contract("monkeytype.stubs:render_signature", props=["C12"], theories=TH,
         params={"sig": "Sig", "max_line_len": "Opt[int]", "prefix": "strp"}, result="strp",
         requires={"valid": "is_valid_sig(sig)",
                   "anno-wf": "forall(params_of(sig), lambda p: panno(p) is not UNION_BARE)"},
         ensures={
             "post:token-count": "len(%s) == len(params_of(sig)) + %s + %s" % (_TOK, _S, _K),
             "post:tokens": "forall(range_(0, len(params_of(sig))), lambda j: nth(%s, %s) is render_parameter(nth(params_of(sig), j)), lambda j: nth(params_of(sig), j))" % (_TOK, _POS),
             "post:slash": "implies(npo(sig) > 0, nth(%s, npo(sig)) is boxs('/'))" % _TOK,
             "post:star": "implies(%s, nth(%s, npos(sig) + %s) is boxs('*'))" % (_STAR, _TOK, _S),
             "post:single-line": "implies(result == L_rendered_single_line, result == concat('(', str_join(', ', %s), ')', L_rendered_return))" % _TOK,
             "post:return-text": "L_rendered_return == ite(ret_of(sig) is not EMPTY, concat(' -> ', render_annotation(ret_of(sig))), '')",
         },
         loops={
             0: {"iter": "sig.parameters.values()",
                 "inv": {
                     "flags-pos": "render_pos_only_separator == (_i > 0 and _i <= npo(sig))",
                     "flags-kw": "render_kw_only_separator == (_i <= npos(sig) or pkind(nth(params_of(sig), npos(sig))) is VAR_KEYWORD)",
                     "count": "len(formatted_params) == _i + ite(_i > npo(sig) and npo(sig) > 0, 1, 0) + ite(_i > npos(sig) and %s, 1, 0)" % _STAR,
                     "tokens": "forall(range_(0, _i), lambda j: nth(formatted_params, %s) is render_parameter(nth(params_of(sig), j)), lambda j: nth(params_of(sig), j))" % _POS,
                     "slash": "implies(_i > npo(sig) and npo(sig) > 0, nth(formatted_params, npo(sig)) is boxs('/'))",
                     "star": "implies(_i > npos(sig) and %s, nth(formatted_params, npos(sig) + %s) is boxs('*'))" % (_STAR, _S),
                 }},
             1: {"iter": "enumerate(formatted_params)",
                 "inv": {
                     "len": "len(rendered_multi_lines) == _i + 1",
                     "first": "unboxs(nth(rendered_multi_lines, 0)) == '('",
                     "lines": "forall(range_(0, _i), lambda j: unboxs(nth(rendered_multi_lines, j + 1)) == concat(prefix, '    ', unboxs(nth(formatted_params, j)), ite(j != len(formatted_params) - 1, ',', '')))",
                 }},
             "tags": {"formatted_params": "Seq[str]", "rendered_multi_lines": "Seq[str]"}})
