"""Sidecar contracts for monkeytype/stubs.py."""
from pyvc.registry import contract

TH = ["types", "sig"]

contract("monkeytype.typing:make_iterator", props=["C13"], theories=TH,
         params={"typ": "Ty"}, result="Ty",
         ensures={"post:def": "result is Iterator_(typ)"})

contract("monkeytype.typing:make_generator", props=["C13"], theories=TH,
         params={"yield_typ": "Ty", "send_typ": "Ty", "return_typ": "Ty"}, result="Ty",
         ensures={"post:def": "result is Generator_(yield_typ, send_typ, return_typ)"})

contract("monkeytype.stubs:_is_optional", props=["C13", "C11"], theories=TH,
         params={"anno": "Anno"}, result="bool",
         requires={"not-bare-union": "anno is not UNION_BARE"},
         ensures={"post:def": "result == (kind(anno) is K_Union and umember(anno, NONETYPE))"})

# C13: the decision table of the statement, per position
_TABLE = (
    "ite(has_self and {i} == 0,"
    "    ite(panno(nth(params_of(sig), {i})) is not EMPTY and existing_annotation_strategy is OMIT, EMPTY, panno(nth(params_of(sig), {i}))),"
    "    ite(existing_annotation_strategy is IGNORE or panno(nth(params_of(sig), {i})) is EMPTY,"
    "        ite(has(arg_types, pname(nth(params_of(sig), {i}))) and lookup(arg_types, pname(nth(params_of(sig), {i}))) is not None,"
    "            lookup(arg_types, pname(nth(params_of(sig), {i}))), EMPTY),"
    "        ite(existing_annotation_strategy is OMIT, EMPTY, panno(nth(params_of(sig), {i})))))"
)
_ROW = ("panno(nth({ps}, {i})) is " + _TABLE + " and pname(nth({ps}, {i})) is pname(nth(params_of(sig), {i}))"
        " and pkind(nth({ps}, {i})) is pkind(nth(params_of(sig), {i})) and pdefault(nth({ps}, {i})) is pdefault(nth(params_of(sig), {i}))")

contract("monkeytype.stubs:update_signature_args", props=["C13", "C12", "C10"], theories=TH,
         params={"sig": "Sig", "arg_types": "Dict[str,Opt[Ty]]", "has_self": "bool", "existing_annotation_strategy": "Enum:ExistingAnnotationStrategy"},
         result="Sig",
         requires={"valid": "is_valid_sig(sig)",
                   "strategy": "existing_annotation_strategy is REPLICATE or existing_annotation_strategy is IGNORE or existing_annotation_strategy is OMIT"},
         ensures={
             "frame:count": "len(params_of(result)) == len(params_of(sig))",
             "frame:return": "ret_of(result) is ret_of(sig)",
             "post:table": "forall(range_(0, len(params_of(sig))), lambda i: " + _ROW.format(ps="params_of(result)", i="i") + ")",
         },
         loops={0: {"iter": "enumerate(sig.parameters)",
                    "inv": {"len": "len(params) == _i",
                            "table": "forall(range_(0, _i), lambda j: " + _ROW.format(ps="params", i="j") + ")"}},
                "tags": {"params": "Seq[Param]"}})

contract("monkeytype.stubs:update_signature_return", props=["C13"], theories=TH,
         params={"sig": "Sig", "return_type": "Opt[Ty]", "yield_type": "Opt[Ty]", "existing_annotation_strategy": "Enum:ExistingAnnotationStrategy"},
         result="Sig",
         requires={"strategy": "existing_annotation_strategy is REPLICATE or existing_annotation_strategy is IGNORE or existing_annotation_strategy is OMIT"},
         lets={"old_": "ret_of(sig)", "new": "ret_of(result)", "has_": "ret_of(sig) is not EMPTY", "s": "existing_annotation_strategy",
               "traced": "not (ret_of(sig) is not EMPTY and (existing_annotation_strategy is OMIT or existing_annotation_strategy is REPLICATE))"},
         ensures={
             "frame:parameters": "params_of(result) is params_of(sig)",
             "post:omit": "implies(has_ and s is OMIT, new is EMPTY)",
             "post:replicate": "implies(has_ and s is REPLICATE, new is old_)",
             "post:iterator": "implies(traced and yield_type is not None and (return_type is None or return_type is NONETYPE), new is Iterator_(yield_type))",
             "post:generator": "implies(traced and yield_type is not None and not (return_type is None or return_type is NONETYPE),"
                               " new is Generator_(yield_type, NONETYPE, return_type))",
             "post:return": "implies(traced and yield_type is None and return_type is not None, new is return_type)",
             "post:never-invented": "implies(traced and yield_type is None and return_type is None, new is old_)",
         })
