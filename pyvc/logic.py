"""Logical universe of pyvc: one uninterpreted sort V for Python objects, primitive
z3 sorts for bool/int/str at interpreter level, boxed when stored in containers.

Everything here is *specification vocabulary*; nothing is derived from /repo.
Axioms are registered by name and theory so that every evidence file can list
the trusted base that a proof actually used.
"""
import z3

V = z3.DeclareSort("V")
I = z3.IntSort()
B = z3.BoolSort()
S = z3.StringSort()

_FUNCS = {}
_AXIOMS = {}  # name -> (theory, expr)
_ORDER = []


def fn(name, *sorts):
    """Declare (or fetch) an uninterpreted function symbol."""
    key = name
    if key in _FUNCS:
        f = _FUNCS[key]
        assert f.arity() == len(sorts) - 1, name
        return f
    f = z3.Function(name, *sorts)
    _FUNCS[key] = f
    return f


def const(name, sort=V):
    return z3.Const(name, sort)


def axiom(theory, name, expr):
    if name in _AXIOMS:
        return
    _AXIOMS[name] = (theory, expr)
    _ORDER.append(name)


def axioms_of(theories):
    return [(n, _AXIOMS[n][1]) for n in _ORDER if _AXIOMS[n][0] in theories]


def all_theories():
    return sorted({t for t, _ in _AXIOMS.values()})


_fresh = [0]


def fresh(prefix="k", sort=V):
    _fresh[0] += 1
    return z3.Const("%s!%d" % (prefix, _fresh[0]), sort)


def fresh_fn(prefix, *sorts):
    _fresh[0] += 1
    return z3.Function("%s!%d" % (prefix, _fresh[0]), *sorts)


def FA(vs, body, pats=None):
    if not isinstance(vs, (list, tuple)):
        vs = [vs]
    import sys as _sys
    fr = _sys._getframe(1)
    qid = "%s_L%d" % (fr.f_code.co_filename.rsplit("/", 1)[-1].replace(".", "_"), fr.f_lineno)   # for smt.qi.profile only
    if pats:
        pats = [z3.MultiPattern(*p) if isinstance(p, (tuple, list)) else p for p in pats]
        return z3.ForAll(list(vs), body, qid=qid, patterns=pats)
    return z3.ForAll(list(vs), body, qid=qid)


# ---------------------------------------------------------------- core theory
NONE = const("None")
len_ = fn("len", V, I)
nth = fn("nth", V, I, V)
has = fn("has", V, V, B)          # `x in c` for seq / set / dict keys
get = fn("get", V, V, V)          # d[k]
idx_of = fn("idx_of", V, V, I)    # skolem: position of a member
box_int = fn("box_int", I, V)
unbox_int = fn("unbox_int", V, I)
box_str = fn("box_str", S, V)
unbox_str = fn("unbox_str", V, S)
box_bool = fn("box_bool", B, V)
unbox_bool = fn("unbox_bool", V, B)
is_str = fn("is_str", V, B)
is_int = fn("is_pyint", V, B)
truthy = fn("truthy", V, B)
EMPTY_SEQ = const("empty_seq")
seq_append = fn("seq_append", V, V, V)
seq_concat = fn("seq_concat", V, V, V)
seq_slice = fn("seq_slice", V, I, I, V)   # s[a:b], 0<=a<=b<=len
seq_rev = fn("seq_rev", V, V)
dict_set = fn("dict_set", V, V, V, V)
EMPTY_DICT = const("empty_dict")
dict_values = fn("dict_values", V, V)
dict_items = fn("dict_items", V, V)
set_add = fn("set_add", V, V, V)
EMPTY_SET = const("empty_set")


def _core():
    s, t, x, y, k, v = (const(n) for n in ("s", "t", "x", "y", "k", "v"))
    i, j, a, b = (const(n, I) for n in ("i", "j", "a", "b"))
    st = const("st", S)
    bb = const("bb", B)
    T = "core"
    axiom(T, "len-nonneg", FA(s, len_(s) >= 0, [len_(s)]))
    axiom(T, "box-int", FA(i, unbox_int(box_int(i)) == i, [box_int(i)]))
    axiom(T, "box-str", FA(st, z3.And(unbox_str(box_str(st)) == st, is_str(box_str(st))), [box_str(st)]))
    axiom(T, "box-str-inv", FA(x, z3.Implies(is_str(x), box_str(unbox_str(x)) == x), [is_str(x)]))
    axiom(T, "box-bool", FA(bb, unbox_bool(box_bool(bb)) == bb, [box_bool(bb)]))
    axiom(T, "none-not-str", z3.Not(is_str(NONE)))
    axiom(T, "none-falsy", z3.Not(truthy(NONE)))
    # membership <-> index
    axiom(T, "has-idx", FA([s, x], z3.Implies(has(s, x), z3.And(0 <= idx_of(s, x), idx_of(s, x) < len_(s),
                                                                  nth(s, idx_of(s, x)) == x)), [has(s, x)]))
    axiom(T, "nth-has", FA([s, i], z3.Implies(z3.And(0 <= i, i < len_(s)), has(s, nth(s, i))), [nth(s, i)]))
    # seq constructors
    axiom(T, "empty-seq", len_(EMPTY_SEQ) == 0)
    axiom(T, "append-len", FA([s, x], len_(seq_append(s, x)) == len_(s) + 1, [seq_append(s, x)]))
    axiom(T, "append-nth", FA([s, x, i], nth(seq_append(s, x), i) == z3.If(i == len_(s), x, nth(s, i)),
                               [nth(seq_append(s, x), i)]))
    y_ = const("y_")
    axiom(T, "append-has", FA([s, x, y_], has(seq_append(s, x), y_) == z3.Or(y_ == x, has(s, y_)), [has(seq_append(s, x), y_)]))
    axiom(T, "concat-has", FA([s, t, y_], has(seq_concat(s, t), y_) == z3.Or(has(s, y_), has(t, y_)), [has(seq_concat(s, t), y_)]))
    axiom(T, "concat-len", FA([s, t], len_(seq_concat(s, t)) == len_(s) + len_(t), [seq_concat(s, t)]))
    axiom(T, "concat-nth", FA([s, t, i], nth(seq_concat(s, t), i) == z3.If(i < len_(s), nth(s, i), nth(t, i - len_(s))),
                               [nth(seq_concat(s, t), i)]))
    axiom(T, "concat-left", FA([s, t, i], z3.Implies(z3.And(0 <= i, i < len_(s)), nth(seq_concat(s, t), i) == nth(s, i)),
                                [(seq_concat(s, t), nth(s, i))]))
    axiom(T, "concat-right", FA([s, t, i], z3.Implies(z3.And(0 <= i, i < len_(t)), nth(seq_concat(s, t), len_(s) + i) == nth(t, i)),
                                 [(seq_concat(s, t), nth(t, i))]))
    axiom(T, "slice-len", FA([s, a, b], z3.Implies(z3.And(0 <= a, a <= b, b <= len_(s)),
                                                     len_(seq_slice(s, a, b)) == b - a), [seq_slice(s, a, b)]))
    axiom(T, "slice-nth", FA([s, a, b, i], z3.Implies(z3.And(0 <= a, a <= b, b <= len_(s), 0 <= i, i < b - a),
                                                        nth(seq_slice(s, a, b), i) == nth(s, a + i)),
                              [nth(seq_slice(s, a, b), i)]))
    k_ = const("k_", I)
    axiom(T, "slice-nth-rev", FA([s, a, b, k_], z3.Implies(z3.And(0 <= a, a <= k_, k_ < b, b <= len_(s)),
                                                            nth(seq_slice(s, a, b), k_ - a) == nth(s, k_)),
                                  [(seq_slice(s, a, b), nth(s, k_))]))
    axiom(T, "rev-len", FA(s, len_(seq_rev(s)) == len_(s), [seq_rev(s)]))
    axiom(T, "rev-nth", FA([s, i], z3.Implies(z3.And(0 <= i, i < len_(s)), nth(seq_rev(s), i) == nth(s, len_(s) - 1 - i)),
                            [nth(seq_rev(s), i)]))
    # dicts: iteration order = key sequence (nth on the dict itself), distinct keys
    axiom(T, "empty-dict", len_(EMPTY_DICT) == 0)
    # distinct keys, stated as "idx_of inverts nth" (linear in the number of index terms; the pairwise form
    # nth(s,i) != nth(s,j) instantiates quadratically and made z3 diverge on unions, whose __args__ are duplicate-free)
    axiom(T, "dict-keys-distinct", FA([s, i], z3.Implies(z3.And(0 <= i, i < len_(s), is_dictlike(s)), idx_of(s, nth(s, i)) == i),
                                      [(is_dictlike(s), nth(s, i))]))
    axiom(T, "dict-set-has", FA([s, k, v, x], has(dict_set(s, k, v), x) == z3.Or(x == k, has(s, x)),
                                 [has(dict_set(s, k, v), x)]))
    axiom(T, "dict-set-get", FA([s, k, v, x], get(dict_set(s, k, v), x) == z3.If(x == k, v, get(s, x)),
                                 [get(dict_set(s, k, v), x)]))
    # (the length / order / distinctness facts of an updated dict hold for dicts - sequences with distinct elements - only:
    #  dict_set / dict_del / set_add are total function symbols, and unguarded these axioms are inconsistent on a sequence with duplicates)
    axiom(T, "dict-set-len", FA([s, k, v], z3.Implies(is_dictlike(s), len_(dict_set(s, k, v)) == z3.If(has(s, k), len_(s), len_(s) + 1)),
                                 [dict_set(s, k, v)]))
    axiom(T, "dict-set-order", FA([s, k, v, i], z3.Implies(z3.And(0 <= i, i < len_(s), is_dictlike(s)), nth(dict_set(s, k, v), i) == nth(s, i)),
                                   [nth(dict_set(s, k, v), i)]))
    axiom(T, "dict-set-order-new", FA([s, k, v], z3.Implies(z3.And(z3.Not(has(s, k)), is_dictlike(s)), nth(dict_set(s, k, v), len_(s)) == k),
                                       [dict_set(s, k, v)]))
    axiom(T, "dict-set-dictlike", FA([s, k, v], z3.Implies(is_dictlike(s), is_dictlike(dict_set(s, k, v))), [dict_set(s, k, v)]))
    axiom(T, "empty-dict-dictlike", is_dictlike(EMPTY_DICT))
    axiom(T, "values-len", FA(s, len_(dict_values(s)) == len_(s), [dict_values(s)]))
    axiom(T, "values-nth", FA([s, i], z3.Implies(z3.And(0 <= i, i < len_(s)), nth(dict_values(s), i) == get(s, nth(s, i))),
                               [nth(dict_values(s), i), (dict_values(s), nth(s, i))]))
    axiom(T, "items-len", FA(s, len_(dict_items(s)) == len_(s), [dict_items(s)]))
    axiom(T, "items-nth", FA([s, i], z3.Implies(z3.And(0 <= i, i < len_(s)),
                                                 z3.And(len_(nth(dict_items(s), i)) == 2,
                                                        nth(nth(dict_items(s), i), 0) == nth(s, i),
                                                        nth(nth(dict_items(s), i), 1) == get(s, nth(s, i)))),
                              [nth(dict_items(s), i), (dict_items(s), nth(s, i))]))
    # sets
    axiom(T, "empty-set", z3.And(len_(EMPTY_SET) == 0, is_dictlike(EMPTY_SET)))
    axiom(T, "set-add-has", FA([s, k, x], has(set_add(s, k), x) == z3.Or(x == k, has(s, x)), [has(set_add(s, k), x)]))
    axiom(T, "set-add-len", FA([s, k], z3.Implies(is_dictlike(s), z3.And(len_(set_add(s, k)) == z3.If(has(s, k), len_(s), len_(s) + 1),
                                                                       is_dictlike(set_add(s, k)))), [set_add(s, k)]))


is_dictlike = fn("is_dictlike", V, B)   # distinct elements (dict keys / set)
_core()

_TUPLE_FNS = {}


def mk_tuple(items):
    """Concrete-length tuple/list of V terms."""
    n = len(items)
    if n == 0:
        return EMPTY_SEQ
    if n not in _TUPLE_FNS:
        f = fn("tuple%d" % n, *([V] * n + [V]))
        xs = [const("t%d_%d" % (n, q)) for q in range(n)]
        app = f(*xs)
        axiom("core", "tuple%d" % n, FA(xs, z3.And(len_(app) == n, app != NONE, *[nth(app, q) == xs[q] for q in range(n)]), [app]))
        _TUPLE_FNS[n] = f
    return _TUPLE_FNS[n](*items)


_ATOMS = {}


def atom(group, name):
    """Named distinct constants (enum members, singletons)."""
    key = (group, name)
    if key not in _ATOMS:
        _ATOMS[key] = const("%s.%s" % (group, name))
    return _ATOMS[key]


def distinctness_axioms():
    """All atoms are pairwise distinct and distinct from None; strings are not atoms."""
    out = []
    cs = [NONE, EMPTY_SEQ, EMPTY_DICT, EMPTY_SET] + list(_ATOMS.values())
    atoms_only = [NONE] + list(_ATOMS.values())
    if len(atoms_only) > 1:
        out.append(("atoms-distinct", z3.Distinct(*atoms_only)))
    for c in atoms_only:
        out.append(("atom-not-str:%s" % c, z3.Not(is_str(c))))
    return out


# dict deletion
dict_del = fn("dict_del", V, V, V)
set_union = fn("set_union", V, V, V)      # s.update(t) / s | t: membership view
set_diff = fn("set_diff", V, V, V)        # s.difference(t): membership view


def _core2():
    s, k, x = const("s"), const("k"), const("x")
    T = "core"
    axiom(T, "dict-del-has", FA([s, k, x], has(dict_del(s, k), x) == z3.And(x != k, has(s, x)), [has(dict_del(s, k), x)]))
    axiom(T, "dict-del-get", FA([s, k, x], z3.Implies(x != k, get(dict_del(s, k), x) == get(s, x)), [get(dict_del(s, k), x)]))
    axiom(T, "dict-del-len", FA([s, k], z3.Implies(is_dictlike(s), z3.And(len_(dict_del(s, k)) == z3.If(has(s, k), len_(s) - 1, len_(s)), is_dictlike(dict_del(s, k)))),
                                [dict_del(s, k)]))
    axiom(T, "has-len", FA([s, x], z3.Implies(has(s, x), len_(s) >= 1), [has(s, x)]))
    t_ = const("t_")
    axiom(T, "set-union-has", FA([s, t_, x], has(set_union(s, t_), x) == z3.Or(has(s, x), has(t_, x)), [has(set_union(s, t_), x)]))
    axiom(T, "set-diff-has", FA([s, t_, x], has(set_diff(s, t_), x) == z3.And(has(s, x), z3.Not(has(t_, x))), [has(set_diff(s, t_), x), (set_diff(s, t_), has(s, x))]))
    axiom(T, "set-diff-not-none", FA([s, t_], set_diff(s, t_) != NONE, [set_diff(s, t_)]))
    axiom(T, "set-union-not-none", FA([s, t_], set_union(s, t_) != NONE, [set_union(s, t_)]))
    v = const("v")
    axiom(T, "containers-not-none", z3.And(EMPTY_DICT != NONE, EMPTY_SEQ != NONE, EMPTY_SET != NONE))
    axiom(T, "dict-set-not-none", FA([s, k, v], dict_set(s, k, v) != NONE, [dict_set(s, k, v)]))
    axiom(T, "append-not-none", FA([s, x], seq_append(s, x) != NONE, [seq_append(s, x)]))
    axiom(T, "set-add-not-none", FA([s, x], set_add(s, x) != NONE, [set_add(s, x)]))


_core2()
