"""Generic spec vocabulary (symbolic reading). Concrete twins live in /verif/runtime/spec_c.py."""
import z3
from . import logic as L
from . import registry as R
from .values import *


def spec(name):
    def deco(f):
        R.SPEC[name] = SpecFn(f, name)
        return f
    return deco


def declare_pred(name, *argsorts, tag=None):
    """Declare an uninterpreted predicate/function of the theories and expose it to clauses."""
    res = argsorts[-1]
    f = L.fn(name, *argsorts)

    def call(interp, args, kwargs):
        terms = []
        for a, s in zip(args, argsorts[:-1]):
            if s == L.V:
                terms.append(as_v(a))
            elif s == L.I:
                terms.append(as_int(a))
            elif s == L.B:
                terms.append(as_bool(a))
            else:
                terms.append(as_str(a))
        t = f(*terms)
        if res == L.B:
            return ZB(t)
        if res == L.I:
            return ZI(t)
        if res == L.S:
            return ZS(t)
        return ZV(t, tag)
    R.SPEC[name] = SpecFn(call, name)
    return f


@spec("implies")
def _implies(ip, args, kw):
    return ZB(z3.Implies(as_bool(args[0]), as_bool(args[1])))


@spec("iff")
def _iff(ip, args, kw):
    return ZB(as_bool(args[0]) == as_bool(args[1]))


@spec("ite")
def _ite(ip, args, kw):
    return ip.ite(as_bool(args[0]), args[1], args[2])


@spec("eq")
def _eq(ip, args, kw):
    return ZB(eq(args[0], args[1]))


@spec("range_")
def _range(ip, args, kw):
    return PyRange(args[0], args[1])


def _quant(ip, args, universal, pats=None):
    dom, body = args[0], args[1]
    st = ip.st
    if isinstance(dom, Closure):
        # unbounded quantification over V: forall(lambda v: ...)
        names = [a.arg for a in dom.node.args.args]
        vs = [L.fresh(n) for n in names]
        b = as_bool(ip.call_closure(dom, [ZV(v, None) for v in vs]))
        return ZB(z3.ForAll(vs, b) if universal else z3.Exists(vs, b))
    j = L.fresh("j", L.I)
    if isinstance(dom, PyRange):
        guard = z3.And(as_int(dom.lo) <= j, j < as_int(dom.hi))
        x = ZI(j)
        pat = None
    elif isinstance(dom, PySeq):
        ts = [as_bool(ip.call_closure(body, [it])) for it in dom.items]
        if not ts:
            return ZB(universal)
        return ZB(z3.And(*ts) if universal else z3.Or(*ts))
    else:
        sv = ip.seq_of(dom)
        guard = z3.And(0 <= j, j < L.len_(sv.term))
        x = ip.retag(L.nth(sv.term, j), ip.elem_tag(sv))
        pat = [L.nth(sv.term, j)]
    b = as_bool(ip.call_closure(body, [x]))
    if len(args) > 2:
        # explicit trigger: forall(dom, lambda j: body, lambda j: term)
        tv = ip.call_closure(args[2], [x])
        tvs = tv.items if isinstance(tv, PySeq) else [tv]
        pat = [z3.MultiPattern(*[_term(t) for t in tvs])] if len(tvs) > 1 else [_term(tvs[0])]
    if universal:
        q = None
        if pat:
            try:
                q = z3.ForAll([j], z3.Implies(guard, b), patterns=pat)
            except z3.Z3Exception:
                q = None
        if q is None:
            q = z3.ForAll([j], z3.Implies(guard, b))
    else:
        q = z3.Exists([j], z3.And(guard, b))
    return ZB(q)


def _term(v):
    if isinstance(v, (ZB, ZI, ZS)):
        return v.term
    return as_v(v)


@spec("forall")
def _forall(ip, args, kw):
    return _quant(ip, args, True)


@spec("exists")
def _exists(ip, args, kw):
    return _quant(ip, args, False)


@spec("nth")
def _nth(ip, args, kw):
    sv = ip.seq_of(args[0])
    return ip.retag(L.nth(sv.term, as_int(args[1])), ip.elem_tag(sv))


@spec("has")
def _has(ip, args, kw):
    return ZB(L.has(as_v(args[0]), as_v(args[1])))


@spec("lookup")
def _lookup(ip, args, kw):
    d = args[0]
    return ip.retag(L.get(as_v(d), as_v(args[1])), ip.val_tag(d))


@spec("is_none")
def _is_none(ip, args, kw):
    return ZB(as_v(args[0]) == L.NONE)


@spec("effects")
def _effects(ip, args, kw):
    return ZV(ip.st.effects, "seq")


@spec("seq_prefix")
def _prefix(ip, args, kw):
    """prefix(s, i) = s[:i] as a sequence term."""
    sv = ip.seq_of(args[0])
    return ZV(L.seq_slice(sv.term, z3.IntVal(0), as_int(args[1])), sv.tag)


@spec("tup")
def _tup(ip, args, kw):
    return ZV(L.mk_tuple([as_v(a) for a in args]), "seq")


@spec("append")
def _append(ip, args, kw):
    return ZV(L.seq_append(as_v(args[0]), as_v(args[1])), getattr(args[0], "tag", "seq"))


@spec("strlen")
def _strlen(ip, args, kw):
    return ZI(z3.Length(as_str(args[0])))


@spec("prefixof")
def _prefixof(ip, args, kw):
    return ZB(z3.PrefixOf(as_str(args[0]), as_str(args[1])))


R.SPEC["true"] = PyC(True)
R.SPEC["false"] = PyC(False)


@spec("concat")
def _concat(ip, args, kw):
    parts = [as_str(a) for a in args]
    return ZS(z3.Concat(*parts) if len(parts) > 1 else parts[0])


@spec("str_join")
def _str_join(ip, args, kw):
    return ZS(L.fn("str_join", L.S, L.V, L.S)(as_str(args[0]), as_v(args[1])))


@spec("boxs")
def _boxs(ip, args, kw):
    """A string as an element of a sequence."""
    return ZV(L.box_str(as_str(args[0])), "str")


@spec("unboxs")
def _unboxs(ip, args, kw):
    return ZS(L.unbox_str(as_v(args[0])))


@spec("is_dictlike_")
def _is_dictlike(ip, args, kw):
    return ZB(L.is_dictlike(as_v(args[0])))


declare_pred("preexisting", L.V, L.B)   # ghost: the object existed when the function under contract was entered


@spec("forall_v")
def _forall_v(ip, args, kw):
    clo = args[0]
    names = [a.arg for a in clo.node.args.args]
    vs = [L.fresh(n) for n in names]
    tags = kw.get("tags")
    b = as_bool(ip.call_closure(clo, [ZV(v, "Trace") for v in vs]))
    return ZB(z3.ForAll(vs, b))


@spec("exists_v")
def _exists_v(ip, args, kw):
    clo = args[0]
    names = [a.arg for a in clo.node.args.args]
    vs = [L.fresh(n) for n in names]
    b = as_bool(ip.call_closure(clo, [ZV(v, None) for v in vs]))
    return ZB(z3.Exists(vs, b))


@spec("forall_str2")
def _forall_str2(ip, args, kw):
    clo = args[0]
    a, b = L.fresh("rs", L.S), L.fresh("rs", L.S)
    body = as_bool(ip.call_closure(clo, [ZS(a), ZS(b)]))
    return ZB(z3.ForAll([a, b], body))


@spec("values_")
def _values(ip, args, kw):
    return ZV(L.dict_values(as_v(args[0])), "seq")


@spec("is_str_")
def _is_str(ip, args, kw):
    return ZB(L.is_str(as_v(args[0])))


@spec("entry")
def _entry(ip, args, kw):
    """entry('param'): the value the parameter had when the function was entered (parameters are mutable locals)."""
    ce = getattr(ip, "_callee_entry", None)
    if ce is not None and args[0].value in ce:
        return ce[args[0].value]       # a callee's clause evaluated at a call site: the actual argument
    return ip.entry_env[args[0].value]


@spec("pre_loop")
def _pre_loop(ip, args, kw):
    """pre_loop('name'): value of a local when the innermost enclosing loop was entered (before any of its iterations)."""
    if not ip.loop_entry_stack:
        raise Unsupported("pre_loop outside a loop")
    depth = args[1].value if len(args) > 1 else 1
    return ip.loop_entry_stack[-depth][args[0].value]


@spec("getd")
def _getd(ip, args, kw):
    """getd(d, k, empty): d[k] of a defaultdict (the empty container for a missing key)."""
    d, k = as_v(args[0]), as_v(args[1])
    empty = L.EMPTY_SET if (len(args) > 2 and isinstance(args[2], PyC) and args[2].value == "set") else L.EMPTY_SEQ
    return ZV(z3.If(L.has(d, k), L.get(d, k), empty), "seq")


@spec("tag_")
def _tag(ip, args, kw):
    """tag_(x, 'Tag'): the same term, with the static tag that selects attribute / method handlers (no logical content)."""
    return ZV(as_v(args[0]), args[1].value)


@spec("items_")
def _items(ip, args, kw):
    return ZV(L.dict_items(as_v(args[0])), "Seq[seq]")


@spec("values_")
def _values(ip, args, kw):
    """The sequence dict.values() returns."""
    return ZV(L.dict_values(as_v(args[0])), "seq")


@spec("concat_")
def _concat_spec(ip, args, kw):
    return ZV(L.seq_concat(as_v(args[0]), as_v(args[1])), "seq")


declare_pred("alloc_time", L.V, L.I)    # ghost: value of the allocation clock when the object was created by an inlined constructor


@spec("clock")
def _clock(ip, args, kw):
    """clock(): the ghost allocation clock now; clock0(): its value on entry."""
    return ZI(ip.st.clock)


@spec("clock0")
def _clock0(ip, args, kw):
    return ZI(ip.clock0)
