"""Expression evaluation of the symbolic interpreter (code mode and spec mode)."""
import ast
import z3
from . import logic as L
from . import registry as R
from . import source
from .values import *
from .state import PathEnd, RaisedEx


class UnboundLocalInHint(Exception):
    """A hint mentions a local that is not bound on this path: the hint does not apply there."""


_MUT_CACHE = {}


def mutated_globals(mi):
    """Module-level names that some function of the module rebinds (global) or mutates in place."""
    key = (mi.path, id(mi))
    if key in _MUT_CACHE:
        return _MUT_CACHE[key]
    MUT = {"append", "extend", "add", "update", "pop", "insert", "remove", "clear", "setdefault", "popitem", "discard"}
    out = set()
    names = set(mi.constants)
    for fn in ast.walk(mi.tree):
        if not isinstance(fn, (ast.FunctionDef, ast.AsyncFunctionDef)):
            continue
        local = {a.arg for a in fn.args.args + fn.args.kwonlyargs + fn.args.posonlyargs}
        for n in ast.walk(fn):
            if isinstance(n, ast.Assign):
                for t in n.targets:
                    if isinstance(t, ast.Name):
                        local.add(t.id)
        globs = set()
        for n in ast.walk(fn):
            if isinstance(n, ast.Global):
                globs.update(n.names)
        for n in ast.walk(fn):
            tgt = None
            if isinstance(n, (ast.Assign, ast.AugAssign, ast.Delete)):
                ts = n.targets if not isinstance(n, ast.AugAssign) else [n.target]
                for t in ts:
                    if isinstance(t, ast.Subscript) and isinstance(t.value, ast.Name):
                        tgt = t.value.id
                    elif isinstance(t, ast.Name) and t.id in globs:
                        tgt = t.id
                    if tgt and tgt in names and (tgt not in local or tgt in globs):
                        out.add(tgt)
            elif isinstance(n, ast.Call) and isinstance(n.func, ast.Attribute) and n.func.attr in MUT and isinstance(n.func.value, ast.Name):
                tgt = n.func.value.id
                if tgt in names and (tgt not in local or tgt in globs):
                    out.add(tgt)
    _MUT_CACHE[key] = out
    return out


class ExprMixin:
    # ------------------------------------------------------------- names
    def lookup(self, name, node=None):
        st = self.st
        if name in st.env:
            return st.env[name]
        if st.spec_mode and name in R.SPEC:
            return R.SPEC[name]
        r = source.resolve_global(self.mi, name)
        if r is not None:
            return self.global_value(r)
        if name in R.SPEC and st.spec_mode:
            return R.SPEC[name]
        if name in self.BUILTINS:
            return GlobalRef("builtins." + name)
        if ("builtins." + name) in R.EXTERNALS and not isinstance(R.EXTERNALS["builtins." + name], R.ExtFn):
            return self.global_value("builtins." + name)      # builtin constants a theory gives a value to (Ellipsis, NotImplemented)
        if name in R.SPEC:
            return R.SPEC[name]
        if st.spec_mode and name.startswith("L_") and getattr(self, "_strict_locals", False):
            raise UnboundLocalInHint(name)
        if st.spec_mode and name.startswith("L_"):
            # a local that is not bound on this path: unconstrained (clauses guard its use by the path's own condition)
            return ZV(L.fresh("unbound_" + name), None)
        raise Unsupported("unbound name %s (line %s)" % (name, getattr(node, "lineno", "?")))

    def global_value(self, path):
        """Value of a qualified global: contract function, external, enum member, module constant."""
        if path == "typing.Any" and not self.st.spec_mode and getattr(self.contract, "any_only_if", None) and not self._const_stack:
            # C05 inventory: every place where the verified body produces the literal Any, with its path condition
            self.oblige("post:any-literal@%d" % self.cur_line, as_bool(self.spec_eval(self.contract.any_only_if, dict(self.entry_env), clean=False)), self.cur_line,
                        clause="the literal Any is produced only if: " + self.contract.any_only_if)
        if path in R.EXTERNALS and not isinstance(R.EXTERNALS[path], R.ExtFn):
            v = R.EXTERNALS[path]
            return v(self) if callable(v) else v
        if ":" in path:
            mod, qual = path.split(":")
            try:
                mi = source.load(mod)
            except KeyError:
                return GlobalRef(path)
            if "." in qual:
                cls0, member0 = qual.rsplit(".", 1)
                if cls0 in mi.classes and self.is_enum(mi, cls0) and qual in mi.constants:
                    return ZV(L.atom(cls0, member0), "Enum:" + cls0)
            if qual in mi.constants and qual not in mi.functions and qual not in mi.classes:
                if qual in mutated_globals(mi):
                    raise Unsupported("module-level mutable state %s is written somewhere in %s: its value is not a constant" % (qual, mod))
                if path in self._const_stack:
                    raise Unsupported("recursive constant " + path)
                self._const_stack.append(path)
                saved_mi, saved_env = self.mi, self.st.env
                try:
                    self.mi, self.st.env = mi, {}
                    return self.eval(mi.constants[qual])
                finally:
                    self.mi, self.st.env = saved_mi, saved_env
                    self._const_stack.pop()
            # enum member 'mod:Class.MEMBER'
            if "." in qual:
                cls, member = qual.rsplit(".", 1)
                if cls in mi.classes and self.is_enum(mi, cls) and (cls + "." + member) in mi.constants:
                    return ZV(L.atom(cls, member), "Enum:" + cls)
                if cls in mi.classes and (cls + "." + member) in mi.constants and (cls + "." + member) not in mi.functions:
                    saved_mi, saved_env = self.mi, self.st.env
                    try:
                        self.mi, self.st.env = mi, {}
                        return self.eval(mi.constants[cls + "." + member])
                    finally:
                        self.mi, self.st.env = saved_mi, saved_env
        return GlobalRef(path)

    def is_enum(self, mi, cls):
        node = mi.classes[cls]
        for b in node.bases:
            if isinstance(b, ast.Attribute) and b.attr == "Enum":
                return True
            if isinstance(b, ast.Name) and b.id == "Enum":
                return True
        return False

    # ------------------------------------------------------------- dispatcher
    def eval(self, node):
        m = getattr(self, "e_" + type(node).__name__, None)
        if m is None:
            raise Unsupported("expression %s (line %s)" % (type(node).__name__, getattr(node, "lineno", "?")))
        return m(node)

    def e_Constant(self, node):
        return PyC(node.value)

    def e_Name(self, node):
        return self.lookup(node.id, node)

    def e_Tuple(self, node):
        return self._display(node, "tuple")

    def e_List(self, node):
        return self._display(node, "list")

    def e_Set(self, node):
        return self._display(node, "set")

    def _display(self, node, kind):
        items = []
        symbolic = None
        for e in node.elts:
            if isinstance(e, ast.Starred):
                v = self.eval(e.value)
                if isinstance(v, PySeq):
                    items.extend(v.items)
                else:
                    # symbolic splice: build by concatenation (no empty pieces)
                    if items:
                        piece = as_v(PySeq(items, "tuple"))
                        symbolic = piece if symbolic is None else L.seq_concat(symbolic, piece)
                    items = []
                    piece = self.seq_of(v).term
                    symbolic = piece if symbolic is None else L.seq_concat(symbolic, piece)
            else:
                items.append(self.eval(e))
        if symbolic is not None:
            if items:
                symbolic = L.seq_concat(symbolic, as_v(PySeq(items, "tuple")))
            return ZV(symbolic, "seq")
        return PySeq(items, kind)

    def e_Dict(self, node):
        items = []
        for k, v in zip(node.keys, node.values):
            if k is None:
                raise Unsupported("dict splat")
            items.append((self.eval(k), self.eval(v)))
        return PyDict(items)

    def e_JoinedStr(self, node):
        parts = []
        for v in node.values:
            if isinstance(v, ast.Constant):
                parts.append(z3.StringVal(v.value))
            else:
                x = self.eval(v.value)
                if is_prim_str(x) and not v.format_spec and v.conversion == -1:
                    parts.append(as_str(x))
                elif is_prim_int(x) and not isinstance(x, ZV) and not v.format_spec and v.conversion == -1:
                    parts.append(z3.IntToStr(as_int(x)))
                else:
                    parts.append(L.fresh("fmt", L.S))
        if not parts:
            return PyC("")
        return ZS(z3.Concat(*parts) if len(parts) > 1 else parts[0])

    def e_Lambda(self, node):
        return Closure(node, dict(self.st.env))

    def e_IfExp(self, node):
        c = self.truthy(self.eval(node.test), node)
        if z3.is_true(z3.simplify(c)):
            return self.eval(node.body)
        if z3.is_false(z3.simplify(c)):
            return self.eval(node.orelse)
        if not any(vs for vs, _ in self.st.qctx) and not self.st.qctx and not self.st.spec_mode:
            # straight-line code: fork (keeps partial operations in each arm exact)
            return self.eval(node.body) if self.branch(c, getattr(node, "lineno", 0)) else self.eval(node.orelse)
        a = self.guarded(c, node.body)
        b = self.guarded(z3.Not(c), node.orelse)
        return self.ite(c, a, b)

    def guarded(self, guard, node):
        self.st.qctx.append(((), guard))
        try:
            return self.eval(node)
        finally:
            self.st.qctx.pop()

    def ite(self, c, a, b):
        if isinstance(a, (ZB,)) and isinstance(b, (ZB,)) or (self._boolish(a) and self._boolish(b)):
            return ZB(z3.If(c, as_bool(a), as_bool(b)))
        if is_prim_int(a) and is_prim_int(b) and not isinstance(a, ZV) and not isinstance(b, ZV):
            return ZI(z3.If(c, as_int(a), as_int(b)))
        if is_prim_str(a) and is_prim_str(b) and not isinstance(a, ZV) and not isinstance(b, ZV):
            return ZS(z3.If(c, as_str(a), as_str(b)))
        ta, tb = getattr(a, "tag", None), getattr(b, "tag", None)
        tag = ta if ta == tb else self.join_tags(ta, tb)
        return ZV(z3.If(c, as_v(a), as_v(b)), tag)

    @staticmethod
    def _boolish(v):
        return isinstance(v, ZB) or (isinstance(v, PyC) and isinstance(v.value, bool))

    @staticmethod
    def join_tags(ta, tb):
        if ta == "none" and tb:
            return tb if tb.startswith("Opt[") else "Opt[%s]" % tb
        if tb == "none" and ta:
            return ta if ta.startswith("Opt[") else "Opt[%s]" % ta
        if ta and tb and base_tag(ta) == base_tag(tb):
            return "Opt[%s]" % base_tag(ta)
        return None

    def e_BoolOp(self, node):
        vals = []
        is_and = isinstance(node.op, ast.And)
        if not self.st.qctx and not self.st.spec_mode:
            # straight-line code: fork on each operand (exact short-circuit semantics, partial operations stay exact)
            v = None
            for idx, e in enumerate(node.values):
                v = self.eval(e)
                if idx == len(node.values) - 1:
                    return v
                t = self.branch(self.truthy(v, node), getattr(node, "lineno", 0))
                if t != is_and:
                    return v if not (isinstance(v, ZB) or self._boolish(v)) else ZB(t)
            return v
        # evaluate left to right under the guard that previous operands did not short-circuit
        guards = []
        res = None
        for idx, e in enumerate(node.values):
            if guards:
                self.st.qctx.append(((), z3.And(*guards)))
                try:
                    v = self.eval(e)
                finally:
                    self.st.qctx.pop()
            else:
                v = self.eval(e)
            vals.append(v)
            t = as_bool(v)
            guards.append(t if is_and else z3.Not(t))
        if all(self._boolish(v) or isinstance(v, ZB) for v in vals):
            ts = [as_bool(v) for v in vals]
            return ZB(z3.And(*ts) if is_and else z3.Or(*ts))
        # value semantics: result is the deciding operand
        res = vals[-1]
        for v in reversed(vals[:-1]):
            t = as_bool(v)
            res = self.ite(t, res, v) if is_and else self.ite(t, v, res)
        ts = [as_bool(v) for v in vals]
        if isinstance(res, ZV):
            res.truth = z3.And(*ts) if is_and else z3.Or(*ts)
        return res

    def e_UnaryOp(self, node):
        v = self.eval(node.operand)
        if isinstance(node.op, ast.Not):
            return ZB(z3.Not(self.truthy(v, node) if not self.st.spec_mode else as_bool(v)))
        if isinstance(node.op, ast.USub):
            if isinstance(v, PyC):
                return PyC(-v.value)
            return ZI(-as_int(v))
        raise Unsupported("unary op")

    def e_BinOp(self, node):
        a, b = self.eval(node.left), self.eval(node.right)
        op = node.op
        if isinstance(a, PyC) and isinstance(b, PyC) and not isinstance(op, ast.Mod):
            try:
                return PyC({ast.Add: lambda x, y: x + y, ast.Sub: lambda x, y: x - y, ast.Mult: lambda x, y: x * y}[type(op)](a.value, b.value))
            except KeyError:
                raise Unsupported("binop on constants")
        if isinstance(op, ast.Add):
            for x in (a, b):
                if isinstance(x, ZV) and (x.tag or "").startswith("Opt[str") and (is_prim_str(a) or is_prim_str(b)):
                    self.partial(x.term != L.NONE, "TypeError", node, "str+None")
            if isinstance(a, ZV) and a.tag == "Opt[str]":
                a = ZV(a.term, "str")
            if isinstance(b, ZV) and b.tag == "Opt[str]":
                b = ZV(b.term, "str")
            if is_prim_str(a) and is_prim_str(b):
                return ZS(z3.Concat(as_str(a), as_str(b)))
            if is_prim_int(a) and is_prim_int(b):
                return ZI(as_int(a) + as_int(b))
            if isinstance(a, PySeq) and isinstance(b, PySeq):
                return PySeq(a.items + b.items, a.kind)
            if self.is_seqlike(a) and self.is_seqlike(b):
                return ZV(L.seq_concat(self.seq_of(a).term, self.seq_of(b).term), "seq")
        if isinstance(op, ast.Sub) and is_prim_int(a) and is_prim_int(b):
            return ZI(as_int(a) - as_int(b))
        if isinstance(op, ast.Mult) and is_prim_int(a) and is_prim_int(b):
            return ZI(as_int(a) * as_int(b))
        if isinstance(op, ast.Mod) and is_prim_str(a):
            return self.str_percent(a, b)
        if isinstance(op, ast.BitAnd) and isinstance(a, ZV):
            h = R.METHODS.get((base_tag(a.tag), "__and__"))
            if h:
                return h(self, a, [b], {}, node)
        raise Unsupported("binop %s on %r, %r (line %d)" % (type(op).__name__, a, b, node.lineno))

    def str_percent(self, a, b):
        if isinstance(a, PyC):
            args = b.items if isinstance(b, PySeq) else [b]
            parts = a.value.split("%s")
            if len(parts) == len(args) + 1 and "%" not in "".join(parts):
                out = []
                for i, p in enumerate(parts):
                    if p:
                        out.append(z3.StringVal(p))
                    if i < len(args):
                        out.append(as_str(args[i]) if is_prim_str(args[i]) else L.fresh("fmt", L.S))
                return ZS(z3.Concat(*out) if len(out) > 1 else out[0])
        return ZS(L.fresh("fmt", L.S))

    def e_Compare(self, node):
        left = self.eval(node.left)
        out = []
        for op, rn in zip(node.ops, node.comparators):
            right = self.eval(rn)
            out.append(self.compare(op, left, right, node))
            left = right
        return ZB(z3.And(*out) if len(out) > 1 else out[0])

    def compare(self, op, a, b, node=None):
        self._cmp_node = node
        if isinstance(op, (ast.Eq, ast.Is)):
            return self.py_eq(a, b, isinstance(op, ast.Is))
        if isinstance(op, (ast.NotEq, ast.IsNot)):
            return z3.Not(self.py_eq(a, b, isinstance(op, ast.IsNot)))
        if isinstance(op, (ast.Lt, ast.LtE, ast.Gt, ast.GtE)):
            x, y = as_int(a), as_int(b)
            return {ast.Lt: x < y, ast.LtE: x <= y, ast.Gt: x > y, ast.GtE: x >= y}[type(op)]
        if isinstance(op, ast.In):
            return self.contains(b, a)
        if isinstance(op, ast.NotIn):
            return z3.Not(self.contains(b, a))
        raise Unsupported("compare op")

    def py_eq(self, a, b, identity=False):
        h = self.eq_hook(a, b, identity)
        if h is not None:
            return h
        return eq(a, b)

    def eq_hook(self, a, b, identity):
        """`==` / `!=` / `in` (not `is`) on a value of the traced program, or on the class of one obtained by type(v), dispatches to user code
        (__eq__ of the value's class, of the class's metaclass): an effect the contract must allow."""
        if identity or self.st.spec_mode:
            return None
        for x in (a, b):
            if isinstance(x, ZV) and (base_tag(x.tag) in ("Val", "Callee") or getattr(x, "cls_of_val", False)):
                self.effect("eq", z3.BoolVal(False), getattr(self, "_cmp_node", None))
                break
        return None

    def contains(self, container, x):
        if isinstance(container, PySeq):
            if not container.items:
                return z3.BoolVal(False)
            return z3.Or(*[self.py_eq(x, it) for it in container.items])
        if isinstance(container, PyDict):
            if not container.items:
                return z3.BoolVal(False)
            return z3.Or(*[self.py_eq(x, k) for k, _ in container.items])
        if is_prim_str(container) and is_prim_str(x):
            return z3.Contains(as_str(container), as_str(x))
        if isinstance(container, ZV):
            h = R.METHODS.get((base_tag(container.tag), "__contains__"))
            if h:
                return as_bool(h(self, container, [x], {}, None))
            return L.has(container.term, as_v(x))
        raise Unsupported("`in` on %r" % (container,))

    # ------------------------------------------------------------- sequences
    def is_seqlike(self, v):
        if isinstance(v, PySeq):
            return True
        if isinstance(v, ZV):
            return True
        return False

    def seq_of(self, v):
        """View any iterable value as a ZV sequence (len/nth)."""
        if isinstance(v, ZV):
            h = R.METHODS.get((base_tag(v.tag), "__iter__"))
            if h:
                return h(self, v, [], {}, None)
            return v
        if isinstance(v, (PySeq, PyDict)):
            return ZV(as_v(v), "seq")
        raise Unsupported("not iterable: %r" % (v,))

    def elem_tag(self, seqv):
        t = base_tag(getattr(seqv, "tag", None)) or ""
        if t.startswith("Seq[") or t.startswith("Set["):
            return t[4:-1]
        if t.startswith("Dict["):
            return t[5:-1].split(",")[0].strip()
        return None

    def val_tag(self, dictv):
        t = base_tag(getattr(dictv, "tag", None)) or ""
        if t.startswith("Dict["):
            return t[5:-1].split(",", 1)[1].strip()
        return None

    def retag(self, term, tag):
        """Wrap a V term according to the declared tag (primitive tags are unboxed)."""
        if tag == "int":
            return ZI(L.unbox_int(term))
        if tag == "bool":
            return ZB(L.unbox_bool(term))
        if tag == "strp":
            return ZS(L.unbox_str(term))
        return ZV(term, tag)

    def partial(self, defined, exc_cls, node=None, what=""):
        """A partial operation: where `defined` may fail, Python raises exc_cls.
        In straight-line code this forks; under a guard / quantifier it becomes a safe: obligation."""
        st = self.st
        if st.spec_mode:
            return
        d = z3.simplify(defined)
        if z3.is_true(d):
            return
        line = getattr(node, "lineno", 0)
        if st.qctx:
            if getattr(self, "_defer", None) is not None and not st.spec_mode:
                # inside a comprehension body: collected, decided where the generator is consumed
                inner = defined
                k = len(st.qctx) - 1
                # wrap only the guards pushed since the comprehension's own quantifier (the innermost var-binding entry)
                idx = max(q for q in range(len(st.qctx)) if st.qctx[q][0])
                for vs, g in reversed(st.qctx[idx + 1:]):
                    if g is not None:
                        inner = z3.Implies(g, inner)
                self._defer.append((inner, exc_cls))
                return
            self.oblige("safe:%s@%d" % (what or exc_cls, line), defined, line)
            return
        if self.branch(defined, line):
            return
        raise RaisedEx(ExcVal(exc_cls), line)

    def e_Subscript(self, node):
        ref = self.try_global_path(node.value)
        if ref is not None and (ref + ".__getitem__") in R.EXTERNALS:
            idx = self.eval(node.slice)
            return R.EXTERNALS[ref + ".__getitem__"].f(self, [idx], {}, node)
        base = self.eval(node.value)
        if isinstance(base, GlobalRef) or isinstance(base, SpecFn):
            # typing constructors: List[x], Union[...], Optional[x]
            idx = self.eval(node.slice)
            return self.call_value(base, [idx], {}, node, subscript=True)
        sl = node.slice
        if isinstance(sl, ast.Slice):
            return self.slice(base, sl, node)
        idx = self.eval(sl)
        return self.subscript(base, idx, node)

    def subscript(self, base, idx, node=None):
        if isinstance(base, PySeq) and isinstance(idx, PyC):
            try:
                return base.items[idx.value]
            except IndexError:
                raise RaisedEx(ExcVal("IndexError"), getattr(node, "lineno", 0))
        if isinstance(base, PyDict):
            for k, v in base.items:
                c = z3.simplify(self.py_eq(k, idx))
                if z3.is_true(c):
                    return v
            # symbolic key into a dict display: first matching key (KeyError if none)
            self.partial(z3.Or(*[self.py_eq(k, idx) for k, _ in base.items]), "KeyError", node, "display-key")
            res = base.items[-1][1]
            for k, v in reversed(base.items[:-1]):
                res = self.ite(self.py_eq(k, idx), v, res)
            return res
        if is_prim_str(base) and not isinstance(base, ZV):
            s = as_str(base)
            i = as_int(idx)
            n = z3.Length(s)
            self.partial(z3.And(i < n, i >= -n), "IndexError", node, "str-index")
            return ZS(z3.SubString(s, z3.If(i >= 0, i, n + i), 1))
        if isinstance(base, ZV):
            bt = base_tag(base.tag)
            h = R.METHODS.get((bt, "__getitem__"))
            if h:
                return h(self, base, [idx], {}, node)
            if bt == "str":
                return self.subscript(ZS(L.unbox_str(base.term)), idx, node)
            if bt and (bt.startswith("Dict") or bt == "dict"):
                k = as_v(idx)
                self.partial(L.has(base.term, k), "KeyError", node, "key")
                return self.retag(L.get(base.term, k), self.val_tag(base))
            # sequence
            i = as_int(idx)
            n = L.len_(base.term)
            self.partial(z3.And(i < n, i >= -n), "IndexError", node, "index")
            si = z3.simplify(i)
            if z3.is_int_value(si) and si.as_long() < 0:
                i = n + i
            elif not z3.is_int_value(si):
                i = z3.If(i >= 0, i, n + i)
            return self.retag(L.nth(base.term, i), self.elem_tag(base))
        raise Unsupported("subscript of %r (line %s)" % (base, getattr(node, "lineno", "?")))

    def slice(self, base, sl, node):
        if sl.step is not None:
            step = self.eval(sl.step)
            if isinstance(step, PyC) and step.value == -1 and sl.lower is None and sl.upper is None:
                if isinstance(base, PySeq):
                    return PySeq(base.items[::-1], base.kind)
                return ZV(L.seq_rev(self.seq_of(base).term), base.tag)
            raise Unsupported("slice step")
        lo = self.eval(sl.lower) if sl.lower is not None else None
        hi = self.eval(sl.upper) if sl.upper is not None else None
        if isinstance(base, PySeq) and (lo is None or isinstance(lo, PyC)) and (hi is None or isinstance(hi, PyC)):
            return PySeq(base.items[(lo.value if lo else None):(hi.value if hi else None)], base.kind)
        if is_prim_str(base):
            s = as_str(base)
            n = z3.Length(s)
            a = self.clamp(as_int(lo), n) if lo is not None else z3.IntVal(0)
            b = self.clamp(as_int(hi), n) if hi is not None else n
            return ZS(z3.SubString(s, a, z3.If(b >= a, b - a, 0)))
        sv = self.seq_of(base)
        n = L.len_(sv.term)
        a = self.clamp_if_needed(as_int(lo), n) if lo is not None else z3.IntVal(0)
        b = self.clamp_if_needed(as_int(hi), n) if hi is not None else n
        if not self.entails(b >= a):
            b = z3.If(b >= a, b, a)
        return ZV(L.seq_slice(sv.term, a, b), sv.tag)

    def clamp_if_needed(self, i, n):
        if self.entails(z3.And(0 <= i, i <= n)):
            return i
        return self.clamp(i, n)

    def entails(self, cond, timeout_ms=1000):
        """Cheap semantic check under the current path condition and axioms (used only to pick a simpler,
        equivalent encoding; `False` is always a safe answer)."""
        st = self.st
        if st.qctx:
            return False
        r = self.prover.check(st.pc, cond, want_model=False, timeout_ms=timeout_ms)
        self.prover.solver.set("timeout", self.prover.timeout_ms)
        return r[0] == "unsat"

    @staticmethod
    def clamp(i, n):
        i2 = z3.If(i < 0, n + i, i)
        return z3.If(i2 < 0, 0, z3.If(i2 > n, n, i2))

    def try_global_path(self, node):
        """Dotted global path of a Name / Attribute chain, without evaluating it; None if it is a local."""
        if isinstance(node, ast.Name):
            if node.id in self.st.env:
                return None
            if self.st.spec_mode and node.id in R.SPEC:
                return None
            return source.resolve_global(self.mi, node.id)
        if isinstance(node, ast.Attribute):
            b = self.try_global_path(node.value)
            return None if b is None else b + "." + node.attr
        return None

    # ------------------------------------------------------------- attributes
    def e_Attribute(self, node):
        base = self.eval(node.value)
        return self.getattr(base, node.attr, node)

    def getattr(self, base, attr, node=None):
        if isinstance(base, GlobalRef):
            sep = "." if (":" not in base.path or "." in base.path.split(":")[1] or True) else ":"
            path = base.path + "." + attr
            # module reference 'monkeytype.x' + attr -> 'monkeytype.x:attr'
            if ":" not in base.path and base.path.startswith(source.PKG):
                try:
                    source.load(base.path)
                    path = base.path + ":" + attr
                except KeyError:
                    pass
            return self.global_value(path)
        if isinstance(base, ZV):
            bt = base_tag(base.tag)
            bt = getattr(R, "TAG_ALIAS", {}).get(bt, bt)
            fld = R.field_for(bt, attr)
            if fld is not None:
                self.partial(base.term != L.NONE, "AttributeError", node, "none-attr") if (base.tag or "").startswith("Opt[") else None
                arr = self.heap_array(fld[0])
                return self.retag(z3.Select(arr, base.term), fld[1])
            h = R.ATTRS.get((bt, attr)) or R.ATTRS.get((None, attr))
            if h:
                if (base.tag or "").startswith("Opt["):
                    self.partial(base.term != L.NONE, "AttributeError", node, "none-attr")
                return h(self, base)
            return BoundM(base, attr, getattr(node, "value", None))
        if isinstance(base, (PySeq, PyDict, PyC, ZS, ZI, ExcVal)):
            return BoundM(base, attr, getattr(node, "value", None))
        raise Unsupported("attribute %s of %r (line %s)" % (attr, base, getattr(node, "lineno", "?")))

    def heap_array(self, field):
        st = self.st
        if field not in st.heap:
            st.heap[field] = z3.Const("heap0_" + field, z3.ArraySort(L.V, L.V))
            st.heap0.setdefault(field, st.heap[field])
        return st.heap[field]

    # ------------------------------------------------------------- comprehensions
    def e_GeneratorExp(self, node):
        return self.comprehension(node, "seq")

    def e_ListComp(self, node):
        return self.comprehension(node, "seq")

    def e_SetComp(self, node):
        return self.comprehension(node, "set")

    def bind_target(self, target, val):
        if isinstance(target, ast.Name):
            self.st.env[target.id] = val
        elif isinstance(target, (ast.Tuple, ast.List)):
            n = len(target.elts)
            if isinstance(val, PySeq):
                if len(val.items) != n:
                    raise RaisedEx(ExcVal("ValueError"))
                for t, v in zip(target.elts, val.items):
                    self.bind_target(t, v)
            elif isinstance(val, ZV):
                et = self.tuple_tags(val.tag, n)
                for i, t in enumerate(target.elts):
                    self.bind_target(t, self.retag(L.nth(val.term, z3.IntVal(i)), et[i]))
            else:
                raise Unsupported("unpack %r" % (val,))
        else:
            raise Unsupported("binding target %s" % type(target).__name__)

    @staticmethod
    def tuple_tags(tag, n):
        t = base_tag(tag) or ""
        if t.startswith("Pair[") and n == 2:
            a, b = split_top(t[5:-1])
            return [a, b]
        return [None] * n

    def comprehension(self, node, kind, defer_box=None):
        """defer_box: list receiving (all-elements-defined condition, exception) pairs instead of raising here
        (lazy generator consumed by all()/any(), which may short-circuit before reaching an undefined element)."""
        if len(node.generators) != 1:
            raise Unsupported("nested comprehension")
        g = node.generators[0]
        src = self.eval(g.iter)
        if isinstance(src, PySeq) or isinstance(src, PyDict):
            items = []
            saved = dict(self.st.env)
            srcitems = src.items if isinstance(src, PySeq) else [k for k, _ in src.items]
            for it in srcitems:
                self.bind_target(g.target, it)
                keep = [as_bool(self.eval(c)) for c in g.ifs]
                if keep:
                    c = z3.simplify(z3.And(*keep))
                    if z3.is_false(c):
                        continue
                    if not z3.is_true(c):
                        raise Unsupported("symbolic filter over concrete display")
                items.append(self.eval(node.elt))
            self.st.env = saved
            return PySeq(items, "set" if kind == "set" else "list")
        if self.tainted(src) and not self.st.spec_mode:
            self.effect("iteration", self.exact_builtin_container(src), node)
        sv = self.seq_of(src)
        st = self.st
        j = L.fresh("j", L.I)
        n = L.len_(sv.term)
        guard = z3.And(0 <= j, j < n)
        saved = dict(st.env)
        st.qctx.append(((j,), guard))
        outer_defer = getattr(self, "_defer", None)
        self._defer = []
        try:
            # the elements of a program object are program objects (taint is carried by the tag)
            self.bind_target(g.target, self.retag(L.nth(sv.term, j), self.elem_tag(sv) or ("Val" if self.tainted(src) else None)))
            conds = [as_bool(self.eval(c)) for c in g.ifs]
            if conds:
                st.qctx.append(((), z3.And(*conds)))
            try:
                elt = self.eval(node.elt)
            finally:
                if conds:
                    st.qctx.pop()
        finally:
            deferred = [(z3.ForAll([j], z3.Implies(guard, dc)), exc) for dc, exc in self._defer]
            self._defer = outer_defer
            st.qctx.pop()
            st.env = saved
        et = as_v(elt)
        out = L.fresh("comp")
        st.assume(out != L.NONE)
        tag = "Seq[%s]" % elt.tag if getattr(elt, "tag", None) else "seq"
        if defer_box is not None and deferred:
            defer_box.extend(deferred)
        elif deferred:
            for dcond, exc in deferred:
                self.partial(dcond, exc, node, "comprehension-element")
        if not conds:
            st.assume(L.len_(out) == n)
            try:
                st.assume(z3.ForAll([j], z3.Implies(guard, L.nth(out, j) == et), patterns=[L.nth(out, j), L.nth(sv.term, j)]))
            except z3.Z3Exception:
                st.assume(z3.ForAll([j], z3.Implies(guard, L.nth(out, j) == et), patterns=[L.nth(out, j)]))
        else:
            P = z3.And(*conds)
            sk = L.fresh_fn("src_idx", L.I, L.I)      # index in src of the j-th kept element
            pos = L.fresh_fn("dst_idx", L.I, L.I)     # position in out of the i-th source element (if kept)
            m = L.len_(out)
            jj = L.fresh("q", L.I)
            st.assume(m <= n)
            sub = lambda e, idx: z3.substitute(e, (j, idx))
            st.assume(z3.ForAll([jj], z3.Implies(z3.And(0 <= jj, jj < m),
                                                  z3.And(0 <= sk(jj), sk(jj) < n, sub(P, sk(jj)), L.nth(out, jj) == sub(et, sk(jj)),
                                                         pos(sk(jj)) == jj)),
                                patterns=[L.nth(out, jj)]))
            st.assume(_forall_pat([j], z3.Implies(z3.And(guard, P), z3.And(0 <= pos(j), pos(j) < m, L.nth(out, pos(j)) == et, sk(pos(j)) == j)),
                                  [L.nth(sv.term, j)]))
            # order embedding
            j2 = L.fresh("q2", L.I)
            st.assume(z3.ForAll([jj, j2], z3.Implies(z3.And(0 <= jj, jj < j2, j2 < m), sk(jj) < sk(j2)), patterns=[z3.MultiPattern(sk(jj), sk(j2))]))
        if kind == "set":
            st.assume(L.is_dictlike(out)) if False else None
        return ZV(out, tag)

    def e_DictComp(self, node):
        if len(node.generators) != 1:
            raise Unsupported("nested comprehension")
        g = node.generators[0]
        src = self.eval(g.iter)
        st = self.st
        sv = self.seq_of(src)
        j = L.fresh("j", L.I)
        n = L.len_(sv.term)
        guard = z3.And(0 <= j, j < n)
        saved = dict(st.env)
        st.qctx.append(((j,), guard))
        outer_defer = getattr(self, "_defer", None)
        self._defer = []
        try:
            self.bind_target(g.target, self.retag(L.nth(sv.term, j), self.elem_tag(sv)))
            conds = [as_bool(self.eval(c)) for c in g.ifs]
            if conds:
                st.qctx.append(((), z3.And(*conds)))
            try:
                kval = self.eval(node.key)
                if self.tainted(kval) and not st.spec_mode:
                    # inserting a program object as a dict key hashes it: user code unless its class is exactly a builtin hashable
                    self.effect("hash", self.exact_builtin_hashable(kval), node)
                kv = as_v(kval)
                vval = self.eval(node.value)
                vv = as_v(vval)
            finally:
                if conds:
                    st.qctx.pop()
        finally:
            deferred = [(z3.ForAll([j], z3.Implies(guard, dc)), exc) for dc, exc in self._defer]
            self._defer = outer_defer
            st.qctx.pop()
            st.env = saved
        for dcond, exc in deferred:
            self.partial(dcond, exc, node, "comprehension-element")
        out = L.fresh("dcomp")
        st.assume(out != L.NONE)
        P = z3.And(*conds) if conds else z3.BoolVal(True)
        src_of = L.fresh_fn("dsrc", L.V, L.I)   # skolem: source index of a key of the result
        k = L.fresh("k")
        st.assume(L.is_dictlike(out))
        st.assume(_forall_pat([j], z3.Implies(z3.And(guard, P), z3.And(L.has(out, kv), L.get(out, kv) == vv)), [L.nth(sv.term, j)]))
        sub = lambda e, idx: z3.substitute(e, (j, idx))
        st.assume(z3.ForAll([k], z3.Implies(L.has(out, k), z3.And(0 <= src_of(k), src_of(k) < n, sub(P, src_of(k)),
                                                                    sub(kv, src_of(k)) == k, L.get(out, k) == sub(vv, src_of(k)))),
                            patterns=[L.has(out, k)]))
        if not conds:
            st.assume(L.len_(out) <= n)
        else:
            st.assume(L.len_(out) <= n)
        return ZV(out, "Dict[%s,%s]" % ("str", getattr(vval, "tag", None) or "any"))

    def e_Starred(self, node):
        raise Unsupported("starred outside display")


def _forall_pat(vs, body, pats):
    """ForAll with the given trigger; when z3 rejects it (e.g. the source term simplifies to an ite/arith), let z3 choose."""
    try:
        return z3.ForAll(vs, body, patterns=pats)
    except z3.Z3Exception:
        return z3.ForAll(vs, body)


def split_top(s):
    depth = 0
    for i, ch in enumerate(s):
        if ch == "[":
            depth += 1
        elif ch == "]":
            depth -= 1
        elif ch == "," and depth == 0:
            return s[:i].strip(), s[i + 1:].strip()
    return s, None
