"""Registries: contracts (sidecars), externals (theory-modelled library names), attribute /
method tables of theory sorts, spec vocabulary."""

CONTRACTS = {}   # 'module:qualname' -> Contract
EXTERNALS = {}   # dotted path -> Val | callable(interp, args, kwargs) (marked by ExtFn)
ATTRS = {}       # (tag|None, attr) -> handler(interp, recv) -> Val
METHODS = {}     # (tag|None, name) -> handler(interp, recv, args, kwargs, recv_node) -> Val
FIELDS = {}      # mutable attribute name -> result tag (heap-allocated: Select/Store on per-field arrays)
SPEC = {}        # spec vocabulary name -> Val (SpecFn, constants)
TAG_CLASS = {}
INLINE_CTORS = {}  # 'module:Class' -> tag of the allocated object   # tag -> 'module:Class' (for self.method() calls resolved to contracts)
EXC_PARENT = {   # exception class hierarchy (builtin part; repo part is read from the AST)
    "BaseException": None, "Exception": "BaseException", "KeyboardInterrupt": "BaseException",
    "SystemExit": "BaseException", "GeneratorExit": "BaseException",
    "TypeError": "Exception", "ValueError": "Exception", "AttributeError": "Exception",
    "LookupError": "Exception", "KeyError": "LookupError", "IndexError": "LookupError",
    "AssertionError": "Exception", "ImportError": "Exception", "ModuleNotFoundError": "ImportError",
    "NotImplementedError": "RuntimeError", "RuntimeError": "Exception", "OSError": "Exception",
    "StopIteration": "Exception", "NameError": "Exception",
    "argparse.ArgumentTypeError": "Exception", "sqlite3.Error": "Exception",
    "sqlite3.OperationalError": "sqlite3.Error",
}


class ExtFn:
    def __init__(self, f, doc=""):
        self.f = f
        self.doc = doc


class Contract:
    def __init__(self, target, **kw):
        self.target = target
        self.props = kw.pop("props", [])
        self.params = kw.pop("params", {})        # name -> tag
        self.result = kw.pop("result", None)      # tag
        self.requires = kw.pop("requires", {})    # label -> clause
        self.ensures = kw.pop("ensures", {})      # label -> clause
        self.lets = kw.pop("lets", {})            # name -> clause (evaluated in post state, in order)
        self.raises = kw.pop("raises", {})        # ExcName -> clause|None  (may raise only if clause)
        self.records = kw.pop("records", ())      # repo classes whose instances this function creates as immutable record values
        self.at_yield = kw.pop("at_yield", {})      # label -> clause: must hold where a context manager hands control to the with-body
        self.ensures_exc = kw.pop("ensures_exc", {})  # label -> clause, must hold on exceptional exit
        self.loops = kw.pop("loops", {})          # ordinal -> {"iter": text?, "inv": {label: clause}, ...}
        self.pure = kw.pop("pure", True)          # result is a function of the arguments
        self.modifies = kw.pop("modifies", [])    # heap fields possibly written
        self.theories = kw.pop("theories", [])
        self.decreases = kw.pop("decreases", None)  # list of int clauses (lexicographic)
        self.scc = kw.pop("scc", None)
        self.mode = kw.pop("mode", "proved")      # proved | assumed
        self.note = kw.pop("note", "")
        self.self_tag = kw.pop("self_tag", None)
        self.effects = kw.pop("effects", None)    # clause appended to the ghost effect trace (callers)
        self.cover = kw.pop("cover", [])
        self.l2 = kw.pop("l2", None)
        self.any_only_if = kw.pop("any_only_if", None)   # C05 inventory: clause that must hold wherever the body mentions the literal typing.Any
        self.carve = kw.pop("carve", {})          # clause-key prefix -> known-finding key: obligations that are the failure set of a recorded finding
        self.call_guards = kw.pop("call_guards", {})  # callee short name -> {label: clause over this function's state}: obligation at every call of that callee in this body
        self.hints = kw.pop("hints", {})          # label -> clause: proved at the return point, then available to the ensures (lemmas)
        self.assumes = kw.pop("assumes", {})      # label -> clause assumed on entry (trusted; listed in the evidence)
        self.hide = kw.pop("hide", [])            # ensures labels not revealed to callers (opaque)
        self.uses = kw.pop("uses", [])            # pure callee contracts available as quantified lemmas (forall args. requires => ensures on F(args)); also ties function values
                                                  # passed by reference (apply1(<global f>, x)) to F_f(x)
        self.definitional = kw.pop("definitional", [])   # clause-key prefixes that *define* otherwise unconstrained spec symbols: assumed by callers, no obligation generated
        self.outside_pre = kw.pop("outside_pre", None)   # text: what is assumed of a call that does not meet `requires` (only the definitional clauses then apply); None = such a call is an error
        self.lemma = kw.pop("lemma", None)        # (module, source text): a composition of repo functions stated in the sidecar and verified like a function body
        assert not kw, kw
        CONTRACTS[target] = self
        if self.lemma:
            from . import source
            source.register_lemma(target, self.lemma[0], self.lemma[1], self.lemma[2] if len(self.lemma) > 2 else None)


def contract(target, **kw):
    return Contract(target, **kw)


def exc_subclass(a, b):
    """a <= b in the exception hierarchy."""
    while a is not None:
        if a == b:
            return True
        a = EXC_PARENT.get(a)
    return False


def field_for(tag, attr):
    """Mutable (heap-allocated) attribute `attr` of objects tagged `tag`: (heap key, result tag) or None.
    FIELDS[attr] is (tagset|None, result_tag) or a list of (tagset, result_tag, heapkey)."""
    e = FIELDS.get(attr)
    if e is None:
        return None
    if isinstance(e, tuple):
        e = [(e[0], e[1], attr)]
    for tags, rt, key in e:
        if tags is None or tag in tags:
            return key, rt
    return None


def add_field(tags, attr, rtag, key=None):
    e = FIELDS.get(attr)
    if e is None:
        e = []
    elif isinstance(e, tuple):
        e = [(e[0], e[1], attr)]
    e.append((set(tags) if tags else None, rtag, key or attr))
    FIELDS[attr] = e
