"""Path state, obligations and their discharge."""
import time
import z3
from . import logic as L
from .values import Unsupported


class PathEnd(Exception):
    """Path abandoned (assume false)."""


class ReturnEx(Exception):
    def __init__(self, value):
        self.value = value


class RaisedEx(Exception):
    def __init__(self, exc, line=0):
        self.exc = exc
        self.line = line


class BreakEx(Exception):
    pass


class ContinueEx(Exception):
    pass


class Obligation:
    __slots__ = ("name", "kind", "func", "line", "hyps", "goal", "status", "solver", "ms", "model", "path", "clause", "reason")

    def __init__(self, name, func, line, hyps, goal, path, clause=""):
        self.name = name
        self.kind = name.split(":")[0]
        self.func = func
        self.line = line
        self.hyps = hyps
        self.goal = goal
        self.status = None
        self.solver = None
        self.ms = 0
        self.model = None
        self.path = path
        self.clause = clause
        self.reason = ""


class State:
    def __init__(self, prefix):
        self.env = {}
        self.heap = {}          # field -> z3 Array(V -> V)
        self.heap0 = {}
        self.pc = []            # list of z3 Bool (assumptions along the path)
        self.prefix = list(prefix)
        self.decisions = []
        self.qctx = []          # stack of (vars, guard)
        self.obligations = []
        self.effects = L.EMPTY_SEQ   # ghost effect trace
        self.spec_mode = 0
        self.alloc = []         # fresh objects allocated on this path
        self.clock = None       # ghost allocation clock (z3 Int): alloc_time(o) of an object created here is the clock value at its creation

    def wrap(self, b):
        for vs, g in reversed(self.qctx):
            if g is not None:
                b = z3.Implies(g, b)
            if vs:
                b = z3.ForAll(list(vs), b)
        return b

    def assume(self, b):
        b = self.wrap(b)
        if z3.is_true(b):
            return
        self.pc.append(b)


class Prover:
    """One z3 solver per function: background axioms asserted once, push/pop per obligation."""

    def __init__(self, theories, timeout_ms=10000):
        self.timeout_ms = timeout_ms
        self.theories = theories
        self.solver = None
        self.nax = 0

    def _mk(self):
        s = z3.Solver()
        s.set("timeout", self.timeout_ms)
        axs = L.axioms_of(set(self.theories) | {"core"})
        for n, a in axs:
            s.add(a)
        for n, a in L.distinctness_axioms():
            s.add(a)
        self.nax = len(axs)
        self.solver = s

    def check(self, hyps, goal, want_model=True, timeout_ms=None):
        # the set of atoms / tuple arities can grow during execution: rebuild lazily
        self._mk()
        s = self.solver
        if timeout_ms:
            s.set("timeout", timeout_ms)
        for h in hyps:
            s.add(h)
        s.add(z3.Not(goal))
        t0 = time.time()
        r = s.check()
        ms = int((time.time() - t0) * 1000)
        model = None
        reason = ""
        if r == z3.sat and want_model:
            try:
                model = s.model()
            except z3.Z3Exception:
                model = None
        if r == z3.unknown:
            reason = s.reason_unknown()
        return str(r), ms, model, reason, s

    def feasible_qf(self, hyps):
        """Cheap pruning: unsat without axioms implies unsat with them."""
        s = z3.Solver()
        s.set("timeout", 300)
        for h in hyps:
            if not z3.is_quantifier(h):
                s.add(h)
        return s.check() != z3.unsat

    def consistent(self, hyps, timeout_ms=2000):
        """Vacuity guard: axioms + hyps must not be unsat."""
        self._mk()
        s = self.solver
        s.set("timeout", timeout_ms)
        for h in hyps:
            s.add(h)
        r = s.check()
        return str(r)
