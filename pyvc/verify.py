"""Verify one function against its contract: explore paths, discharge every obligation."""
import time
import traceback
import z3
from . import logic as L
from . import registry as R
from . import source
from .values import Unsupported
from .interp import Interp


def model_summary(model, limit=40):
    out = {}
    if model is None:
        return out
    for d in model.decls():
        n = d.name()
        if n.startswith("arg_") or "!" not in n and d.arity() == 0:
            try:
                out[n] = str(model[d])
            except Exception:
                pass
        if len(out) >= limit:
            break
    return out


def verify_contract(target, timeout_ms=5000, retry=True):
    c = R.CONTRACTS[target]
    res = {"target": target, "props": c.props, "mode": c.mode, "obligations": [], "status": "ok",
           "paths": 0, "file": None, "lines": None, "hash": None, "unsupported": None,
           "explore_s": 0.0, "solve_s": 0.0, "dropped": [], "vacuity": None, "theories": list(c.theories),
           "contract_assumptions": (["assumed clause %s of %s: %s" % (k, target, v) for k, v in c.assumes.items()]
                                    + (["note on %s: %s" % (target, c.note)] if c.note else [])
                                    + (["definitional clauses of %s (define otherwise unconstrained spec symbols; assumed by callers, nothing to prove): %s" % (target, ", ".join(c.definitional))] if c.definitional else [])
                                    + (["outside the precondition of %s: %s" % (target, c.outside_pre)] if c.outside_pre else [])
                                    + (["%s uses the separately proved contract of %s as a lemma about its function symbol (sound if that function terminates)" % (target, u) for u in c.uses])
                                    + (["%s is a lemma stated in the sidecar (a composition of repo functions, verified like a body): %s" % (target, c.lemma[1].strip().replace("\n", " ; "))] if c.lemma else [])
                                    + (["contract of %s is ASSUMED, not proved" % target] if c.mode == "assumed" else []))}
    try:
        mi, fnode = source.find_function(target)
        if fnode is None:
            res["status"] = "detached"
            res["unsupported"] = "function %s not found in current source" % target
            return res
        res["file"] = mi.path
        res["lines"] = [fnode.lineno, fnode.end_lineno]
        res["hash"] = mi.func_hash(fnode)
        if c.mode == "assumed":
            res["status"] = "assumed"
            return res
        ip = Interp(c, timeout_ms)
        obs = ip.run()
        res["paths"] = ip.paths
        res["explore_s"] = round(ip.explore_s, 3)
        res["dropped"] = sorted(ip.dropped)
        # vacuity: requires + axioms must not be contradictory
        st = ip.entry_state([])
        v = ip.prover.consistent(st.pc)
        res["vacuity"] = v
        if v == "unsat":
            res["status"] = "vacuous"
        t0 = time.time()
        res["obligations"] = solve_all(ip, obs, timeout_ms, retry)
        res["solve_s"] = round(time.time() - t0, 3)
        if not obs:
            res["status"] = "no-obligations"
    except Unsupported as e:
        res["status"] = "unsupported"
        res["unsupported"] = str(e)
    except Exception as e:  # checker crash: never a violation
        res["status"] = "crash"
        res["unsupported"] = "".join(traceback.format_exception_only(type(e), e)).strip()
        res["traceback"] = traceback.format_exc()
    return res


EXTERNAL = [
    ("z3-5.1-cli", ["z3-new", "-smt2", "-T:{t}", "{f}"]),
    ("z3-5.1-cli-seed7", ["z3-new", "-smt2", "-T:{t}", "smt.random_seed=7", "{f}"]),
    # /usr/bin/z3 4.8.12 is NOT used: it answered `unsat` on a satisfiable string + UF query (GLOB left uninterpreted) during the
    # seeded-defect runs; only the engine that produced the VC (fresh process) and cvc5 may discharge what the API left open
    ("cvc5-1.0", ["/usr/bin/cvc5", "--tlimit={tms}", "--strings-exp", "--lang=smt2", "{f}"]),
]


def external_check(smt2, seconds):
    """Re-pose the VC (SMT-LIB 2 dump of the same solver state) to fresh solver processes. z3's quantifier
    instantiation depends on the history of its context, so a fresh process often decides what the API left unknown."""
    import os
    import subprocess
    import tempfile
    fd, path = tempfile.mkstemp(suffix=".smt2", prefix="pyvc_")
    try:
        with os.fdopen(fd, "w") as f:
            f.write(smt2)
        procs = []
        for name, cmd in EXTERNAL:
            argv = [c.format(t=seconds, tms=seconds * 1000, f=path) for c in cmd]
            try:
                procs.append((name, subprocess.Popen(argv, stdout=subprocess.PIPE, stderr=subprocess.DEVNULL, text=True)))
            except FileNotFoundError:
                continue
        deadline = time.time() + seconds + 10
        answer = ("unknown", None)
        pending = list(procs)
        while pending and time.time() < deadline:
            for name, p in list(pending):
                if p.poll() is not None:
                    pending.remove((name, p))
                    out = (p.stdout.read() or "").strip().splitlines()
                    ans = out[0].strip() if out else ""
                    if ans in ("unsat", "sat"):
                        answer = (ans, name)
                        pending = []
                        break
            else:
                time.sleep(0.05)
        for name, p in procs:
            if p.poll() is None:
                p.kill()
            try:
                p.wait(timeout=5)
            except Exception:
                pass
        return answer
        return "unknown", None
    finally:
        try:
            os.remove(path)
        except OSError:
            pass


def solve_one(ip, ob, timeout_ms, retry):
    r, ms, model, reason, s = ip.prover.check(ob.hyps, ob.goal)
    solver = "z3-%s" % z3.get_version_string()
    if r == "unknown" and retry:
        t0 = time.time()
        try:
            smt2 = s.to_smt2()
        except Exception:
            smt2 = None
        if smt2:
            ans, name = external_check(smt2, max(10, min(30, timeout_ms // 500)))
            if ans == "unsat":
                r, solver = "unsat", name
            elif ans == "sat":
                # a model from a fresh process is not replayable through the API: recorded as refuted-without-model
                r, solver, reason = "sat", name, "sat reported by " + name
        ms += int((time.time() - t0) * 1000)
    status = {"unsat": "discharged", "sat": "refuted", "unknown": "unknown"}[r]
    rec = {"name": ob.name, "line": ob.line, "status": status, "ms": ms, "solver": solver,
           "path": "".join("T" if d else "F" for d in ob.path), "clause": ob.clause}
    if status == "refuted":
        rec["model"] = model_summary(model) if model is not None else {"note": reason}
    if status == "unknown":
        rec["reason"] = reason
    return rec


def solve_all(ip, obs, timeout_ms, retry, nproc=None):
    """Discharge obligations; identical VCs (same hypotheses and goal terms) are solved once.
    Large batches are split over forked workers (z3 terms are shared copy-on-write)."""
    import json
    import os
    keys = []
    uniq = {}
    for ob in obs:
        k = (tuple(h.get_id() for h in ob.hyps), ob.goal.get_id())
        keys.append(k)
        uniq.setdefault(k, ob)
    todo = list(uniq.items())
    if nproc is None:
        nproc = int(os.environ.get("PYVC_SUBPROCS", "4"))
    solved = {}
    if len(todo) < 24 or nproc <= 1:
        for k, ob in todo:
            solved[k] = solve_one(ip, ob, timeout_ms, retry)
    else:
        pipes = []
        for w in range(nproc):
            rfd, wfd = os.pipe()
            pid = os.fork()
            if pid == 0:
                os.close(rfd)
                out = []
                try:
                    for idx, (k, ob) in enumerate(todo):
                        if idx % nproc == w:
                            out.append((idx, solve_one(ip, ob, timeout_ms, retry)))
                    data = json.dumps(out).encode()
                except BaseException as e:  # noqa
                    data = json.dumps({"error": repr(e)}).encode()
                with os.fdopen(wfd, "wb") as f:
                    f.write(data)
                os._exit(0)
            os.close(wfd)
            pipes.append((pid, rfd))
        for pid, rfd in pipes:
            with os.fdopen(rfd, "rb") as f:
                data = json.loads(f.read().decode() or "[]")
            os.waitpid(pid, 0)
            if isinstance(data, dict):
                raise RuntimeError("solver worker failed: %s" % data.get("error"))
            for idx, rec in data:
                solved[todo[idx][0]] = rec
    out = []
    for ob, k in zip(obs, keys):
        rec = dict(solved[k])
        rec["name"], rec["line"], rec["clause"] = ob.name, ob.line, ob.clause
        rec["path"] = "".join("T" if d else "F" for d in ob.path)
        if uniq[k] is not ob:
            rec["ms"] = 0
            rec["shared_with"] = "".join("T" if d else "F" for d in uniq[k].path)
        out.append(rec)
    return out


def clause_key(name):
    """Obligation names carry line numbers (@N) for reporting; the lock is kept at clause granularity."""
    import re
    return re.sub(r"@\d+", "", name)


def summarize(res):
    tot = len(res["obligations"])
    ok = sum(1 for o in res["obligations"] if o["status"] == "discharged")
    return "%-60s %-12s paths=%-3d obligations=%d discharged=%d  (%.2fs explore, %.2fs solve)%s" % (
        res["target"], res["status"], res["paths"], tot, ok, res["explore_s"], res["solve_s"],
        ("  !! " + res["unsupported"]) if res["unsupported"] else "")
