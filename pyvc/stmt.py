"""Statement execution: assignments, control flow, loops with invariants, try/except."""
import ast
import z3
from . import logic as L
from . import registry as R
from .values import *
from .state import PathEnd, ReturnEx, RaisedEx, BreakEx, ContinueEx


def assigned_names(body):
    """Names (re)bound or mutated in place inside a loop body (syntactic)."""
    names, fields = set(), set()
    MUT = {"append", "extend", "add", "update", "pop", "insert", "remove", "clear", "merge", "setdefault"}

    def root(n):
        while isinstance(n, (ast.Subscript, ast.Attribute)):
            if isinstance(n, ast.Attribute) and isinstance(n.value, ast.Name) and n.value.id == "self":
                return ("field", n.attr)
            n = n.value
        if isinstance(n, ast.Name):
            return ("name", n.id)
        return None

    def tgt(t):
        if isinstance(t, ast.Name):
            names.add(t.id)
        elif isinstance(t, (ast.Tuple, ast.List)):
            for e in t.elts:
                tgt(e)
        elif isinstance(t, (ast.Subscript, ast.Attribute)):
            if isinstance(t, ast.Attribute):
                fields.add(t.attr)
            r = root(t)
            if r:
                (names if r[0] == "name" else fields).add(r[1])

    for node in ast.walk(ast.Module(body=body, type_ignores=[])):
        if isinstance(node, ast.Assign):
            for t in node.targets:
                tgt(t)
        elif isinstance(node, (ast.AugAssign, ast.AnnAssign)):
            tgt(node.target)
        elif isinstance(node, ast.For):
            tgt(node.target)
        elif isinstance(node, ast.Delete):
            for t in node.targets:
                tgt(t)
        elif isinstance(node, ast.Call) and isinstance(node.func, ast.Attribute) and node.func.attr in MUT:
            r = root(node.func.value)
            if r:
                (names if r[0] == "name" else fields).add(r[1])
        elif isinstance(node, ast.NamedExpr):
            tgt(node.target)
    return names, fields


EFFECT_NAMES = {"log", "flush", "print", "execute", "executemany", "write_text", "commit", "cursor", "add", "setprofile"}


def body_has_effects(body):
    """Does a loop body contain calls that append to the ghost effect trace? (`add` counts only on non-set receivers:
    decided conservatively by name, a loop that really logs must say so in its invariant anyway)"""
    for node in ast.walk(ast.Module(body=body, type_ignores=[])):
        if isinstance(node, ast.Call):
            f = node.func
            name = f.attr if isinstance(f, ast.Attribute) else (f.id if isinstance(f, ast.Name) else None)
            if name in EFFECT_NAMES and name != "add":
                return True
    return False


class StmtMixin:
    def exec_block(self, body):
        for s in body:
            self.exec(s)

    def exec(self, node):
        m = getattr(self, "x_" + type(node).__name__, None)
        if m is None:
            raise Unsupported("statement %s (line %s)" % (type(node).__name__, node.lineno))
        self.cur_line = node.lineno
        return m(node)

    def x_Pass(self, node):
        pass

    def x_Expr(self, node):
        if isinstance(node.value, ast.Constant):
            return  # docstring
        if isinstance(node.value, (ast.Yield, ast.YieldFrom)):
            return self.do_yield(node.value)
        self.eval(node.value)

    def x_Return(self, node):
        raise ReturnEx(self.eval(node.value) if node.value is not None else PyC(None))

    def x_Assign(self, node):
        if isinstance(node.value, ast.Yield):
            raise Unsupported("yield as expression")
        v = self.eval(node.value)
        for t in node.targets:
            self.assign(t, v)

    def x_AnnAssign(self, node):
        if node.value is not None:
            self.assign(node.target, self.eval(node.value))

    def x_AugAssign(self, node):
        cur = self.eval(node.target)
        rhs = self.eval(node.value)
        fake = ast.BinOp(left=ast.Constant(0), op=node.op, right=ast.Constant(0))
        fake.lineno = node.lineno
        saved = self.eval
        vals = iter([cur, rhs])
        # evaluate BinOp on already-computed operands
        self.eval = lambda n: next(vals)
        try:
            res = self.e_BinOp(fake)
        finally:
            self.eval = saved
        self.assign(node.target, res)

    def assign(self, target, v):
        st = self.st
        if isinstance(target, ast.Name):
            st.env[target.id] = v
        elif isinstance(target, (ast.Tuple, ast.List)):
            self.bind_target(target, v)
        elif isinstance(target, ast.Attribute):
            base = self.eval(target.value)
            fld = isinstance(base, ZV) and R.field_for(base_tag(base.tag), target.attr)
            if not fld and isinstance(base, ZV) and (base_tag(base.tag) in R.TAG_CLASS or base_tag(base.tag) in R.INLINE_CTORS.values()):
                # an attribute the theory does not know (typically added by an edit): a new mutable field of that object family, untyped
                R.add_field({base_tag(base.tag)}, target.attr, None, "%s.%s" % (base_tag(base.tag), target.attr))
                self.dropped.add("attribute %s.%s is not in the theory: treated as a new mutable field" % (base_tag(base.tag), target.attr))
                fld = R.field_for(base_tag(base.tag), target.attr)
            if fld:
                arr = self.heap_array(fld[0])
                st.heap[fld[0]] = z3.Store(arr, base.term, as_v(v))
                self.on_field_write(base, target.attr, v)
            else:
                raise Unsupported("assignment to attribute %s (line %d)" % (target.attr, target.lineno))
        elif isinstance(target, ast.Subscript):
            base = self.eval(target.value)
            key = self.eval(target.slice)
            new = self.store_item(base, key, v, target)
            self.assign(target.value, new)
        else:
            raise Unsupported("assignment target")

    def on_field_write(self, base, attr, v):
        pass

    def store_item(self, base, key, v, node=None):
        """d[k] = v as a pure update; returns the new container value."""
        if isinstance(base, PyDict):
            base = ZV(as_v(base), "dict")
        if isinstance(base, ZV):
            h = R.METHODS.get((base_tag(base.tag), "__setitem__"))
            if h:
                return h(self, base, [key, v], {}, node)
            return ZV(L.dict_set(base.term, as_v(key), as_v(v)), base.tag)
        raise Unsupported("item assignment on %r" % (base,))

    def x_Delete(self, node):
        for t in node.targets:
            if isinstance(t, ast.Subscript):
                base = self.eval(t.value)
                key = self.eval(t.slice)
                h = isinstance(base, ZV) and R.METHODS.get((base_tag(base.tag), "__delitem__"))
                if h:
                    self.assign(t.value, h(self, base, [key], {}, t))
                elif isinstance(base, ZV) and (base_tag(base.tag) or "").startswith(("Dict", "dict")):
                    self.partial(L.has(base.term, as_v(key)), "KeyError", t, "del-key")
                    self.assign(t.value, ZV(L.dict_del(base.term, as_v(key)), base.tag))
                else:
                    raise Unsupported("del on %r" % (base,))
            else:
                raise Unsupported("del target")

    def x_Assert(self, node):
        c = self.truthy(self.eval(node.test), node)
        self.partial(c, "AssertionError", node, "assert")

    def x_Raise(self, node):
        if node.exc is None:
            if self.handling:
                raise RaisedEx(self.handling[-1], node.lineno)
            raise Unsupported("bare raise outside handler")
        e = node.exc
        if isinstance(e, ast.Call):
            cls = self.eval(e.func)
            args = [self.eval(a) for a in e.args]
        else:
            cls = self.eval(e)
            args = []
        if isinstance(cls, ExcVal):
            raise RaisedEx(cls, node.lineno)
        if isinstance(cls, GlobalRef):
            raise RaisedEx(ExcVal(self.exc_name(cls.path), True, args), node.lineno)
        raise Unsupported("raise of %r" % (cls,))

    def exc_name(self, path):
        if path.startswith("builtins."):
            return path[len("builtins."):]
        if ":" in path:
            mod, q = path.split(":")
            self.register_repo_exc(mod, q)
            return q
        return path

    def register_repo_exc(self, mod, q):
        from . import source
        if q in R.EXC_PARENT:
            return
        try:
            mi = source.load(mod)
        except KeyError:
            return
        node = mi.classes.get(q)
        if node is None or not node.bases:
            return
        b = node.bases[0]
        if isinstance(b, ast.Name):
            r = source.resolve_global(mi, b.id)
            if r and ":" in r:
                self.register_repo_exc(*r.split(":"))
                R.EXC_PARENT[q] = r.split(":")[1]
            else:
                R.EXC_PARENT[q] = b.id

    def x_If(self, node):
        c = self.truthy(self.eval(node.test), node)
        if self.branch(c, node.lineno):
            self.exec_block(node.body)
        else:
            self.exec_block(node.orelse)

    def x_Break(self, node):
        raise BreakEx()

    def x_Continue(self, node):
        raise ContinueEx()

    def x_With(self, node):
        if len(node.items) != 1:
            raise Unsupported("multi-item with")
        it = node.items[0]
        cm = self.eval(it.context_expr)
        h = isinstance(cm, ZV) and R.METHODS.get((base_tag(cm.tag), "__with__"))
        if not h:
            raise Unsupported("with on %r (line %d)" % (cm, node.lineno))
        enter, exit_ok, exit_exc = h(self, cm)
        v = enter()
        if it.optional_vars is not None:
            self.assign(it.optional_vars, v)
        try:
            self.exec_block(node.body)
        except RaisedEx:
            exit_exc()
            raise
        except (ReturnEx, BreakEx, ContinueEx):
            exit_ok()
            raise
        else:
            exit_ok()

    # ------------------------------------------------------------- try
    def exc_matches(self, exc, handler_type):
        """True / False / None(unknown -> fork)."""
        if handler_type is None:
            return True
        t = self.eval(handler_type)
        names = []
        for it in (t.items if isinstance(t, PySeq) else [t]):
            if isinstance(it, GlobalRef):
                names.append(self.exc_name(it.path))
            else:
                raise Unsupported("except clause %r" % (it,))
        res = False
        for n in names:
            if R.exc_subclass(exc.cls, n):
                return True
            if not exc.exact and R.exc_subclass(n, exc.cls):
                res = None
        return res

    def x_Try(self, node):
        try:
            try:
                self.exec_block(node.body)
            except RaisedEx as r:
                handled = False
                for h in node.handlers:
                    m = self.exc_matches(r.exc, h.type)
                    if m is None:
                        m = self.branch(z3.Bool("excmatch!%d" % id(r)) if False else L.fresh("excmatch", L.B), node.lineno)
                    if m:
                        self.st.caught = getattr(self.st, "caught", 0) + 1
                        if h.name:
                            self.st.env[h.name] = r.exc
                        self.handling.append(r.exc)
                        try:
                            self.exec_block(h.body)
                        finally:
                            self.handling.pop()
                        handled = True
                        break
                if not handled:
                    raise
            else:
                self.exec_block(node.orelse)
        except PathEnd:
            raise
        except (RaisedEx, ReturnEx, BreakEx, ContinueEx):
            if node.finalbody:
                self.exec_block(node.finalbody)
            raise
        else:
            if node.finalbody:
                self.exec_block(node.finalbody)

    # ------------------------------------------------------------- loops
    def loop_spec(self, node):
        ordinal = self.loop_ordinals.get(id(node))
        spec = self.contract.loops.get(ordinal) if self.contract else None
        return ordinal, spec

    def x_For(self, node):
        if node.orelse:
            raise Unsupported("for-else")
        it_node = node.iter
        idx_target = None
        target = node.target
        # enumerate(...)
        if isinstance(it_node, ast.Call) and isinstance(it_node.func, ast.Name) and it_node.func.id == "enumerate" \
                and "enumerate" not in self.st.env and isinstance(target, ast.Tuple) and len(target.elts) == 2:
            idx_target, target = target.elts
            it_node = it_node.args[0]
        zipped = None
        if isinstance(it_node, ast.Call) and isinstance(it_node.func, ast.Name) and it_node.func.id == "zip" and len(it_node.args) == 2 \
                and isinstance(target, ast.Tuple):
            zipped = [self.eval(a) for a in it_node.args]
        src = None if zipped else self.eval(it_node)
        if isinstance(src, (PySeq, PyDict)) and not zipped:
            items = src.items if isinstance(src, PySeq) else [k for k, _ in src.items]
            for i, item in enumerate(items):
                if idx_target is not None:
                    self.assign(idx_target, PyC(i))
                self.assign(target, item)
                try:
                    self.exec_block(node.body)
                except BreakEx:
                    break
                except ContinueEx:
                    continue
            return
        ordinal, spec = self.loop_spec(node)
        if spec is None:
            raise Unsupported("loop #%s at line %d has no invariant in the contract" % (ordinal, node.lineno))
        want = spec.get("iter")
        if want is not None and ast.unparse(node.iter).replace(" ", "") != want.replace(" ", ""):
            # the invariant is keyed by ordinal; a different iterated expression is tried with the same invariant
            # (if it no longer fits, its obligations fail - never a silent pass)
            self.dropped.add("loop #%s iterates %r (contract written for %r)" % (ordinal, ast.unparse(node.iter), want))
        st = self.st
        if zipped:
            a, b = self.seq_of(zipped[0]), self.seq_of(zipped[1])
            n = z3.If(L.len_(a.term) <= L.len_(b.term), L.len_(a.term), L.len_(b.term))
            elem = lambda i: PySeq([self.retag(L.nth(a.term, i), self.elem_tag(a)), self.retag(L.nth(b.term, i), self.elem_tag(b))])
            seqv = a
        else:
            if self.tainted(src):
                self.effect("iteration", self.exact_builtin_container(src), node)
            seqv = self.seq_of(src)
            n = L.len_(seqv.term)
            et = self.elem_tag(seqv) or ("Val" if self.tainted(src) else None)
            elem = lambda i: self.retag(L.nth(seqv.term, i), et)
        self._loop_has_effects = body_has_effects(node.body)
        names, fields = assigned_names(node.body)
        names |= assigned_names([ast.Assign(targets=[node.target], value=ast.Constant(0), lineno=0)])[0]
        # snapshot of the locals when this loop is entered (clauses: pre_loop('name')), innermost loop last
        self.loop_entry_stack.append(dict(st.env))
        try:
            return self._for_symbolic(node, spec, ordinal, seqv, n, elem, idx_target, target, names, fields)
        finally:
            self.loop_entry_stack.pop()

    def _for_symbolic(self, node, spec, ordinal, seqv, n, elem, idx_target, target, names, fields):
        st = self.st
        self.check_invariant(spec, ordinal, z3.IntVal(0), seqv, "entry", node.lineno)
        pre_env = dict(st.env)
        # havoc
        self.havoc(names, fields, spec)
        i = L.fresh("i", L.I)
        st.assume(0 <= i)
        st.assume(i <= n)
        self.assume_invariant(spec, ordinal, i, seqv)
        if self.branch(i < n, node.lineno, tag="loop%s" % ordinal):
            if idx_target is not None:
                self.assign(idx_target, ZI(i))
            self.assign(target, elem(i))
            try:
                self.exec_block(node.body)
            except BreakEx:
                return          # state at the break continues after the loop
            except ContinueEx:
                pass
            self.check_invariant(spec, ordinal, i + 1, seqv, "preserved", node.lineno)
            raise PathEnd()
        # exit: i == n, invariant holds; loop variables keep their last values (unknown) -> already havocked
        return

    def x_While(self, node):
        if node.orelse:
            raise Unsupported("while-else")
        ordinal, spec = self.loop_spec(node)
        if spec is None:
            raise Unsupported("while loop #%s at line %d has no invariant" % (ordinal, node.lineno))
        st = self.st
        self._loop_has_effects = body_has_effects(node.body)
        names, fields = assigned_names(node.body)
        self.check_invariant(spec, ordinal, None, None, "entry", node.lineno)
        variant0 = None
        self.havoc(names, fields, spec)
        self.assume_invariant(spec, ordinal, None, None)
        c = self.truthy(self.eval(node.test), node)
        if self.branch(c, node.lineno, tag="loop%s" % ordinal):
            if spec.get("decreases"):
                variant0 = as_int(self.spec_eval(spec["decreases"], {}))
            try:
                self.exec_block(node.body)
            except BreakEx:
                return
            except ContinueEx:
                pass
            self.check_invariant(spec, ordinal, None, None, "preserved", node.lineno)
            if variant0 is not None:
                v1 = as_int(self.spec_eval(spec["decreases"], {}))
                self.oblige("term:loop%s" % ordinal, z3.And(v1 < variant0, variant0 >= 0), node.lineno, clause=spec["decreases"])
            raise PathEnd()
        return

    def fold_symbolic(self, label, seqv, init, step, line, start=1):
        """functools.reduce(f, seq) as a loop with an invariant (contract.loops[label], over _acc, _i, _seq):
        acc = seq[0]; for i in range(1, len(seq)): acc = f(acc, seq[i])."""
        st = self.st
        spec = self.contract.loops.get(label) if self.contract else None
        if spec is None:
            raise Unsupported("fold %s at line %d has no invariant in the contract" % (label, line))
        n = L.len_(seqv.term)
        st.env["_acc"] = init
        self.check_invariant(spec, label, z3.IntVal(start), seqv, "entry", line)
        st.env["_acc"] = self.fresh_like(init, "_acc") if not isinstance(init, ZV) else ZV(L.fresh("_acc"), init.tag)
        i = L.fresh("i", L.I)
        st.assume(start <= i)
        st.assume(i <= n)
        self.assume_invariant(spec, label, i, seqv)
        if self.branch(i < n, line, tag="fold%s" % label):
            st.env["_acc"] = step(st.env["_acc"], self.retag(L.nth(seqv.term, i), self.elem_tag(seqv)))
            self.check_invariant(spec, label, i + 1, seqv, "preserved", line)
            raise PathEnd()
        return st.env.pop("_acc")

    def havoc(self, names, fields, spec):
        st = self.st
        for nme in sorted(names):
            old = st.env.get(nme)
            if old is None:
                continue
            st.env[nme] = self.fresh_like(old, nme)
        for f in sorted(fields):
            e = R.FIELDS.get(f)
            if e is None:
                continue
            for key in ([f] if isinstance(e, tuple) else [x[2] for x in e]):
                self.heap_array(key)
                st.heap[key] = L.fresh("heap_" + key, z3.ArraySort(L.V, L.V))
        for f in spec.get("havoc_fields", []):
            st.heap[f] = L.fresh("heap_" + f, z3.ArraySort(L.V, L.V))
        if getattr(self, "is_generator", False) and not self.is_ctxmgr:
            self.yielded = ZV(L.fresh("yielded"), "seq")
        if spec.get("havoc_effects", self._loop_has_effects):
            st.effects = L.fresh("eff")
        # the allocation clock only moves forward
        c_ = L.fresh("clock", L.I)
        st.assume(c_ >= st.clock)
        st.clock = c_

    def fresh_like(self, old, name):
        if isinstance(old, ZB) or (isinstance(old, PyC) and isinstance(old.value, bool)):
            return ZB(L.fresh(name, L.B))
        if isinstance(old, ZI) or (isinstance(old, PyC) and type(old.value) is int):
            return ZI(L.fresh(name, L.I))
        if isinstance(old, ZS) or (isinstance(old, PyC) and isinstance(old.value, str)):
            return ZS(L.fresh(name, L.S))
        tag = getattr(old, "tag", None)
        if isinstance(old, PyC) and old.value is None:
            tag = None
        if isinstance(old, (PySeq, PyDict)):
            tag = {"seq": "seq", "dict": "dict", "set": "set"}[old.tag]
        hint = (self.contract.loops.get("tags") or {}).get(name) if self.contract else None
        return ZV(L.fresh(name), hint or tag)

    def inv_env(self, i, seqv):
        env = {}
        if getattr(self, "is_generator", False):
            env["L_yielded"] = self.yielded
        if i is not None:
            env["_i"] = ZI(i)
            env["_seq"] = seqv
            env["_n"] = ZI(L.len_(seqv.term))
        return env

    def check_invariant(self, spec, ordinal, i, seqv, phase, line):
        for label, clause in spec.get("inv", {}).items():
            g = as_bool(self.spec_eval(clause, self.inv_env(i, seqv)))
            self.oblige("inv:loop%s:%s:%s" % (ordinal, label, phase), g, line, clause=clause)

    def assume_invariant(self, spec, ordinal, i, seqv):
        for label, clause in spec.get("inv", {}).items():
            self.st.assume(as_bool(self.spec_eval(clause, self.inv_env(i, seqv))))
