"""Interpreter-level values of the symbolic executor."""
import z3
from . import logic as L


class Unsupported(Exception):
    """The lowering met a construct outside the stated subset; the function leaves L1's reach."""


class Val:
    tag = None


class ZB(Val):
    tag = "bool"

    def __init__(self, term):
        self.term = term if z3.is_expr(term) else z3.BoolVal(bool(term))


class ZI(Val):
    tag = "int"

    def __init__(self, term):
        self.term = term if z3.is_expr(term) else z3.IntVal(int(term))


class ZS(Val):
    tag = "str"

    def __init__(self, term):
        self.term = term if z3.is_expr(term) else z3.StringVal(term)


class ZV(Val):
    def __init__(self, term, tag=None):
        self.term = term
        self.tag = tag

    def __repr__(self):
        return "ZV(%s:%s)" % (self.term, self.tag)


class PyC(Val):
    """A concrete Python constant (None, bool, int, str, bytes, Ellipsis)."""

    def __init__(self, value):
        self.value = value
        self.tag = {type(None): "none", bool: "bool", int: "int", str: "str"}.get(type(value))

    def __repr__(self):
        return "PyC(%r)" % (self.value,)


class PySeq(Val):
    """Concrete-length tuple / list / set display of values."""

    def __init__(self, items, kind="tuple"):
        self.items = list(items)
        self.kind = kind
        self.tag = "seq" if kind != "set" else "set"


class PyDict(Val):
    tag = "dict"

    def __init__(self, items):
        self.items = list(items)  # [(key Val, value Val)]


class GlobalRef(Val):
    """A dotted global path, e.g. 'inspect.Parameter.empty' or 'monkeytype.typing:shrink_types'."""

    def __init__(self, path):
        self.path = path

    def __repr__(self):
        return "GlobalRef(%s)" % self.path


class Closure(Val):
    def __init__(self, node, env):
        self.node = node
        self.env = env


class BoundM(Val):
    def __init__(self, recv, name, recv_node=None):
        self.recv = recv
        self.name = name
        self.recv_node = recv_node


class SpecFn(Val):
    def __init__(self, f, name=""):
        self.f = f
        self.name = name


class PyRange(Val):
    def __init__(self, lo, hi):
        self.lo = lo
        self.hi = hi


class ExcVal(Val):
    """An exception instance: class name (upper bound) and whether the class is exact."""

    def __init__(self, cls, exact=True, args=()):
        self.cls = cls
        self.exact = exact
        self.args = args
        self.tag = "exc"


# ------------------------------------------------------------------ coercions
def as_v(val):
    """Box any value as a term of sort V."""
    if isinstance(val, ZV):
        return val.term
    if isinstance(val, PyC):
        v = val.value
        if v is None:
            return L.NONE
        if isinstance(v, bool):
            return L.box_bool(z3.BoolVal(v))
        if isinstance(v, int):
            return L.box_int(z3.IntVal(v))
        if isinstance(v, str):
            return L.box_str(z3.StringVal(v))
        if v is Ellipsis:
            return L.atom("py", "Ellipsis")
        raise Unsupported("cannot box constant %r" % (v,))
    if isinstance(val, ZB):
        return L.box_bool(val.term)
    if isinstance(val, ZI):
        return L.box_int(val.term)
    if isinstance(val, ZS):
        return L.box_str(val.term)
    if isinstance(val, PySeq):
        if val.kind == "set":
            t = L.EMPTY_SET
            for it in val.items:
                t = L.set_add(t, as_v(it))
            return t
        return L.mk_tuple([as_v(it) for it in val.items])
    if isinstance(val, PyDict):
        t = L.EMPTY_DICT
        for k, v in val.items:
            t = L.dict_set(t, as_v(k), as_v(v))
        return t
    if isinstance(val, GlobalRef):
        if val.path in GLOBAL_ATOMS:
            return GLOBAL_ATOMS[val.path]
        return L.atom("global", val.path)
    if isinstance(val, ExcVal):
        return L.atom("exc", val.cls)
    raise Unsupported("cannot box %r" % (val,))


def as_int(val):
    if isinstance(val, ZI):
        return val.term
    if isinstance(val, PyC) and isinstance(val.value, int) and not isinstance(val.value, bool):
        return z3.IntVal(val.value)
    if isinstance(val, PyC) and isinstance(val.value, bool):
        return z3.IntVal(int(val.value))
    if isinstance(val, ZV):
        return L.unbox_int(val.term)
    if isinstance(val, ZB):
        return z3.If(val.term, z3.IntVal(1), z3.IntVal(0))
    raise Unsupported("not an int: %r" % (val,))


def as_str(val):
    if isinstance(val, ZS):
        return val.term
    if isinstance(val, PyC) and isinstance(val.value, str):
        return z3.StringVal(val.value)
    if isinstance(val, ZV):
        return L.unbox_str(val.term)
    raise Unsupported("not a str: %r" % (val,))


_OBJ_TAGS_ALWAYS_TRUE = set()
TRUTH_FN = {}    # tag -> (term -> z3 Bool): truthiness of objects of that tag, where it is neither always true nor a container's


def declare_always_truthy(*tags):
    _OBJ_TAGS_ALWAYS_TRUE.update(tags)


TAG_ALIAS = {}
GLOBAL_ATOMS = {}   # dotted path of a builtin / library object -> the theory term that denotes it


def base_tag(tag):
    if tag and tag.startswith("Opt["):
        tag = tag[4:-1]
    return TAG_ALIAS.get(tag, tag)


def as_bool(val):
    """Python truthiness as a z3 Bool."""
    if isinstance(val, ZB):
        return val.term
    if isinstance(val, PyC):
        return z3.BoolVal(bool(val.value))
    if isinstance(val, ZI):
        return val.term != 0
    if isinstance(val, ZS):
        return z3.Length(val.term) > 0
    if isinstance(val, (PySeq,)):
        return z3.BoolVal(len(val.items) > 0)
    if isinstance(val, PyDict):
        return z3.BoolVal(len(val.items) > 0)
    if isinstance(val, (GlobalRef, Closure, BoundM, SpecFn)):
        return z3.BoolVal(True)
    if isinstance(val, ZV):
        if getattr(val, "truth", None) is not None:
            return val.truth
        tag = val.tag
        opt = bool(tag and tag.startswith("Opt["))
        bt = base_tag(tag)
        if bt in ("seq", "dict", "set", "Seq", "Dict", "Set") or (bt and (bt.startswith("Seq[") or bt.startswith("Dict[") or bt.startswith("Set["))):
            core = L.len_(val.term) > 0
        elif bt == "str":
            core = z3.Length(L.unbox_str(val.term)) > 0
        elif bt == "int":
            core = L.unbox_int(val.term) != 0
        elif bt == "bool":
            core = L.unbox_bool(val.term)
        elif bt == "none":
            return z3.BoolVal(False)
        elif bt in TRUTH_FN:
            core = TRUTH_FN[bt](val.term)
        elif bt in _OBJ_TAGS_ALWAYS_TRUE:
            core = z3.BoolVal(True)
        else:
            return L.truthy(val.term)
        if opt:
            return z3.And(val.term != L.NONE, core)
        return core
    raise Unsupported("truthiness of %r" % (val,))


def is_prim_str(val):
    return isinstance(val, ZS) or (isinstance(val, PyC) and isinstance(val.value, str)) or \
        (isinstance(val, ZV) and base_tag(val.tag) == "str" and not (val.tag or "").startswith("Opt["))


def is_prim_int(val):
    return isinstance(val, ZI) or (isinstance(val, PyC) and type(val.value) is int) or \
        (isinstance(val, ZV) and val.tag == "int")


def eq(a, b):
    """Python == / `is` on modelled values as a z3 Bool (the logic identifies ==-equal objects)."""
    if isinstance(a, PyC) and isinstance(b, PyC):
        return z3.BoolVal(a.value == b.value and type(a.value) == type(b.value) or a.value is b.value)
    if isinstance(a, GlobalRef) and isinstance(b, GlobalRef):
        return z3.BoolVal(a.path == b.path)
    if isinstance(a, (ZB,)) or isinstance(b, (ZB,)):
        if isinstance(a, (ZB, PyC)) and isinstance(b, (ZB, PyC)):
            if (isinstance(a, PyC) and not isinstance(a.value, bool)) or (isinstance(b, PyC) and not isinstance(b.value, bool)):
                return z3.BoolVal(False)
            return as_bool(a) == as_bool(b)
    if (isinstance(a, ZI) or isinstance(b, ZI)) and is_prim_int(a) and is_prim_int(b):
        return as_int(a) == as_int(b)
    if (isinstance(a, ZS) or isinstance(b, ZS)) and is_prim_str(a) and is_prim_str(b):
        return as_str(a) == as_str(b)
    if isinstance(a, PySeq) and isinstance(b, PySeq):
        if len(a.items) != len(b.items) or a.kind != b.kind:
            return z3.BoolVal(False)
        return z3.And([eq(x, y) for x, y in zip(a.items, b.items)] + [z3.BoolVal(True)])
    return as_v(a) == as_v(b)
