"""Load all theories and sidecar contracts."""
import importlib
import os
import sys

ROOT = os.path.dirname(os.path.dirname(os.path.abspath(__file__)))
if ROOT not in sys.path:
    sys.path.insert(0, ROOT)


def load_all():
    import pyvc.spec  # noqa
    for d in ("theories", "contracts"):
        for f in sorted(os.listdir(os.path.join(ROOT, d))):
            if f.endswith(".py") and f != "__init__.py":
                importlib.import_module("%s.%s" % (d, f[:-3]))
