"""Reading the real source: every run re-parses /repo (nothing cached across runs)."""
import ast
import hashlib
import os

REPO = os.environ.get("PYVC_REPO", "/repo")
PKG = "monkeytype"


class ModuleInfo:
    def __init__(self, name, path):
        self.name = name
        self.path = path
        self.text = open(path).read()
        self.tree = ast.parse(self.text)
        self.lines = self.text.splitlines()
        self.imports = {}      # local name -> qualified path
        self.constants = {}    # name -> ast expr (module-level simple assignments)
        self.functions = {}    # qualname -> FunctionDef
        self.classes = {}      # qualname -> ClassDef
        self.assigned = set()  # every module-level assigned name (rebinding scan)
        self._scan(self.tree.body, "")

    def _scan(self, body, prefix, toplevel=True):
        for st in body:
            if isinstance(st, ast.Import) and toplevel:
                for a in st.names:
                    if a.asname:
                        self.imports[a.asname] = a.name
                    else:
                        self.imports[a.name.split(".")[0]] = a.name.split(".")[0]
            elif isinstance(st, ast.ImportFrom) and toplevel:
                for a in st.names:
                    mod = st.module or ""
                    tgt = (mod + ":" + a.name) if mod.startswith(PKG) else (mod + "." + a.name)
                    self.imports[a.asname or a.name] = tgt
            elif isinstance(st, (ast.FunctionDef, ast.AsyncFunctionDef)):
                self.functions[prefix + st.name] = st
                if toplevel:
                    self.assigned.add(st.name)
            elif isinstance(st, ast.ClassDef):
                self.classes[prefix + st.name] = st
                if toplevel:
                    self.assigned.add(st.name)
                self._scan(st.body, prefix + st.name + ".", toplevel=False)
            elif isinstance(st, ast.Assign) and toplevel:
                for t in st.targets:
                    if isinstance(t, ast.Name):
                        self.constants[t.id] = st.value
                        self.assigned.add(t.id)
            elif isinstance(st, ast.AnnAssign) and toplevel and isinstance(st.target, ast.Name) and st.value is not None:
                self.constants[st.target.id] = st.value
                self.assigned.add(st.target.id)
            elif isinstance(st, ast.Assign) and not toplevel:
                for t in st.targets:
                    if isinstance(t, ast.Name):
                        self.constants[prefix + t.id] = st.value
            elif isinstance(st, ast.Try) and toplevel:
                # compat.py: try: def is_generic ... except ImportError: def is_generic ...
                self._scan(st.body, prefix, toplevel)
            elif isinstance(st, ast.If) and toplevel:
                pass

    def segment(self, node):
        return "\n".join(self.lines[node.lineno - 1:node.end_lineno])

    def func_hash(self, node):
        return hashlib.sha256(self.segment(node).encode()).hexdigest()[:16]


_MODS = {}


def module_path(name):
    rel = name.replace(".", "/")
    for cand in (rel + ".py", rel + "/__init__.py"):
        p = os.path.join(REPO, cand)
        if os.path.exists(p):
            return p
    return None


def load(name):
    if name not in _MODS:
        p = module_path(name)
        if p is None:
            raise KeyError("no repo module %s" % name)
        _MODS[name] = ModuleInfo(name, p)
    return _MODS[name]


def reset(repo=None):
    global REPO
    _MODS.clear()
    if repo:
        REPO = repo


LEMMAS = {}    # 'lemma:<name>' -> (module name whose globals the text sees, FunctionDef parsed from the sidecar's text)


def register_lemma(target, module, text, imports=None):
    node = ast.parse(text).body[0]
    LEMMAS[target] = (module, node, text, dict(imports or {}))


class _LemmaModule:
    """The module a lemma is stated in: the repo module's globals, the lemma's own text for hashing."""
    def __init__(self, mi, text, imports=None):
        self.__dict__.update(mi.__dict__)
        self.imports = dict(mi.imports)
        self.imports.update(imports or {})       # names the lemma text uses from other repo modules
        self._text = text
        self.path = "sidecar lemma over " + mi.path

    def func_hash(self, node):
        return hashlib.sha256(self._text.encode()).hexdigest()[:16]

    def segment(self, node):
        return self._text


def find_function(target):
    """target = 'monkeytype.stubs:update_signature_args' or '...:Class.method' or 'lemma:<name>'."""
    if target in LEMMAS:
        module, node, text, imports = LEMMAS[target]
        return _LemmaModule(load(module), text, imports), node
    mod, qual = target.split(":")
    mi = load(mod)
    node = mi.functions.get(qual)
    if node is None and "." in qual:
        # class-specialised target: a method the class inherits, verified against the contract stated for *this* class
        # (its `self` is an instance of this class: calls on self resolve through this class first)
        cls, meth = qual.rsplit(".", 1)
        if cls in mi.classes:
            r = resolve_method(mod + ":" + cls, meth)
            if r:
                m2, q2 = r.split(":")
                return load(m2), load(m2).functions.get(q2)
    return mi, node


def resolve_global(mi, name, _depth=0):
    """Resolve a global name of module mi to a qualified path string, or None."""
    if name in mi.functions or name in mi.classes:
        return mi.name + ":" + name
    if name in mi.imports:
        tgt = mi.imports[name]
        if ":" in tgt and _depth < 5:
            m2, n2 = tgt.split(":")
            try:
                mi2 = load(m2)
            except KeyError:
                return tgt
            if n2 in mi2.functions or n2 in mi2.classes or n2 in mi2.constants:
                return tgt
            r = resolve_global(mi2, n2, _depth + 1)
            return r or tgt
        return tgt
    if name in mi.constants:
        return mi.name + ":" + name
    return None


def class_mro(target):
    """Linearised method table of a repo class: list of (module, classname) from most to least derived.
    Single inheritance among repo classes only (sufficient for typing.py / stubs.py)."""
    out = []
    mod, qual = target.split(":")
    while True:
        mi = load(mod)
        node = mi.classes.get(qual)
        if node is None:
            break
        out.append((mod, qual))
        nxt = None
        for b in node.bases:
            bn = b
            if isinstance(bn, ast.Subscript):
                bn = bn.value
            if isinstance(bn, ast.Name):
                r = resolve_global(mi, bn.id)
                if r and ":" in r:
                    m2, q2 = r.split(":")
                    try:
                        if q2 in load(m2).classes:
                            nxt = (m2, q2)
                            break
                    except KeyError:
                        pass
        if nxt is None:
            break
        mod, qual = nxt
    return out


def resolve_method(cls_target, name):
    """MRO-resolved method: returns 'module:Class.method' or None."""
    for mod, qual in class_mro(cls_target):
        mi = load(mod)
        if qual + "." + name in mi.functions:
            return mod + ":" + qual + "." + name
    return None


def method_table(cls_target, prefix=""):
    """All method names visible on the class (MRO order), e.g. for 'rewrite_' dispatch."""
    seen = {}
    for mod, qual in class_mro(cls_target):
        mi = load(mod)
        for q in mi.functions:
            if q.startswith(qual + ".") and "." not in q[len(qual) + 1:]:
                n = q[len(qual) + 1:]
                if n.startswith(prefix) and n not in seen:
                    seen[n] = mod + ":" + q
    return seen
