"""The symbolic interpreter: path exploration by decision replay, calls through contracts,
obligation generation for one function under contract."""
import ast
import time
import z3
from . import logic as L
from . import registry as R
from . import source
from .values import *
from .state import *
from .expr import ExprMixin
from .stmt import StmtMixin, assigned_names


def _has_quantifier(e, _seen=None):
    if z3.is_quantifier(e):
        return True
    if _seen is None:
        _seen = set()
    if e.get_id() in _seen:
        return False
    _seen.add(e.get_id())
    return any(_has_quantifier(c, _seen) for c in e.children())


class Interp(ExprMixin, StmtMixin):
    BUILTINS = {"len", "all", "any", "tuple", "list", "isinstance", "getattr", "hasattr", "sorted", "enumerate",
                "zip", "str", "bool", "set", "dict", "print", "callable", "type", "int", "repr", "issubclass",
                "Exception", "TypeError", "ValueError", "AttributeError", "KeyError", "IndexError", "ImportError",
                "ModuleNotFoundError", "NotImplementedError", "AssertionError", "NotImplemented", "object", "super",
                "min", "max", "range", "frozenset", "hash", "property", "classmethod", "staticmethod", "id"}

    def __init__(self, contract, timeout_ms=10000, max_paths=400):
        self.contract = contract
        self.mi, self.fnode = source.find_function(contract.target)
        if self.fnode is None:
            raise Unsupported("contract does not attach: %s not found" % contract.target)
        self.prover = Prover(contract.theories, timeout_ms)
        self.max_paths = max_paths
        self.obligations = []
        self.paths = 0
        self.path_ends = []
        self.loop_ordinals = {}
        k = 0
        for n in ast.walk(self.fnode):
            if isinstance(n, (ast.For, ast.While)):
                pass
        # ordinals in source order
        loops = [n for n in ast.walk(self.fnode) if isinstance(n, (ast.For, ast.While))]
        loops.sort(key=lambda n: (n.lineno, n.col_offset))
        for k, n in enumerate(loops):
            self.loop_ordinals[id(n)] = k
        self.is_generator = any(isinstance(n, (ast.Yield, ast.YieldFrom)) for n in ast.walk(self.fnode))
        self.body_has_effects = True
        self.handling = []
        self._const_stack = []
        self.loop_entry_stack = []
        self.cur_line = self.fnode.lineno
        self.unsupported = None
        self.dropped = set()

    # ------------------------------------------------------------- T-EFFECT: no user-defined code on program objects
    TAINTED = {"Val", "Callee"}

    def tainted(self, val):
        return isinstance(val, ZV) and base_tag(val.tag) in self.TAINTED and getattr(val, "truth", None) is None

    def effect(self, kind, silent_if, node=None):
        """The operation dispatches to user-defined code unless `silent_if` holds on this path (C03)."""
        if self.st.spec_mode or not getattr(self.contract, "effects_checked", True):
            return
        line = getattr(node, "lineno", 0) or self.cur_line
        self.oblige("safe:effect:%s@%d" % (kind, line), silent_if, line,
                    clause="%s on a program object runs user-defined code unless: %s" % (kind, z3.simplify(silent_if)))

    def truthy(self, val, node=None):
        if self.tainted(val):
            # bool(x) calls __bool__ / __len__ of the object's class; only None is known to be silent
            self.effect("truthiness", val.term == L.NONE if (val.tag or "").startswith("Opt[") else z3.BoolVal(False), node)
        return as_bool(val)

    def exact_builtin_container(self, val):
        from theories import values_th as VT
        return z3.Or(*[VT.cls_of(val.term) == VT.CLS[n] for n in ("list", "set", "dict", "defaultdict", "tuple")])

    def exact_builtin_hashable(self, val):
        from theories import values_th as VT
        return z3.Or(*[VT.cls_of(val.term) == VT.CLS[n] for n in ("str", "int", "bool", "NoneType")])

    # ------------------------------------------------------------- branching
    def branch(self, cond, line=0, tag=""):
        st = self.st
        c = z3.simplify(cond)
        if z3.is_true(c):
            return True
        if z3.is_false(c):
            return False
        if st.qctx:
            raise Unsupported("branch under quantifier/guard (line %s)" % line)
        k = len(st.decisions)
        if k < len(st.prefix):
            d = st.prefix[k]
        else:
            t_ok = self.prover.feasible_qf(st.pc + [cond])
            f_ok = self.prover.feasible_qf(st.pc + [z3.Not(cond)])
            if t_ok and f_ok:
                self.worklist.append(st.decisions + [False])
                d = True
            elif t_ok:
                d = True
            elif f_ok:
                d = False
            else:
                raise PathEnd()
        st.decisions.append(d)
        st.pc.append(cond if d else z3.Not(cond))
        return d

    def oblige(self, name, goal, line=0, clause=""):
        st = self.st
        if st.spec_mode:
            return
        g = st.wrap(goal)
        ob = Obligation(name, self.contract.target, line, list(st.pc), g, tuple(st.decisions), clause)
        self.obligations.append(ob)
        if not _has_quantifier(g):
            st.pc.append(g)

    # ------------------------------------------------------------- spec evaluation
    def spec_eval(self, clause, extra_env=None, old_heap=None, clean=False):
        st = self.st
        tree = self._spec_cache.get(clause)
        if tree is None:
            tree = ast.parse(clause.strip(), mode="eval").body
            self._spec_cache[clause] = tree
        saved_env = st.env
        st.env = {} if clean else dict(st.env)
        if extra_env:
            st.env.update(extra_env)
        st.spec_mode += 1
        try:
            return self.eval(tree)
        finally:
            st.spec_mode -= 1
            st.env = saved_env

    _spec_cache = {}

    # ------------------------------------------------------------- calls
    def e_Call(self, node):
        # special forms
        f = node.func
        if isinstance(f, ast.Name) and f.id == "old" and self.st.spec_mode:
            return self.eval_old(node.args[0])
        if isinstance(f, ast.Name) and f.id == "cast" and len(node.args) == 2:
            self.dropped.add("typing.cast")
            return self.eval(node.args[1])
        if isinstance(f, ast.Attribute) and f.attr == "cast" and len(node.args) == 2:
            self.dropped.add("typing.cast")
            return self.eval(node.args[1])
        if isinstance(f, ast.Attribute) and isinstance(f.value, ast.Name) and f.value.id == "logger" and "logger" not in self.st.env:
            self.dropped.add("logger.%s" % f.attr)
            for a in node.args:
                pass
            return PyC(None)
        if isinstance(f, ast.Name) and f.id in ("all", "any") and f.id not in self.st.env and len(node.args) == 1 \
                and isinstance(node.args[0], ast.GeneratorExp) and not self.st.spec_mode:
            if len(node.args[0].generators) > 1:
                return self.quant_nested(node.args[0], f.id == "all")
            box = []
            comp = self.comprehension(node.args[0], "seq", defer_box=box)
            val = self._quant([comp], node, f.id == "all")
            for dcond, exc in box:
                if self.st.qctx:
                    self.partial(dcond, exc, node, "generator-element")
                    continue
                if not self.branch(dcond, node.lineno):
                    # some element cannot be evaluated: all()/any() either reaches it (raises) or short-circuits before it
                    if self.branch(L.fresh("reaches_undefined", L.B), node.lineno):
                        raise RaisedEx(ExcVal(exc), node.lineno)
                    return ZB(f.id != "all")
            return val
        callee = self.eval(f)
        args = []
        for a in node.args:
            if isinstance(a, ast.Starred):
                v = self.eval(a.value)
                if isinstance(v, PySeq):
                    args.extend(v.items)
                else:
                    args.append(("*", v))
            else:
                args.append(self.eval(a))
        kwargs = {}
        for kw in node.keywords:
            if kw.arg is None:
                raise Unsupported("**kwargs call")
            kwargs[kw.arg] = self.eval(kw.value)
        return self.call_value(callee, args, kwargs, node)

    def quant_nested(self, gen, universal):
        """all(...) / any(...) over a generator expression with several `for` clauses: a nested bounded quantifier.
        (Partial operations in it become obligations for every element - stricter than the short-circuiting evaluation, never weaker.)"""
        st = self.st
        saved = dict(st.env)
        pushed = 0
        binders = []
        try:
            for g in gen.generators:
                src = self.eval(g.iter)
                if isinstance(src, (PySeq, PyDict)):
                    raise Unsupported("nested comprehension over a display")
                if self.tainted(src):
                    self.effect("iteration", self.exact_builtin_container(src), gen)
                sv = self.seq_of(src)
                j = L.fresh("j", L.I)
                guard = z3.And(0 <= j, j < L.len_(sv.term))
                st.qctx.append(((j,), guard))
                pushed += 1
                self.bind_target(g.target, self.retag(L.nth(sv.term, j), self.elem_tag(sv) or ("Val" if self.tainted(src) else None)))
                conds = [as_bool(self.eval(c)) for c in g.ifs]
                cond = z3.And(*conds) if conds else None
                if cond is not None:
                    st.qctx.append(((), cond))
                    pushed += 1
                binders.append((j, guard, cond))
            body = as_bool(self.eval(gen.elt))
        finally:
            for _ in range(pushed):
                st.qctx.pop()
            st.env = saved
        for j, guard, cond in reversed(binders):
            g_ = guard if cond is None else z3.And(guard, cond)
            body = z3.ForAll([j], z3.Implies(g_, body)) if universal else z3.Exists([j], z3.And(g_, body))
        return ZB(body)

    def eval_old(self, node):
        st = self.st
        saved = st.heap, st.effects
        st.heap = dict(st.heap0)
        st.effects = self.effects0
        try:
            return self.eval(node)
        finally:
            st.heap, st.effects = saved

    def call_value(self, callee, args, kwargs, node, subscript=False):
        if isinstance(callee, SpecFn):
            return callee.f(self, args, kwargs)
        if isinstance(callee, Closure):
            return self.call_closure(callee, args)
        if isinstance(callee, BoundM):
            return self.call_method(callee, args, kwargs, node)
        if isinstance(callee, ZV) and (callee.tag or "").startswith("ClassOf:"):
            # `cls(...)` in a classmethod: the class the contract declares (subclasses constructing themselves are outside)
            cpath = callee.tag[len("ClassOf:"):]
            if cpath not in R.INLINE_CTORS and isinstance(R.EXTERNALS.get(cpath), R.ExtFn):
                return R.EXTERNALS[cpath].f(self, args, kwargs, node)
            return self.inline_ctor(cpath, args, kwargs, node)
        if isinstance(callee, ZV):
            h = R.METHODS.get((base_tag(callee.tag), "__call__"))
            if h:
                if (callee.tag or "").startswith("Opt["):
                    self.partial(callee.term != L.NONE, "TypeError", node, "call-none")
                return h(self, callee, args, kwargs, node)
        if isinstance(callee, GlobalRef):
            path = callee.path
            if path in getattr(self.contract, "records", ()) and not subscript:
                # this contract's functions create instances of the class as immutable values (stated, with its source check, in the theory)
                return R.EXTERNALS[path + ":record"].f(self, args, kwargs, node)
            if path in R.INLINE_CTORS and not subscript:
                return self.inline_ctor(path, args, kwargs, node)
            if subscript:
                h = R.EXTERNALS.get(path + ".__getitem__")
                if h is None:
                    raise Unsupported("subscription of %s" % path)
                return h.f(self, args, kwargs, node)
            if path.startswith("builtins.") and isinstance(R.EXTERNALS.get(path), R.ExtFn):
                return R.EXTERNALS[path].f(self, args, kwargs, node)
            if path.startswith("builtins."):
                b = getattr(self, "b_" + path[len("builtins."):], None)
                if b is None:
                    raise Unsupported("builtin %s (line %s)" % (path, getattr(node, "lineno", "?")))
                return b(args, kwargs, node)
            if path in R.CONTRACTS:
                return self.apply_contract(R.CONTRACTS[path], args, kwargs, node)
            ext = R.EXTERNALS.get(path)
            if isinstance(ext, R.ExtFn):
                return ext.f(self, args, kwargs, node)
            ext = R.EXTERNALS.get(path + ".__call__")
            if isinstance(ext, R.ExtFn):
                return ext.f(self, args, kwargs, node)
            # a repo class being instantiated / an exception class
            if ":" in path:
                mod, q = path.split(":")
                init = path + ".__init__"
                if init in R.CONTRACTS:
                    return self.apply_contract(R.CONTRACTS[init], args, kwargs, node, constructor=True)
            if ":" in path and not self.st.spec_mode:
                r_ = self.inline_helper(path, args, kwargs, node)
                if r_ is not NotImplemented:
                    return r_
            raise Unsupported("call to %s has no contract / theory (line %s)" % (path, getattr(node, "lineno", "?")))
        raise Unsupported("call of %r (line %s)" % (callee, getattr(node, "lineno", "?")))

    def inline_ctor(self, path, args, kwargs, node):
        """Record classes of the repo (plain field-assigning __init__): allocate a fresh object and run __init__'s
        body in place (stated exception to modularity: constructors have no contract of their own)."""
        st = self.st
        mi, fnode = source.find_function(path + ".__init__")
        if fnode is None:
            raise Unsupported("no __init__ for %s" % path)
        obj = ZV(L.fresh("new_" + path.split(":")[1]), R.INLINE_CTORS[path])
        st.assume(obj.term != L.NONE)
        st.assume(z3.Not(L.fn("preexisting", L.V, L.B)(obj.term)))
        for o in st.alloc:
            st.assume(obj.term != o)
        st.alloc.append(obj.term)
        # ghost allocation clock: objects created at different moments are different objects, also across loop iterations
        # (invariants speak of alloc_time(o) < clock() for what earlier iterations created)
        st.assume(L.fn("alloc_time", L.V, L.I)(obj.term) == st.clock)
        st.clock = st.clock + 1
        bound = self.bind_args(fnode, args, kwargs, skip_self=True)
        saved_mi, saved_env = self.mi, st.env
        env = {fnode.args.args[0].arg: obj}
        for n, v in bound.items():
            if isinstance(v, tuple) and v[0] == "default":
                self.mi, st.env = mi, {}
                v = self.eval(v[1])
            env[n] = v
        self.mi, st.env = mi, env
        try:
            self.exec_block(fnode.body)
        except ReturnEx:
            pass
        finally:
            self.mi, st.env = saved_mi, saved_env
        return obj

    def inline_helper(self, path, args, kwargs, node, recv=None):
        """A repo function / method without a contract (typically a helper a refactoring introduced): its body is executed in place,
        symbolically, on the actual arguments - the caller's obligations then speak about the real computation. Only plain
        (undecorated, non-generator) functions, at most two levels deep, never recursively; loops in the helper need invariants
        the sidecar does not have, so they leave L1's reach as before."""
        mi, fnode = source.find_function(path)
        if fnode is None or path in R.CONTRACTS:
            return NotImplemented
        deco = [d for d in fnode.decorator_list if not (isinstance(d, ast.Name) and d.id == "staticmethod")]
        if deco or any(isinstance(n, (ast.Yield, ast.YieldFrom)) for n in ast.walk(fnode)):
            return NotImplemented
        stack = getattr(self, "_inline_stack", [])
        if path in stack or len(stack) >= 2:
            return NotImplemented
        st = self.st
        is_method = recv is not None
        bound = self.bind_args(fnode, ([recv] if is_method else []) + list(args), kwargs)
        env = {}
        saved_mi, saved_env = self.mi, st.env
        for n, v in bound.items():
            if isinstance(v, tuple) and v and v[0] == "default":
                self.mi, st.env = mi, {}
                try:
                    v = self.eval(v[1])
                finally:
                    self.mi, st.env = saved_mi, saved_env
            env[n] = v
        self.dropped.add("inlined helper without a contract: %s" % path)
        self._inline_stack = stack + [path]
        saved_loops = self.loop_ordinals
        self.mi, st.env = mi, env
        try:
            # loops of the helper are not in the caller's ordinal table: they have no invariant (Unsupported)
            self.loop_ordinals = {}
            try:
                self.exec_block(fnode.body)
                return PyC(None)
            except ReturnEx as r:
                return r.value
        finally:
            self.mi, st.env = saved_mi, saved_env
            self._inline_stack = stack
            self.loop_ordinals = saved_loops

    def call_closure(self, clo, args):
        st = self.st
        saved = st.env
        st.env = dict(clo.env)
        try:
            ps = [a.arg for a in clo.node.args.args]
            for p, a in zip(ps, args):
                st.env[p] = a
            return self.eval(clo.node.body)
        finally:
            st.env = saved

    def call_method(self, bm, args, kwargs, node):
        recv = bm.recv
        tag = base_tag(getattr(recv, "tag", None))
        h = R.METHODS.get((tag, bm.name))
        if h is None and isinstance(recv, ZV) and tag in R.TAG_CLASS:
            cls = R.TAG_CLASS[tag]
            # a call on the function's own `self` resolves through the class the function is defined in
            own = self.contract.target.split(":")
            if "." in own[1] and self.entry_env and any(isinstance(v, ZV) and v.term.eq(recv.term) for k, v in list(self.entry_env.items())[:1]):
                own_cls = own[0] + ":" + own[1].rsplit(".", 1)[0]
                r0 = source.resolve_method(own_cls, bm.name)
                if (r0 and r0 in R.CONTRACTS) or (own_cls + "." + bm.name) in R.CONTRACTS:
                    cls = own_cls
            tgt = source.resolve_method(cls, bm.name)
            if tgt and (cls + "." + bm.name) in R.CONTRACTS:
                tgt = cls + "." + bm.name          # a contract stated for this class (possibly for a method it inherits)
            if tgt and tgt in R.CONTRACTS:
                fn_ = source.find_function(tgt)[1]
                static = fn_ is not None and any(isinstance(d, ast.Name) and d.id == "staticmethod" for d in fn_.decorator_list)
                return self.apply_contract(R.CONTRACTS[tgt], ([] if static else [recv]) + list(args), kwargs, node)
            if tgt and R.METHODS.get((tag, bm.name)) is None and R.METHODS.get((None, bm.name)) is None and not self.st.spec_mode:
                r_ = self.inline_helper(tgt, args, kwargs, node, recv=recv)
                if r_ is not NotImplemented:
                    return r_
        if h is None:
            h = R.METHODS.get((None, bm.name))
        if h is None:
            m = getattr(self, "m_" + bm.name, None)
            if m is not None:
                return m(recv, args, kwargs, bm, node)
            raise Unsupported("method %s on %r (line %s)" % (bm.name, recv, getattr(node, "lineno", "?")))
        return h(self, recv, args, kwargs, bm.recv_node)

    # ------------------------------------------------------------- contracts at call sites
    def bind_args(self, fnode, args, kwargs, skip_self=False):
        a = fnode.args
        names = [x.arg for x in a.posonlyargs + a.args]
        if skip_self:
            names = names[1:]
        bound = {}
        pos = []
        for x in args:
            if isinstance(x, tuple) and x and x[0] == "*":
                # symbolic *seq: spread over the remaining positional parameters (arity obligation)
                rest = len(names) - len(pos)
                sv = self.seq_of(x[1])
                self.partial(L.len_(sv.term) == rest, "TypeError", None, "star-arity")
                et = self.elem_tag(sv)
                pos.extend(self.retag(L.nth(sv.term, z3.IntVal(k)), et) for k in range(rest))
            else:
                pos.append(x)
        if len(pos) > len(names) and not a.vararg:
            raise Unsupported("too many positional args")
        for n, v in zip(names, pos):
            bound[n] = v
        if a.vararg:
            bound[a.vararg.arg] = PySeq(pos[len(names):], "tuple")
        for k, v in kwargs.items():
            bound[k] = v
        defaults = a.defaults
        dnames = names[len(names) - len(defaults):] if defaults else []
        allnames = [x.arg for x in a.posonlyargs + a.args]
        dmap = dict(zip(allnames[len(allnames) - len(defaults):], defaults))
        for ko, kd in zip(a.kwonlyargs, a.kw_defaults):
            if kd is not None:
                dmap[ko.arg] = kd
        for n in names + [x.arg for x in a.kwonlyargs]:
            if n not in bound:
                if n in dmap:
                    bound[n] = ("default", dmap[n])
                else:
                    raise Unsupported("missing argument %s" % n)
        return bound

    def coerce(self, val, tag):
        """Coerce a caller-side value to the callee's declared parameter tag."""
        if tag == "bool":
            return ZB(as_bool(val)) if not isinstance(val, ZV) else ZB(L.unbox_bool(val.term))
        if tag == "int":
            return ZI(as_int(val))
        if tag == "strp":
            return ZS(as_str(val))
        if isinstance(val, ZV):
            return ZV(val.term, tag or val.tag)
        return ZV(as_v(val), tag)

    def apply_contract(self, c, args, kwargs, node, constructor=False):
        st = self.st
        mi, fnode = source.find_function(c.target)
        if fnode is None:
            raise Unsupported("callee %s vanished" % c.target)
        is_method = "." in c.target.split(":")[1] and not any(
            isinstance(d, ast.Name) and d.id == "staticmethod" for d in fnode.decorator_list)
        is_cm = any(isinstance(d, ast.Name) and d.id == "classmethod" for d in fnode.decorator_list)
        bound = self.bind_args(fnode, args, kwargs, skip_self=constructor or is_cm)
        env = {}
        for n, v in bound.items():
            if isinstance(v, tuple) and v[0] == "default":
                saved_mi, saved_env = self.mi, st.env
                self.mi, st.env = mi, {}
                try:
                    v = self.eval(v[1])
                finally:
                    self.mi, st.env = saved_mi, saved_env
            env[n] = self.coerce(v, c.params.get(n)) if n in c.params else v
        line = getattr(node, "lineno", 0)
        short = c.target.split(":")[1]
        in_spec = st.spec_mode > 0
        # preconditions
        pre_holds = None
        if not in_spec and c.outside_pre:
            # total view of a partial contract: where `requires` fails only the definitional clauses are known (stated assumption c.outside_pre)
            pre_holds = z3.And(*[as_bool(self.spec_eval_in(clause, env)) for clause in c.requires.values()]) if c.requires else None
        elif not in_spec:
            for label, clause in c.requires.items():
                g = as_bool(self.spec_eval_in(clause, env))
                self.oblige("pre:%s:%s@%d" % (short, label, line), g, line, clause=clause)
            # caller-side guards: "this callee is only invoked when ..." (stated in the caller's contract, over the caller's state)
            for label, clause in self.contract.call_guards.get(short, {}).items():
                self.oblige("guard:%s:%s@%d" % (short, label, line), as_bool(self.spec_eval(clause, extra_env=self.entry_env)), line, clause=clause)
            # termination of recursion inside an SCC
            if c.scc and self.contract.scc == c.scc and c.decreases and self.contract.decreases:
                mine = [as_int(self.spec_eval_in(d, self.entry_env)) for d in self.contract.decreases]
                theirs = [as_int(self.spec_eval_in(d, env)) for d in c.decreases]
                lex = z3.BoolVal(False)
                for k in range(min(len(mine), len(theirs)) - 1, -1, -1):
                    lex = z3.Or(theirs[k] < mine[k], z3.And(theirs[k] == mine[k], lex))
                nonneg = z3.And(*[m >= 0 for m in mine])
                self.oblige("term:%s@%d" % (short, line), z3.And(lex, nonneg), line, clause=str(c.decreases))
        # result
        order = [a.arg for a in fnode.args.posonlyargs + fnode.args.args + fnode.args.kwonlyargs]
        if constructor or is_cm:
            order = order[1:]
        if c.pure:
            argterms = [as_v(env[n]) for n in order if n in env]
            rs = {"strp": L.S, "int": L.I, "bool": L.B}.get(c.result, L.V)
            F = L.fn("F_" + c.target, *([L.V] * len(argterms) + [rs]))
            rterm = F(*argterms) if argterms else L.const("F0_" + c.target, rs)
        else:
            rs = {"strp": L.S, "int": L.I, "bool": L.B}.get(c.result, L.V)
            rterm = L.fresh("r_" + short, rs)
        result = {"strp": ZS, "int": ZI, "bool": ZB}[c.result](rterm) if c.result in ("strp", "int", "bool") else self.retag(rterm, c.result)
        if constructor:
            result = ZV(rterm, c.result)
        if in_spec:
            return result
        # heap effects
        heap_before = dict(st.heap)
        for f in c.modifies:
            self.heap_array(f)
            heap_before[f] = st.heap[f]
            st.heap[f] = L.fresh("heap_" + f, z3.ArraySort(L.V, L.V))
        eff_before = st.effects
        if c.effects is not None:
            st.effects = L.fresh("eff")
        # calling a @contextmanager function only creates the manager: nothing of its body runs here
        callee_is_cm = any(isinstance(d, ast.Name) and d.id == "contextmanager" for d in fnode.decorator_list)
        # exceptional behaviour
        for exc, clause in ([] if callee_is_cm else c.raises.items()):
            cond = L.fresh("raises_" + exc.replace(".", "_"), L.B)
            if st.qctx:
                # under a quantifier we cannot fork: the caller must show the raise condition is false
                if getattr(self, "_defer", None) is not None:
                    # inside a comprehension: some element's call may raise (only where its raise condition holds);
                    # decided where the comprehension is consumed
                    er_ = L.fresh("elem_raises_" + exc.replace(".", "_"), L.B)
                    self._defer.append((z3.Not(er_ if clause is None else z3.And(er_, as_bool(self.spec_eval_in(clause, env)))), exc))
                    continue
                if clause is None:
                    raise Unsupported("call that may raise under quantifier (line %d)" % line)
                self.oblige("safe:no-raise:%s:%s@%d" % (short, exc, line), z3.Not(as_bool(self.spec_eval_in(clause, env))), line, clause)
                continue
            if clause is not None:
                may = as_bool(self.spec_eval_in(clause, env))
                cond = z3.And(cond, may)
            if self.branch(cond, line):
                for label, cl in c.ensures_exc.items():
                    b_ = as_bool(self.spec_eval_in(cl, env, heap_before, eff_before))
                    st.assume(b_ if pre_holds is None else z3.Implies(pre_holds, b_))
                raise RaisedEx(ExcVal(exc, exact=exc.endswith("!")), line)
        env2 = dict(env)
        env2["result"] = result
        for nme, clause in c.lets.items():
            env2[nme] = self.spec_eval_in(clause, env2, heap_before, eff_before)
        if c.result == "str":
            st.assume(L.is_str(rterm))
        for label, clause in c.ensures.items():
            if c.hide == "*" or label in c.hide:
                continue
            cl = as_bool(self.spec_eval_in(clause, env2, heap_before, eff_before))
            if pre_holds is not None and not any(label.startswith(p_) for p_ in c.definitional):
                cl = z3.Implies(pre_holds, cl)
            if z3.is_false(z3.simplify(cl)):
                # vacuity guard: assuming it would make every later obligation of the caller trivially true
                raise Unsupported("ensures %s of %s evaluates to False at the call site (line %d): not revealed" % (label, c.target, line))
            st.assume(cl)
        return result

    def assume_used_contract(self, cc):
        """`uses`: the (separately proved) contract of a pure function as a lemma about its function symbol:
        forall args. requires(args) => ensures(args, F(args)); and, for one-argument functions, the meaning of calling the
        function through a reference: apply1(<f>, x) == F(x), which does not raise where requires holds and the contract has no raises."""
        st = self.st
        if not cc.pure or cc.modifies or cc.effects is not None:
            raise Unsupported("uses: %s is not a pure function" % cc.target)
        mi, fnode = source.find_function(cc.target)
        if fnode is None:
            raise Unsupported("uses: %s vanished" % cc.target)
        order = [a.arg for a in fnode.args.posonlyargs + fnode.args.args + fnode.args.kwonlyargs]
        sorts = {"strp": L.S, "int": L.I, "bool": L.B}
        wrap = {"strp": ZS, "int": ZI, "bool": ZB}
        consts, env = [], {}
        for n in order:
            tag = cc.params.get(n)
            k = L.fresh("u_" + n, sorts.get(tag, L.V))
            consts.append(k)
            env[n] = wrap[tag](k) if tag in wrap else ZV(k, tag)
        argterms = [as_v(env[n]) for n in order]
        rs = sorts.get(cc.result, L.V)
        F = L.fn("F_" + cc.target, *([L.V] * len(argterms) + [rs]))
        rterm = F(*argterms)
        result = wrap[cc.result](rterm) if cc.result in wrap else self.retag(rterm, cc.result)
        req = [as_bool(self.spec_eval_in(cl, env)) for cl in cc.requires.values()]
        env2 = dict(env)
        env2["result"] = result
        for nme, clause in cc.lets.items():
            env2[nme] = self.spec_eval_in(clause, env2)
        ens = [as_bool(self.spec_eval_in(cl, env2)) for lb, cl in cc.ensures.items() if not (cc.hide == "*" or lb in cc.hide)]
        if cc.result == "str":
            ens.append(L.is_str(rterm))
        if any(cl is None for cl in cc.raises.values()):
            raise Unsupported("uses: %s has an unconditional raises clause (its result is only specified where it returns)" % cc.target)
        rconds = [as_bool(self.spec_eval_in(cl, env)) for cl in cc.raises.values()]
        returns = req + [z3.Not(rc) for rc in rconds]      # where the function is specified to return
        body = z3.Implies(z3.And(*returns) if returns else z3.BoolVal(True), z3.And(*ens) if ens else z3.BoolVal(True))
        st.pc.append(z3.ForAll(consts, body, patterns=[rterm]))
        if len(order) == 1:
            fatom = as_v(GlobalRef(cc.target))
            ap = L.fn("apply1", L.V, L.V, L.V)(fatom, argterms[0])
            boxed = as_v(result)
            facts = [ap == boxed]
            fr_ = L.fn("fn_raises", L.V, L.V, L.B)(fatom, argterms[0])
            if not cc.raises:
                facts.append(z3.Implies(z3.And(*req) if req else z3.BoolVal(True), z3.Not(fr_)))
            else:
                facts.append(z3.Implies(z3.And(*(req + [fr_])), z3.Or(*rconds)))
                # a call through the reference that did return satisfies the postconditions
                facts.append(z3.Implies(z3.And(*(req + [z3.Not(fr_)])), z3.And(*ens) if ens else z3.BoolVal(True)))
            st.pc.append(z3.ForAll(consts, z3.And(*facts), patterns=[ap, fr_]))

    def spec_eval_in(self, clause, env, heap_before=None, eff_before=None):
        """Evaluate a callee's clause in the callee's parameter environment and module."""
        st = self.st
        saved_env, saved_h0, saved_e0 = st.env, st.heap0, self.effects0
        saved_ce = getattr(self, "_callee_entry", None)
        self._callee_entry = env
        st.env = dict(env)
        if heap_before is not None:
            st.heap0 = heap_before
        if eff_before is not None:
            self.effects0 = eff_before
        try:
            return self.spec_eval(clause)
        finally:
            st.env, st.heap0, self.effects0 = saved_env, saved_h0, saved_e0
            self._callee_entry = saved_ce

    # ------------------------------------------------------------- builtins
    def b_len(self, args, kwargs, node):
        v = args[0]
        if isinstance(v, (PySeq, PyDict)):
            return PyC(len(v.items))
        if is_prim_str(v):
            return ZI(z3.Length(as_str(v)))
        if isinstance(v, ZV):
            if self.tainted(v):
                self.effect("len", self.exact_builtin_container(v), node)
            h = R.METHODS.get((base_tag(v.tag), "__len__"))
            if h:
                return h(self, v, [], {}, None)
            return ZI(L.len_(v.term))
        raise Unsupported("len of %r" % (v,))

    def _quant(self, args, node, universal):
        v = args[0]
        if isinstance(v, PySeq):
            ts = [as_bool(x) for x in v.items]
            if not ts:
                return ZB(universal)
            return ZB(z3.And(*ts) if universal else z3.Or(*ts))
        if isinstance(v, ZV):
            # sequence of (boxed) booleans produced by a comprehension
            j = L.fresh("j", L.I)
            body = self.elem_truth(v, j)
            g = z3.And(0 <= j, j < L.len_(v.term))
            if universal:
                return ZB(z3.ForAll([j], z3.Implies(g, body), patterns=[L.nth(v.term, j)]))
            return ZB(z3.Exists([j], z3.And(g, body)))
        raise Unsupported("all/any of %r" % (v,))

    def elem_truth(self, v, j):
        et = self.elem_tag(v)
        return as_bool(self.retag(L.nth(v.term, j), et or "bool"))

    def b_all(self, args, kwargs, node):
        return self._quant(args, node, True)

    def b_any(self, args, kwargs, node):
        return self._quant(args, node, False)

    def b_tuple(self, args, kwargs, node):
        if not args:
            return PySeq([], "tuple")
        v = args[0]
        if isinstance(v, PySeq):
            return PySeq(v.items, "tuple")
        return self.seq_of(v)

    def b_list(self, args, kwargs, node):
        if not args:
            return PySeq([], "list")
        v = args[0]
        if isinstance(v, PySeq):
            return PySeq(v.items, "list")
        return self.seq_of(v)

    def b_set(self, args, kwargs, node):
        if not args:
            return ZV(L.EMPTY_SET, "set")
        v = args[0]
        if isinstance(v, PySeq):
            return PySeq(v.items, "set")
        sv = self.seq_of(v)
        out = L.fresh("set")
        x = L.fresh("x")
        self.st.assume(z3.ForAll([x], L.has(out, x) == L.has(sv.term, x), patterns=[L.has(out, x), L.has(sv.term, x)]))
        self.st.assume(L.is_dictlike(out))
        self.st.assume(L.len_(out) <= L.len_(sv.term))
        self.st.assume(z3.Implies(L.len_(sv.term) > 0, L.len_(out) > 0))
        et = self.elem_tag(sv)
        return ZV(out, "Set[%s]" % et if et else "set")

    def b_dict(self, args, kwargs, node):
        if not args and not kwargs:
            return ZV(L.EMPTY_DICT, "dict")
        raise Unsupported("dict(...)")

    def b_bool(self, args, kwargs, node):
        return ZB(as_bool(args[0]))

    def b_str(self, args, kwargs, node):
        v = args[0]
        if is_prim_str(v):
            return v if not isinstance(v, ZV) else ZS(L.unbox_str(v.term))
        if isinstance(v, PyC):
            return PyC(str(v.value))
        if is_prim_int(v):
            return ZS(z3.IntToStr(as_int(v)))
        if isinstance(v, ZV) and base_tag(v.tag) == "str" and self.entails(v.term != L.NONE):
            return ZS(L.unbox_str(v.term))     # Optional[str] known not to be None on this path: str(s) is s
        h = isinstance(v, ZV) and R.METHODS.get((base_tag(v.tag), "__str__"))
        if h:
            return h(self, v, [], {}, node)
        return ZS(L.fn("str_of", L.V, L.S)(as_v(v)))

    def b_repr(self, args, kwargs, node):
        v = args[0]
        return ZS(L.fn("repr_of", L.V, L.S)(as_v(v)))

    def b_print(self, args, kwargs, node):
        h = R.EXTERNALS.get("builtins.print")
        if h:
            return h.f(self, args, kwargs, node)
        raise Unsupported("print without an effect theory")

    def b_isinstance(self, args, kwargs, node):
        h = R.EXTERNALS.get("builtins.isinstance")
        if h:
            return h.f(self, args, kwargs, node)
        raise Unsupported("isinstance without theory")

    def b_issubclass(self, args, kwargs, node):
        h = R.EXTERNALS.get("builtins.issubclass")
        if h:
            return h.f(self, args, kwargs, node)
        raise Unsupported("issubclass without theory")

    def b_callable(self, args, kwargs, node):
        h = R.EXTERNALS.get("builtins.callable")
        if h:
            return h.f(self, args, kwargs, node)
        raise Unsupported("callable without theory")

    def b_type(self, args, kwargs, node):
        h = R.EXTERNALS.get("builtins.type")
        if h:
            return h.f(self, args, kwargs, node)
        raise Unsupported("type() without theory")

    def b_getattr(self, args, kwargs, node):
        obj, name = args[0], args[1]
        if not (isinstance(name, PyC) and isinstance(name.value, str)) or (isinstance(obj, ZV) and base_tag(obj.tag) in ("Rewriter", "Replacer")):
            h = R.EXTERNALS.get("builtins.getattr:dynamic")
            if h:
                return h.f(self, args, kwargs, node)
            raise Unsupported("getattr with dynamic name (line %s)" % getattr(node, "lineno", "?"))
        if len(args) == 3:
            h = isinstance(obj, ZV) and (R.ATTRS.get((base_tag(obj.tag), name.value + "?")) or R.ATTRS.get((None, name.value + "?")))
            if not h:
                raise Unsupported("getattr(%r, %r, default)" % (obj, name.value))
            return h(self, obj, args[2])
        return self.getattr(obj, name.value, node)

    def b_hasattr(self, args, kwargs, node):
        obj, name = args[0], args[1]
        h = isinstance(obj, ZV) and isinstance(name, PyC) and (R.ATTRS.get((base_tag(obj.tag), name.value + "??")) or R.ATTRS.get((None, name.value + "??")))
        if not h:
            raise Unsupported("hasattr(%r, %r)" % (obj, name))
        return h(self, obj)

    def b_enumerate(self, args, kwargs, node):
        """enumerate(seq) as the sequence of (index, element) pairs (start = 0 only)."""
        if len(args) != 1 or kwargs:
            raise Unsupported("enumerate with a start value")
        sv = self.seq_of(args[0])
        out = L.fresh("enum")
        j = L.fresh("j", L.I)
        self.st.assume(L.len_(out) == L.len_(sv.term))
        self.st.assume(out != L.NONE)
        self.st.assume(z3.ForAll([j], z3.Implies(z3.And(0 <= j, j < L.len_(sv.term)), L.nth(out, j) == L.mk_tuple([L.box_int(j), L.nth(sv.term, j)])), patterns=[L.nth(out, j)]))
        et = self.elem_tag(sv)
        return ZV(out, "Seq[Pair[int,%s]]" % (et or "any"))

    def b_zip(self, args, kwargs, node):
        """zip(*rows) for a non-empty sequence of pairs: the pair (firsts, seconds). Other uses of zip are handled where a for loop consumes them."""
        if len(args) == 1 and isinstance(args[0], tuple) and args[0][0] == "*":
            rows = self.seq_of(args[0][1])
            n = L.len_(rows.term)
            j = L.fresh("j", L.I)
            self.partial(n > 0, "ValueError", node, "zip(*[]) unpacked")      # zip() of nothing yields nothing: the caller's two-target unpacking fails
            self.oblige("safe:zip-rows-are-pairs@%d" % getattr(node, "lineno", 0),
                        z3.ForAll([j], z3.Implies(z3.And(0 <= j, j < n), L.len_(L.nth(rows.term, j)) == 2), patterns=[L.nth(rows.term, j)]), getattr(node, "lineno", 0),
                        clause="every row handed to zip(*rows) has two components")
            cols = []
            for c_ in (0, 1):
                col = L.fresh("zipcol%d" % c_)
                self.st.assume(col != L.NONE)
                self.st.assume(L.len_(col) == n)
                self.st.assume(z3.ForAll([j], z3.Implies(z3.And(0 <= j, j < n), L.nth(col, j) == L.nth(L.nth(rows.term, j), c_)), patterns=[L.nth(col, j)]))
                cols.append(ZV(col, "seq"))
            return PySeq(cols, "tuple")
        raise Unsupported("zip(...) outside a for loop (line %s)" % getattr(node, "lineno", "?"))

    def b_sorted(self, args, kwargs, node):
        h = R.EXTERNALS.get("builtins.sorted")
        if h:
            return h.f(self, args, kwargs, node)
        raise Unsupported("sorted without theory")

    def b_id(self, args, kwargs, node):
        """id(x): an integer that is a function of the object - NOT assumed injective over time (addresses are reused after an object dies)."""
        return ZI(L.fn("id_of", L.V, L.I)(as_v(args[0])))

    def b_range(self, args, kwargs, node):
        if len(args) == 1:
            return PyRange(PyC(0), args[0])
        return PyRange(args[0], args[1])

    # generic container methods on locally built values (pure-update semantics)
    def _writeback(self, bm, new):
        if bm.recv_node is None:
            raise Unsupported("in-place mutation of a temporary")
        self.assign(bm.recv_node, new)
        return PyC(None)

    def m_append(self, recv, args, kwargs, bm, node):
        if isinstance(recv, PySeq):
            return self._writeback(bm, PySeq(recv.items + [args[0]], recv.kind))
        sv = self.seq_of(recv)
        return self._writeback(bm, ZV(L.seq_append(sv.term, as_v(args[0])), recv.tag))

    def m_pop(self, recv, args, kwargs, bm, node):
        """list.pop() (last element) on a locally held list."""
        if args:
            bt_ = base_tag(getattr(recv, "tag", None)) or ""
            if isinstance(recv, ZV) and (bt_.startswith("Dict") or bt_ == "dict"):
                # dict.pop(key[, default]): removes the key; KeyError without a default when it is missing
                k = as_v(args[0])
                if len(args) == 1:
                    self.partial(L.has(recv.term, k), "KeyError", node, "pop-key")
                    val = self.retag(L.get(recv.term, k), self.val_tag(recv))
                else:
                    vt = self.val_tag(recv)
                    dflt = args[1]
                    tag = vt
                    if isinstance(dflt, PyC) and dflt.value is None and vt and not vt.startswith("Opt["):
                        tag = "Opt[%s]" % vt
                    val = ZV(z3.If(L.has(recv.term, k), L.get(recv.term, k), as_v(dflt)), tag)
                self._writeback(bm, ZV(L.dict_del(recv.term, k), recv.tag))
                return val
            raise Unsupported("pop with an argument on %r" % (recv,))
        if isinstance(recv, PySeq):
            if not recv.items:
                raise RaisedEx(ExcVal("IndexError"), getattr(node, "lineno", 0))
            self._writeback(bm, PySeq(recv.items[:-1], recv.kind))
            return recv.items[-1]
        sv = self.seq_of(recv)
        n = L.len_(sv.term)
        self.partial(n >= 1, "IndexError", node, "pop-empty")
        last = self.retag(L.nth(sv.term, n - 1), self.elem_tag(sv))
        self._writeback(bm, ZV(L.seq_slice(sv.term, z3.IntVal(0), n - 1), recv.tag))
        return last

    def m_extend(self, recv, args, kwargs, bm, node):
        other = args[0]
        if isinstance(recv, PySeq) and isinstance(other, PySeq):
            return self._writeback(bm, PySeq(recv.items + other.items, recv.kind))
        return self._writeback(bm, ZV(L.seq_concat(self.seq_of(recv).term, self.seq_of(other).term),
                                      recv.tag if isinstance(recv, ZV) else "seq"))

    def m_add(self, recv, args, kwargs, bm, node):
        if isinstance(recv, PySeq) and recv.kind == "set":
            recv = ZV(as_v(recv), "set")
        return self._writeback(bm, ZV(L.set_add(recv.term, as_v(args[0])), recv.tag))

    def m_difference(self, recv, args, kwargs, bm, node):
        """set.difference(iterable): a new set (membership view); the receiver is unchanged."""
        if isinstance(recv, PySeq) and recv.kind == "set":
            recv = ZV(as_v(recv), "set")
        if not (isinstance(recv, ZV) and (base_tag(recv.tag) or "").lower().startswith("set")) or len(args) != 1:
            raise Unsupported("difference on %r (line %s)" % (recv, getattr(node, "lineno", "?")))
        return ZV(L.set_diff(recv.term, self.seq_of(args[0]).term), recv.tag)

    def m_update(self, recv, args, kwargs, bm, node):
        """set.update(iterable) on a locally held set (membership view)."""
        if isinstance(recv, PySeq) and recv.kind == "set":
            recv = ZV(as_v(recv), "set")
        if not (isinstance(recv, ZV) and (base_tag(recv.tag) or "").lower().startswith("set")):
            raise Unsupported("update on %r (line %s)" % (recv, getattr(node, "lineno", "?")))
        return self._writeback(bm, ZV(L.set_union(recv.term, self.seq_of(args[0]).term), recv.tag))

    def m_setdefault(self, recv, args, kwargs, bm, node):
        """dict.setdefault(key, default): the stored value if the key is present, otherwise stores and returns the default."""
        if isinstance(recv, PyDict):
            recv = ZV(as_v(recv), "dict")
        bt_ = base_tag(getattr(recv, "tag", None)) or ""
        if not (isinstance(recv, ZV) and (bt_.startswith("Dict") or bt_ == "dict")):
            raise Unsupported("setdefault on %r" % (recv,))
        k = as_v(args[0])
        dflt = args[1] if len(args) > 1 else PyC(None)
        present = L.has(recv.term, k)
        val = ZV(z3.If(present, L.get(recv.term, k), as_v(dflt)), self.val_tag(recv) or getattr(dflt, "tag", None))
        self._writeback(bm, ZV(z3.If(present, recv.term, L.dict_set(recv.term, k, as_v(dflt))), recv.tag))
        return val

    def m_get(self, recv, args, kwargs, bm, node):
        if isinstance(recv, PyDict):
            recv = ZV(as_v(recv), "dict")
        if isinstance(recv, ZV):
            k = as_v(args[0])
            default = args[1] if len(args) > 1 else PyC(None)
            vt = self.val_tag(recv)
            r = z3.If(L.has(recv.term, k), L.get(recv.term, k), as_v(default))
            tag = vt
            if isinstance(default, PyC) and default.value is None and vt and not vt.startswith("Opt["):
                tag = "Opt[%s]" % vt
            return ZV(r, tag)
        raise Unsupported(".get on %r" % (recv,))

    def m_keys(self, recv, args, kwargs, bm, node):
        if self.tainted(recv):
            self.effect("keys()", self.exact_builtin_container(recv), node)
        if isinstance(recv, PyDict):
            return PySeq([k for k, _ in recv.items], "list")
        et = self.elem_tag(recv) or ("Val" if self.tainted(recv) else None)     # the keys of a program object are program objects
        return ZV(recv.term, "Seq[%s]" % et if et else "seq")

    def m_values(self, recv, args, kwargs, bm, node):
        if self.tainted(recv):
            self.effect("values()", self.exact_builtin_container(recv), node)
        if isinstance(recv, PyDict):
            return PySeq([v for _, v in recv.items], "list")
        vt = self.val_tag(recv) or ("Val" if self.tainted(recv) else None)
        return ZV(L.dict_values(recv.term), "Seq[%s]" % vt if vt else "seq")

    def m_items(self, recv, args, kwargs, bm, node):
        if self.tainted(recv):
            self.effect("items()", self.exact_builtin_container(recv), node)
        if isinstance(recv, PyDict):
            return PySeq([PySeq([k, v]) for k, v in recv.items], "list")
        kt, vt = self.elem_tag(recv), self.val_tag(recv)
        if self.tainted(recv):
            kt, vt = kt or "Val", vt or "Val"
        return ZV(L.dict_items(recv.term), "Seq[Pair[%s,%s]]" % (kt, vt) if kt or vt else "seq")

    def m_format(self, recv, args, kwargs, bm, node):
        if isinstance(recv, PyC) and isinstance(recv.value, str):
            import string
            parts = []
            pos = iter(args)
            for lit, field, spec, conv in string.Formatter().parse(recv.value):
                if lit:
                    parts.append(z3.StringVal(lit))
                if field is not None:
                    v = kwargs[field] if field in kwargs else next(pos)
                    parts.append(as_str(v) if is_prim_str(v) and not spec and not conv else L.fresh("fmt", L.S))
            if not parts:
                return PyC("")
            return ZS(z3.Concat(*parts) if len(parts) > 1 else parts[0])
        return ZS(L.fresh("fmt", L.S))

    def m_startswith(self, recv, args, kwargs, bm, node):
        if isinstance(args[0], PySeq):          # a tuple of prefixes
            return ZB(z3.Or(*[z3.PrefixOf(as_str(x), as_str(recv)) for x in args[0].items]) if args[0].items else z3.BoolVal(False))
        return ZB(z3.PrefixOf(as_str(args[0]), as_str(recv)))

    def m_endswith(self, recv, args, kwargs, bm, node):
        if isinstance(args[0], PySeq):
            return ZB(z3.Or(*[z3.SuffixOf(as_str(x), as_str(recv)) for x in args[0].items]) if args[0].items else z3.BoolVal(False))
        return ZB(z3.SuffixOf(as_str(args[0]), as_str(recv)))

    def m_join(self, recv, args, kwargs, bm, node):
        v = args[0]
        if isinstance(v, PySeq) and all(is_prim_str(x) for x in v.items):
            if not v.items:
                return PyC("")
            parts = []
            for k, x in enumerate(v.items):
                if k:
                    parts.append(as_str(recv))
                parts.append(as_str(x))
            return ZS(z3.Concat(*parts) if len(parts) > 1 else parts[0])
        return ZS(L.fn("str_join", L.S, L.V, L.S)(as_str(recv), as_v(v)))

    def m_isdisjoint(self, recv, args, kwargs, bm, node):
        x = L.fresh("x")
        a, b = self.seq_of(recv).term, self.seq_of(args[0]).term
        return ZB(z3.ForAll([x], z3.Not(z3.And(L.has(a, x), L.has(b, x))), patterns=[L.has(a, x)]))

    # ------------------------------------------------------------- yield (generators / context managers)
    def do_yield(self, node):
        if isinstance(node, ast.YieldFrom):
            v = self.seq_of(self.eval(node.value))
            self.yielded = ZV(L.seq_concat(self.yielded.term, v.term), "seq")
            return
        if self.is_ctxmgr:
            # the with-body runs here: arbitrary program code (may log, so the effect trace is havocked),
            # it may finish normally or raise anything
            env_ = dict(self.entry_env)
            env_.update({"L_" + k: v for k, v in self.st.env.items()})
            for label, clause in self.contract.at_yield.items():
                self.oblige(label, as_bool(self.spec_eval(clause, env_, clean=True)), node.lineno, clause=clause)
            self.st.effects = L.fresh("eff_body")
            self.st.env["ghost_body_effects"] = ZV(self.st.effects, "seq")
            if "profiler" in R.FIELDS:
                # ... and may call sys.setprofile itself: the interpreter's profiler slot is unknown after the body
                self.heap_array("profiler")
                self.st.heap["profiler"] = L.fresh("heap_profiler_body", z3.ArraySort(L.V, L.V))
            if self.branch(L.fresh("body_raises", L.B), node.lineno):
                self.body_raised = True
                raise RaisedEx(ExcVal("BaseException", exact=False), node.lineno)
            return
        v = self.eval(node.value) if node.value is not None else PyC(None)
        self.yielded = ZV(L.seq_append(self.yielded.term, as_v(v)), "seq")

    # ------------------------------------------------------------- driver
    def run(self):
        c = self.contract
        fnode = self.fnode
        self.worklist = [[]]
        self.is_ctxmgr = any((isinstance(d, ast.Name) and d.id == "contextmanager") for d in fnode.decorator_list)
        t0 = time.time()
        while self.worklist:
            prefix = self.worklist.pop()
            self.paths += 1
            if self.paths > self.max_paths:
                raise Unsupported("more than %d paths" % self.max_paths)
            self.run_path(prefix)
        self.explore_s = time.time() - t0
        return self.obligations

    def entry_state(self, prefix):
        c = self.contract
        st = State(prefix)
        self.st = st
        L._fresh[0] = 0      # deterministic names per path prefix: shared prefixes give identical terms (dedupe)
        self.effects0 = st.effects = L.const("eff0")
        self.clock0 = st.clock = L.const("clock0", L.I)
        self.yielded = ZV(L.EMPTY_SEQ, "seq")
        self.body_raised = False
        self.handling = []
        self.loop_entry_stack = []
        a = self.fnode.args
        allp = [x.arg for x in a.posonlyargs + a.args + a.kwonlyargs]
        if a.vararg:
            allp.append(a.vararg.arg)
        if a.kwarg:
            allp.append(a.kwarg.arg)
        for p in allp:
            tag = c.params.get(p)
            if p not in c.params:
                raise Unsupported("contract does not attach: parameter %s of %s has no declared sort" % (p, c.target))
            if tag == "bool":
                st.env[p] = ZB(L.const("arg_" + p, L.B))
            elif tag == "int":
                st.env[p] = ZI(L.const("arg_" + p, L.I))
            elif tag == "strp":
                st.env[p] = ZS(L.const("arg_" + p, L.S))
            else:
                st.env[p] = ZV(L.const("arg_" + p), tag)
        for p in c.params:
            if p not in allp:
                raise Unsupported("contract does not attach: %s has no parameter %s" % (c.target, p))
        self.entry_env = dict(st.env)
        for label, clause in c.requires.items():
            st.assume(as_bool(self.spec_eval(clause)))
        for label, clause in c.assumes.items():
            st.assume(as_bool(self.spec_eval(clause)))
        for tgt in c.uses:
            self.assume_used_contract(R.CONTRACTS[tgt])
        self.n_requires = len(st.pc)
        return st

    def run_path(self, prefix):
        c = self.contract
        st = self.entry_state(prefix)
        outcome = None
        try:
            try:
                self.exec_block(self.fnode.body)
                outcome = ("return", PyC(None))
            except ReturnEx as r:
                outcome = ("return", r.value)
            except RaisedEx as r:
                outcome = ("raise", r)
            except (BreakEx, ContinueEx):
                raise Unsupported("break/continue outside loop")
            if outcome[0] == "return":
                val = outcome[1]
                if self.is_generator and not self.is_ctxmgr:
                    val = self.yielded
                self.check_post(val)
            else:
                self.check_raise(outcome[1])
            self.path_ends.append((tuple(st.decisions), outcome[0], list(st.pc)))
        except PathEnd:
            pass

    def check_post(self, val):
        c = self.contract
        st = self.st
        env = dict(self.entry_env)
        if c.result in ("bool",):
            env["result"] = ZB(as_bool(val)) if not isinstance(val, ZV) else ZB(L.unbox_bool(val.term))
        elif c.result == "int":
            env["result"] = ZI(as_int(val))
        elif c.result == "strp":
            env["result"] = ZS(as_str(val))
        elif c.result == "raw":
            env["result"] = val
        else:
            env["result"] = ZV(as_v(val), c.result or getattr(val, "tag", None))
        if c.pure and not self.is_ctxmgr:
            # tie the result to the function symbol callers see
            pass
        env.update({"L_" + k: v for k, v in st.env.items()})
        for nme, clause in c.lets.items():
            env[nme] = self.spec_eval(clause, env, clean=True)
        line = self.cur_line
        from .expr import UnboundLocalInHint
        for label, clause in c.hints.items():
            self._strict_locals = True
            try:
                g = as_bool(self.spec_eval(clause, env, clean=True))
            except UnboundLocalInHint:
                continue
            finally:
                self._strict_locals = False
            self.oblige("hint:" + label, g, line, clause=clause)
            if _has_quantifier(g):
                st.pc.append(g)
        which = c.ensures
        if self.is_ctxmgr and self.body_raised:
            which = c.ensures_exc
        for label, clause in which.items():
            if any(label.startswith(p_) for p_ in c.definitional):
                continue        # defines a spec symbol (listed in the evidence as a definition); nothing to prove
            g = as_bool(self.spec_eval(clause, env, clean=True))
            self.oblige(label, g, line, clause=clause)

    def check_raise(self, r):
        c = self.contract
        st = self.st
        exc = r.exc
        if self.is_ctxmgr and self.body_raised and exc.cls == "BaseException":
            # the body's own exception propagating out of the context manager
            env = dict(self.entry_env)
            env.update({"L_" + k: v for k, v in st.env.items()})
            for label, clause in c.ensures_exc.items():
                self.oblige(label, as_bool(self.spec_eval(clause, env, clean=True)), r.line, clause=clause)
            return
        allowed = None
        for name, clause in c.raises.items():
            if R.exc_subclass(exc.cls, name.rstrip("!")):
                allowed = (name, clause)
                break
        if allowed is None:
            self.oblige("safe:no-raise:%s@%d" % (exc.cls, r.line), z3.BoolVal(False), r.line,
                        clause="%s must not escape %s" % (exc.cls, c.target))
            return
        name, clause = allowed
        if clause is None:
            # recorded so that a function all of whose paths raise allowed exceptions still has (trivial) obligations
            self.oblige("raises:allowed:%s@%d" % (name, r.line), z3.BoolVal(True), r.line, clause="%s is permitted by the contract" % name)
        env = dict(self.entry_env)
        env.update({"L_" + k: v for k, v in st.env.items()})
        if clause is not None and not any(("raises:" + name).startswith(p_) for p_ in c.definitional):
            g = as_bool(self.spec_eval(clause, env, clean=True))
            self.oblige("raises:%s@%d" % (name, r.line), g, r.line, clause=clause)
        for label, cl in c.ensures_exc.items():
            self.oblige(label, as_bool(self.spec_eval(cl, env, clean=True)), r.line, clause=cl)
